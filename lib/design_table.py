#!/usr/bin/env python3
"""Render the seeded-change table of DESIGN.md §8.7 from seeded/*/meta.json and seeded/RESULTS.json (between the markers)."""
import json, os, re
V = "/verif"
res = json.load(open(f"{V}/seeded/RESULTS.json")) if os.path.exists(f"{V}/seeded/RESULTS.json") else {}
rows = []
for d in sorted(os.listdir(f"{V}/seeded")):
    p = f"{V}/seeded/{d}"
    if not os.path.isdir(p):
        continue
    patch = open(f"{p}/patch.diff").read()
    files = sorted({m.split("/", 1)[1] for m in re.findall(r"^\+\+\+ b/(\S+)", patch, re.M) for m in ["x/" + m]})
    funcs = re.findall(r"^@@.*@@ (.*)$", patch, re.M)
    where = ", ".join(f.replace("src/", "") for f in files)
    r = res.get(d, {})
    if r.get("exit") == 1:
        keys = ", ".join(f"`{k}`" for k in (r.get("keys") or [])[:2])
        verdict = f"caught by `bin/check {d.split('-')[0]}` (quick): {keys}"
    elif r:
        verdict = f"NOT caught (exit {r.get('exit')})"
    else:
        verdict = "not run yet"
    rows.append(f"| {d} | {where} | {verdict} |")
for k, r in sorted(res.items()):
    if k.startswith("revert-"):
        keys = ", ".join(f"`{x}`" for x in (r.get("keys") or [])[:2])
        verdict = f"caught by `bin/check {r['property']}` (quick): {keys}" if r.get("exit") == 1 else f"NOT caught by `bin/check {r['property']}` quick (exit {r.get('exit')})"
        rows.append(f"| {k} | {r.get('subject', '')} | {verdict} |")
table = "| Change | Touches | Result |\n|---|---|---|\n" + "\n".join(rows)
s = open(f"{V}/DESIGN.md").read()
a, b = "<!-- SEEDED-TABLE-BEGIN -->", "<!-- SEEDED-TABLE-END -->"
if a in s:
    s = s[:s.index(a) + len(a)] + "\n" + table + "\n" + s[s.index(b):]
    open(f"{V}/DESIGN.md", "w").write(s)
print(table[:600])
