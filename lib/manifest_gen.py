#!/usr/bin/env python3
"""Regenerates MANIFEST.json from the table below (single source of truth)."""
import json
import os

ROOT = os.path.dirname(os.path.dirname(os.path.abspath(__file__)))

CHECKS = {}
NA = {}


def chk(pid, category, text, note, technique, design_ref):
    CHECKS[pid] = {
        "property_id": pid,
        "quick_cmd": f"bin/check {pid} --tier quick",
        "thorough_cmd": f"bin/check {pid} --tier thorough",
        "evidence_file": f"/verif/evidence/{pid}.json",
        "replay_cmd_template": f"bin/check {pid} --replay {{path}}",
        "engine": "tlc+vh",
        "level_claimed": {"category": category, "text": text, "design_ref": design_ref},
        "level_note": note,
        "technique": technique,
    }


chk("C16", "model_checking",
    "TLC checks the RFC 1982 laws and ImplCmp = Cmp (a transcription of Serial::partial_cmp) exhaustively at widths 3-8; "
    "every state is replayed into the real Serial under the exact embedding x*2^(32-W); recorded full-width operations are "
    "validated by Trace_Rfc1982; Apalache discharges the same laws for all a,b < 2^32; the thorough tier also loops over all 2^32 differences.",
    "TLC, Apalache, SANY; the harness' projection (scaling homomorphism, 16-bit halves for trace values).",
    "TLA+ spec (Rfc1982) model-checked by TLC + Apalache lemma; spec->impl replay of every state; impl->spec trace validation",
    "DESIGN.md §3 C16")

chk("C03", "model_checking",
    "TLC model-checks step-by-step transcriptions of chain.rs (from_iter incl. the unsorted path, contains_item, is_encompassed, trim, "
    "difference, eq, verify_issued) against their set-theoretic meaning for every block sequence up to length 3/4 and every pair of sets "
    "over 0..5/0..7, plus the range->prefix decomposition at widths 3-6; every case is replayed through AsBlocks/IpBlocks/ResourceSet/"
    "RequestResourceLimit under 14 embeddings (both ends of each number space) incl. text, serde and DER forms; random full-width "
    "scenarios are coordinate-compressed and validated step by step by Trace_ResChain.",
    "Blocks handed to collectors are well-formed; embeddings/compression preserve order, adjacency and domain ends; TLC/SANY.",
    "TLA+ transcription (ResChain/IntervalSet/IpCanon) model-checked by TLC; exhaustive spec->impl replay; impl->spec trace validation",
    "DESIGN.md §3 C03")

chk("C13", "model_checking",
    "TLC checks, over all pairs and triples of (max-length) prefixes of two families at small widths, that transcriptions of "
    "Prefix::covers and the three Ord impls are total orders consistent with equality, put more-specific first and agree with "
    "range inclusion; the constructor guard table; and transcriptions of SmallAsnSet::from_iter and its four merge iterators against "
    "set algebra for all pairs of multisets. Every case is replayed in 4 windows of the 32/128-bit spaces (incl. text round trips, "
    "hashing, min/max address); random full-width windows are validated by Trace_PrefixLaws.",
    "Window embeddings preserve covers/order/equality; TLC/SANY.",
    "TLA+ transcription (PrefixLaws/AsnSet) model-checked by TLC; exhaustive spec->impl replay; impl->spec trace validation",
    "DESIGN.md §3 C13")

chk("C12", "model_checking",
    "TLC checks on the UriAlgebra specification (URIs as character sequences) that equality is an equivalence, parent-of is "
    "irreflexive/transitive/a congruence, relative_to is empty exactly for URIs equal up to one trailing slash and otherwise "
    "re-joins to the original, and join/parent results are well-formed with the same authority - for every string up to length 5/6 "
    "over a 6-character alphabet and all pairs/triples of accepted URIs; every case is replayed into Rsync/Https (acceptance compared "
    "one-directionally) under 3 scheme spellings and 2 alphabet renderings; random long URIs are validated by Trace_UriAlgebra.",
    "Small alphabet {a,A,b,/,.,space} and its multi-character rendering represent the character classes; TLC/SANY.",
    "TLA+ spec (UriAlgebra) model-checked by TLC; exhaustive spec->impl replay; impl->spec trace validation",
    "DESIGN.md §3 C12")

chk("C15", "model_checking",
    "The Slurm specification states the drop rule per kind and transcribes the implementation's decision tables; TLC checks their "
    "equivalence for every filter list of up to 2/3 filters over every present/absent criteria combination against every payload "
    "item; every state is replayed as a real SlurmFile (drop_payload, JSON round trip, assertion payload fields) in two address "
    "renderings; random files with full-size values are validated by Trace_Slurm.",
    "Finite abstraction at which the statement is phrased (criteria present/absent, covers / equal); TLC/SANY.",
    "TLA+ spec (Slurm) model-checked by TLC; exhaustive spec->impl replay; impl->spec trace validation",
    "DESIGN.md §3 C15")

chk("C17", "model_checking",
    "X509Time specifies calendar, Enc (tag choice 1950-2049), Dec (fixed width, all digits, Z, real date, pivot 50), windows and "
    "minimal-DER serials; TLC checks Dec(Enc(t)) = t over boundary years x months x days x h/m/s boundaries, that every string within "
    "1-2 edits of a valid one over a digit-and-sign alphabet decodes only if canonical, window/trim laws over 4 instants and DER/order "
    "laws over serial byte classes; every state is replayed through Time/Validity/Serial; a native sweep covers every calendar day "
    "1..9999 (quick: every 53rd year); random operations are validated by Trace_X509Time.",
    "The DER TLV wrapper around time strings is built by the harness; chrono is the library's calendar, the spec's is independent.",
    "TLA+ spec (X509Time) model-checked by TLC; exhaustive spec->impl replay; native sweep; impl->spec trace validation",
    "DESIGN.md §3 C17")

chk("C06", "model_checking",
    "RtrSession models client, server connection and a changing source with one action per server call into the source; TLC checks "
    "SyncCorrect (data handed to the target = source data for the End-of-Data state restricted to the negotiated version; state and "
    "timing adopted), version stability, no stale session, plus liveness, for every client/server version pair incl. downgrade against "
    "a legacy cache, three client start states and diff windows, with source updates interleaved at every point; with transport "
    "faults enabled (ConnLost at every point of every response) it also checks FailAtomic: a failing step hands nothing to the target "
    "and leaves the client's state alone. Every emitted "
    "behaviour is executed with the real Client and real Server on a paused single-threaded runtime (updates injected at the recorded "
    "source-call index, serials at 0 and at wrap-around); long randomly scheduled connections are recorded at the PayloadSource/"
    "PayloadTarget boundary and validated step by step by Trace_RtrSession with all invariants on.",
    "Payload universe of 6 items (an announced ASPA without providers included); the source lists its items in either order; PDU delivery folded into the send action; legacy cache played by the harness; single-threaded schedules.",
    "TLA+ spec (RtrSession) model-checked by TLC incl. liveness; behaviours replayed into real client+server; impl->spec trace validation",
    "DESIGN.md §3 C06")

chk("C08", "model_checking",
    "RtrServerConn models one server connection at byte granularity (Deliver(n) for every n, Notify, client close; SelectNotify, "
    "ReadHeader, ReadBody, Respond) with tagged bytes so loss/duplication/reordering is visible; TLC checks, for 4 query streams "
    "(well-formed, bad length, unknown type, version switch / too high, error PDU), every fragmentation and notify interleaving: "
    "responses without notifications = the answers determined by the query bytes, in order, nothing lost, notifications only between "
    "responses, and liveness. For every model state a shortest environment script is run against the real Server on a controlled "
    "socket (paused current_thread runtime, the source listing its items in either order) and its output compared; all socket reads/writes of those runs and of random chunkings "
    "with notify storms are validated by Trace_RtrServerConn.",
    "Single-threaded scheduler; a response is written without intervening reads; malformed queries are given exactly the bytes the server consumes.",
    "TLA+ spec (RtrServerConn) model-checked by TLC incl. liveness; state-cover scripts replayed into the real server; impl->spec trace validation",
    "DESIGN.md §3 C08")

chk("C07", "model_checking",
    "RtrLayout gives the PDU layout table as data (Enc, length-field law) and Need, what each reader does after the header; RtrWire "
    "is the reader automaton over a stream that ends after `avail` bytes with arbitrary chunking; TLC checks bounded consumption, "
    "ok <=> complete, and termination (liveness) for every entry point x type x version x length field x truncation point, and the "
    "layout laws for every PDU type x version x action x boundary fields. Every case is replayed: bytes written by the library = "
    "table, read back = same item, every truncated/corrupted stream through the real readers with 3 chunkings while counting "
    "consumed bytes and end-of-stream polls; random full-range PDUs and cut sequences are validated by Trace_RtrWire.",
    "Spinning = more than 64 polls after end of stream; memory on huge length fields not measured.",
    "TLA+ spec (RtrLayout/RtrWire) model-checked by TLC incl. liveness; exhaustive spec->impl replay; impl->spec trace validation",
    "DESIGN.md §3 C07")

chk("C09", "model_checking",
    "XmlLimit models the XML reader's byte budget (reset-and-limit at every element, fill refused once the trip is over the limit, "
    "consume) over documents with oversized and endless elements; TLC checks that every byte is consumed under a freshly reset non-zero "
    "limit, trip <= limit + one buffer, bounded read-ahead, and that oversized/endless elements are refused (liveness). RrdpDoc "
    "transcribes sort_and_verify_deltas and states the origin rule; TLC checks them for all serial lists over boundary values x limits and "
    "enumerates all documents with <= 2 elements. Every document is written and parsed back by the library and the predicates compared; "
    "BufReadCounter events recorded through the cfg(rpki_rs_verif) hook from valid, byte-mutated, captured and 29 endless generated "
    "inputs are validated by Trace_XmlLimit (budget invariants after every event, bytes pulled <= offset + budget + one buffer).",
    "Hook commit d0960aa in /repo (add-only, cfg-guarded); inner BufReader of 8192 bytes; malformed-document grammar explored by byte "
    "mutation, not from a token-level model.",
    "TLA+ specs (XmlLimit, RrdpDoc) model-checked by TLC incl. liveness; spec->impl replay; impl->spec trace validation of hook events",
    "DESIGN.md §3 C09")

chk("C04", "fault_enumeration",
    "Decoders.tla models a decoding entry point fed by an adversary: starting from a valid object the adversary applies structure-"
    "preserving mutations (33 kinds: tag, length form, value, delete, duplicate, splice, segmentation, nesting ...) at chosen TLV nodes "
    "and picks strict or relaxed mode; the decoder has exactly the outcomes value and error (no panic, no blow-up), every run plan "
    "terminates, and the capture/re-decode table must satisfy CapImpliesRed (an accessor never re-decodes in a stricter mode than the "
    "region was captured in). TLC enumerates every plan and table cell; each is replayed against all 11 entry points on real objects "
    "(built with real keys, zero-numbered objects included, + the repository's captured files) with every accessor, iterator, validator and re-encoder - "
    "top-level and field-by-field - of whatever decodes, under panic capture, an allocation meter and a watchdog. Random multi-mutation fuzz runs are validated by Trace_Decoders.",
    "Fault enumeration over mutation plans, not all byte strings; budgets instead of exact complexity bounds; memory safety itself is "
    "outside TLC's reach.",
    "TLA+ spec (Decoders) model-checked by TLC (safety + liveness); spec->impl replay of every adversary plan with panic/allocation/time guards; impl->spec trace validation of fuzz runs",
    "DESIGN.md §3 C04")

chk("C05", "model_checking",
    "BuildDecode.tla is the builder-input machine (9 object kinds x serial forms incl. zero x slice or length-less iterator feed x validity windows straddling the UTCTime/"
    "GeneralizedTime boundaries x resource shapes x URI forms x every sequence of <= 3 list items, duplicates included) plus the captured-layout "
    "discipline and, over X509Time's encoder model, the expected time tags/characters and minimal serial INTEGERs; TbsBuilder.tla is the "
    "certificate builder as a state machine (TbsCert::new + 18 setters, SkiTracksKey, OneField) and SobBuilder.tla the signed-object "
    "builder (11 setters, the derived EE certificate, SidIsSki). TLC enumerates every state; each is "
    "replayed through the real builders with real RSA keys: build, encode, decode, validate, re-encode (bytes equal), every accessor of "
    "the built object and its decoded twin compared, DER forms compared with the model's, setter scripts compared field by field with "
    "the model's record.",
    "Value classes with fixed representatives; a fidelity property, so the specification contributes the case structure, the builder state "
    "machine and the expected DER forms rather than an interleaving argument.",
    "TLA+ specs (BuildDecode over X509Time, TbsBuilder, SobBuilder) model-checked by TLC; exhaustive spec->impl replay through the real builders/decoders",
    "DESIGN.md §3 C05")

chk("C11", "model_checking",
    "CaXml.tla defines attribute/PCDATA escaping (Rep, Esc), a conforming reader (Read) and the field table of all 16 message variants "
    "of RFC 6492/8181/8183 (carrier and admitted characters per field; CarrierSafe). CaXmlEsc.tla is the writer's escaping machine "
    "(TLC: Incremental, RoundTrip, AttrCoversPcdata for every value up to length 4/5 over an alphabet that contains the specials and "
    "entity look-alikes); CaXmlMsg.tla is the case machine (variant x list shape x optional fields x focus field x every focus string) "
    "plus the parser fault plans (34 mutation kinds x 5 positions). Every state is replayed: values through xml::encode::Writer "
    "(an independent scanner and the library's reader must get back the model's Read(Esc(value)); the written form itself may be any "
    "correct escaping), messages through the public constructors -> XML -> independent well-formedness scanner -> library parser = "
    "equal, mutated documents through all six parsers (no panic; accepted values stabilise under write/parse). Random messages are "
    "validated by Trace_CaXml (every written attribute reads back as its value under the model's Read, well-formed, round trip).",
    "ASCII without C0 controls, whole-second times, non-empty objects, tags present; canned error texts only.",
    "TLA+ specs (CaXml, CaXmlEsc, CaXmlMsg) model-checked by TLC; exhaustive spec->impl replay with an independent XML scanner; impl->spec trace validation",
    "DESIGN.md §3 C11")

chk("C14", "model_checking",
    "Manifest.tla states the RFC 9286 file-name grammar, transcribes validate_file_name and resolves names against a base with "
    "UriAlgebra's join/parent; TLC checks transcription = grammar and that every valid name resolves directly inside the base, for "
    "every name up to length 6/7 over an 8-character alphabet, and the decode rule over manifests of 0-3 entries x hash-length classes x "
    "time orders. Every case is assembled as ManifestContent DER by an independent encoder and decoded by the library (acceptance "
    "compared one-directionally); len = iterator count, iter_uris under 3 bases (no panic, directly inside), hash verification = SHA-256 "
    "equality; random manifests are validated by Trace_Manifest.",
    "ManifestContent decoded directly; the signed wrapper is C02's; one-directional acceptance.",
    "TLA+ spec (Manifest over UriAlgebra) model-checked by TLC; exhaustive spec->impl replay via independent DER encoder; impl->spec trace validation",
    "DESIGN.md §3 C14")

chk("C01", "model_checking",
    "CertChain.tla states acceptance of TA / CA / EE / router certificates and the validated resources (missing, inherit, blocks; "
    "Refuse: covered or rejected, Trim: intersection); TLC checks that resources never grow along a chain and that every combination "
    "of the identity facets (signing key, AKI, SKI validity, signature-bit / TBS-byte tamper, notBefore/notAfter vs an evaluation instant "
    "on or strictly between representable certificate times; trust anchors inheriting in any one family; owned and by-reference TA entry points) other than the "
    "conforming one rejects. Every behaviour (44k resource chains, 4.5k identity variants, and every issuer/claim pair of sets over a "
    "small line from C03's model) is realised with real RSA keys and DER (SKI patched and re-signed, bits flipped), decoded and "
    "validated by the library; verdict and validated resources are compared at each step. Random links with large full-width "
    "resource sets are coordinate-compressed and validated by Trace_CertChain with ResChain's VerifyIssued.",
    "Cryptography observed only through verdicts; byte tampering sampled (one signature bit, one TBS byte); router certificates "
    "expose only a verdict.",
    "TLA+ spec (CertChain, ResChain) model-checked by TLC; behaviours replayed into real certificates; impl->spec trace validation",
    "DESIGN.md §3 C01")

chk("C02", "fault_enumeration",
    "SignedObj.tla states acceptance as the conjunction of the facets (required signed attributes once each, content-type attribute "
    "matches, digest, signature over the SET OF attributes under the EE key, signer id = EE SKI, EE certificate validates under the "
    "issuer, coverage of ROA prefixes / ASPA customer with no IP and no inheritance, CRL callback) and a machine applying up to 2/3 "
    "deviations to a conforming ROA, ASPA, manifest or generic object whose signed attributes total 107/127/128/129/255/256/257 bytes; "
    "TLC checks single-point rejection and monotonicity. Every state is assembled byte by byte by the harness' own RFC 5652/6488 "
    "encoder with real keys and certificates and run through decode + validate/process in strict and in relaxed mode, the CRL callback being a "
    "revocation list whose verdict depends on the certificate shown; random ROAs/ASPAs against random "
    "full-width EE resources are validated by Trace_SignedObj.",
    "Decision structure enumerated, bytes sampled (one flipped bit per tampered field); wall clock for process(); crypto through verdicts only.",
    "TLA+ spec (SignedObj) model-checked by TLC; every state realised by an independent CMS encoder; impl->spec trace validation of coverage",
    "DESIGN.md §3 C02")

chk("C10", "fault_enumeration",
    "CmsMsg.tla states acceptance of an RFC 6492/8181 signed message against a peer identity key as the conjunction of 13 facets "
    "(required signed attributes, digest, signature over all signed attributes incl. additional ones, signer id, EE certificate signed "
    "by the peer / current / not a CA (Basic Constraints absent or present with cA false) / AKI absent or the peer's, CRL signed by the peer / current / AKI / not listing the EE "
    "certificate - in any position of an unordered list, validation key) with a machine applying up to 2/3 deviations to conforming "
    "messages whose signed attributes total 107..300 bytes (127-129, 255-257 included); TLC checks single-point rejection. Every state "
    "is assembled by the harness' own CMS/X.509/CRL encoder with real keys and validated by the library (relaxed and strict decode); "
    "library-created messages are checked at both ends of and outside their validity and under another key; random facet "
    "combinations are validated by Trace_CmsMsg.",
    "Decision structure enumerated, bytes sampled; issuer Name / SPKI bytes come from the library's encoder.",
    "TLA+ spec (CmsMsg) model-checked by TLC; every state realised by an independent encoder; impl->spec trace validation",
    "DESIGN.md §3 C10")

# what rounds 6-7 and the coverage audit added to the realisation of each model (DESIGN.md §8.7)
EXTRA = {
    "C01": " Every public route to the verdict is asked the same question: relaxed mode, inspect_* + verify_*_at, the detached-EE pair, and - for "
           "behaviours whose evaluation instant lies strictly between two certificate times, with the instants placed around the wall clock - the "
           "clock-reading entry points validate_* / verify_* / verify_ta_ref. The evaluation instant reaches the validators built, through Time::new, and parsed from RFC 3339 text in three zones in turn. A claim listed with a block nested in its predecessor (patched DER, re-signed) is validated whole or refused.",
    "C02": " The model also carries the address family the ROA coverage facet lives in (v4, v6, each with or without the other family), the EE "
           "certificate's overclaim policy (trim: claim trimmed to two pieces, prefixes in the later one), a signer identifier with a trailing octet, "
           "the CRL facet for generic objects and the size class of 65535 bytes; every object is decided through process, validate, validate_at and "
           "decode_if_type + validate. ASPA objects also live under the trimming policy (the claim is one AS span across a gap in the issuer's holdings; the deviating customer lies in the gap), and the EE facet resbad puts, after a well-formed block that covers the object, an element whose bounds are the wrong way round. Every object also comes in the four forms of its two SHA-256 algorithm identifiers (parameters absent / NULL); the EE facet overclaim has the EE certificate carry exactly the extensions of an issuer whose own claim was trimmed; EE windows have just begun / just ended.",
    "C03": " Every obtained set is additionally swept through the rest of the public surface: IpBlocks::from_str, per-block text forms, builders "
           "fed by push and Extend, all(), iter_asns, intersection_assign, verify_covered, and ResourceSet difference / contains_asn / from_strs / serde. ResBuilder.tla models the resource builders as state machines (inherit() / blocks() in any sequence, finalize()): BuilderLaw for the bare builders, TbsLaw for the certificate under construction; every call sequence is replayed through AsResourcesBuilder, IpResourcesBuilder and TbsCert. ResourceSet is also exercised with its three families crossed (the same numbers in IPv4 and IPv6), and block lists of 65..140 blocks go through FromIterator, the builders and text in turn.",
    "C04": " The corpus includes objects with 65535 / 65536 / 65537 bytes of signed attributes, a manifest whose names use the whole RFC 9286 alphabet "
           "at first and last position, TALs through read / read_dir / TalUri's parsers and RTAs taken apart again (RtaBuilder::from_rta); time "
           "budgets are processor time per input. Decoders.tla lists every shape of a certificate's three resource extensions (missing / inherit / blocks); each is built as CA and EE certificate, decoded, swept and converted (ResourceSet::try_from: an error exactly when something is inherited, never a panic). The iterator protocol beyond next (size_hint, nth near and far, skip, step_by, last) is exercised on every decoded value's iterators, and containment / set operations run against parts of the decoded blocks themselves.",
    "C05": " Builders are fed through every public route (ASPA one provider at a time, ROA typed / per-family pushes and slices), resources include "
           "touching blocks given out of order, and the accessor table covers CSR, identity-certificate, manifest-entry, CRL-structure and ROA-entry views. ROA prefixes may share a first address; objects are also validated under an issuer holding exactly what they need, and a built ROA's prefixes must lie inside its own certificate's resources.",
    "C06": " Behaviours are run under two realisations of the model's payload items (ordinary values; host prefixes /32 and /128, one octet of key "
           "information, AS 0 and 2^32-1). RtrSession has NotifyCross: the source notifies just as the client's query goes out (the real server writes its Serial Notify ahead of the response); such a step may fail, and if it finishes it must finish with the source's data. Timing values include retry = expire and refresh > expire; the source's router key walks through key-information lengths from 1 to 1300; session ids in the edge realisation are small numbers (error codes elsewhere); a provider may be named twice in a row.",
    "C07": " The reader automaton covers all 27 fixed-size readers (read / try_read / read_payload of nine PDU structs) and open, silent streams "
           "(a reader may wait only for bytes its header announced); PDUs around and beyond 64 KiB, queries read by the real server connection "
           "under every fragmentation, and one driven client session per version pairing are included. RtrClientStream.tla is the session-level "
           "reader: a cache that speaks one version answers up to 2/3 update() calls with conforming replies (data, Cache Reset, version downgrade) "
           "or deviates in one place (version, type or length field of one PDU or of a Serial Notify, or the stream ends between or inside PDUs); "
           "TLC checks OkMeansClean, ErrMeansDirty, StopsAtBad, VersionStable and termination, and every conversation is run through the real Client "
           "on a scripted socket that hands out seven octets at a time (session ids include numbers that are error codes or flags in other PDU types); recorded random conversations are explained by Trace_RtrClientStream; every key-information length 1..320 and provider count 0..80 is written and read back; ASPA PDUs of 1023..5000 providers are cut at 18 places each.",
    "C09": " Hostile streams include endless runs of small comments, processing instructions and CDATA sections (no element starts, so no fresh "
           "budget is due); every hostile stream ends at twice the limit in force. Objects include one of 9 MiB as a document of its own and elements whose hash is that of their own data.",
    "C10": " The content is a real RFC 6492 / 8181 message and every case is also decided by ProvisioningCms / PublicationCms (decode, validate_at, "
           "validate) and SignedMessage::validate with the instants around the wall clock; windows whose ends are the wrong way round are facets. The signer's random octets (the EE serial number) are scripted to leading zeros followed by 0x01 / 0x7f / 0x80 / 0x81 / 0xff; with the instants around the wall clock every case is also run with windows that have just begun resp. just ended. RSA identity and one-off keys of 3072 / 4096 bits, a second library-created message with a later end under the same key, and the four algorithm-identifier forms are included.",
    "C12": " Every parser entry point (from_str, from_slice, from_string, from_bytes, TryFrom, parse, serde) must keep the text byte for byte; byte "
           "accessors, ends_with and path_into_dir are compared with the model. A third pairs configuration has authorities with the schemes' default ports (host:443 is not host). A fourth rendering has labels of 33 octets (authorities past 64 and 96 octets).",
    "C13": " Windows include IPv4-mapped IPv6 addresses; route origins written as struct expressions meet those made by new() in every pairing.",
    "C14": " Every 25th content is also wrapped in a real signed manifest (Manifest::decode strict / relaxed must agree with ManifestContent::take_from); "
           "size_hint of the list iterators must bracket what they yield; manifests written with unreal times must not decode. ManifestHash::verify is asked about objects of 64 sizes from 0 to 1 MiB, each also one octet short and with its last octet changed.",
    "C15": " Assertion lists with several entries of every kind and repeats are included, expectations are written from raw data (not through the "
           "library's constructors), and IPv4-mapped IPv6 prefixes are a fourth rendering. SlurmAssert.tla grows the assertion lists one assertion "
           "at a time out of 222 (prefix / maximum length classes, AS 0 and 2^32-1, key information of 0..4 octets, provider lists empty, unsorted, "
           "repeating); every list is replayed (iter_payload item by item, JSON there and back); every way in and out of a file (from_str, from_reader whole and in pieces, to_writer) must agree.",
    "C16": " Every PDU that carries a serial number must put it on the wire big-endian and hand it back through each accessor. ... and is read back from a stream that delivers 64, 3 and 1 octets at a time; one driven client/server session whose serials start sixteen below 2^32 is validated against C06's session model.",
    "C08": " Serial Notify PDUs carry their version in the model (OneVersion); the End of Data layout per version and one version per response are checked on the octets; every third case the client is slow (the socket has room for 1..11 octets at a time).",
    "C11": " URI fields come in plain, capitals and (service URI) https spellings, tags and class names reach 1024 characters; documents are also written into a sink that takes five octets per call and read through a reader that gives three; one issued certificate has 190 KiB; root elements in foreign (very short, truncated, empty) namespaces are among the fault plans.",
    "C17": " Serial numbers are replayed at every length from 1 to 20 octets through every conversion (array, String, integer constructors); "
           "Validity::verify is asked against the wall clock. DER is taken from the captured form and through writers that accept one and five octets per call; an instant read from RFC 3339 text does not depend on the zone it is written in.",
}

ALL = ["C%02d" % i for i in range(1, 18)]


def main():
    for pid, extra in EXTRA.items():
        CHECKS[pid]["level_claimed"]["text"] += extra
    with open(os.path.join(ROOT, "lib", "not_applicable.json")) as f:
        na = json.load(f)
    man = {
        "version": 1,
        "setup_cmd": "bin/setup",
        "hooks": {
            "guard": "cfg(rpki_rs_verif)",
            "enable": "RUSTFLAGS --cfg rpki_rs_verif (set in /verif/harness/.cargo/config.toml; the harness has a path dependency on /repo)",
            "baseline_off_cmd": "cd /repo && cargo test --workspace --no-fail-fast --offline",
            "source_commits": na.get("hook_commits", []),
            "add_only": True,
        },
        "engines": [
            {"name": "tlc+vh", "path": "/verif/bin/check",
             "serves_properties": sorted(CHECKS),
             "kind_free_text": "TLA+ specifications in /verif/spec model-checked by TLC (Apalache for unbounded lemmas); "
                               "TLC-emitted cases replayed into the real crate by the Rust harness /verif/harness (vh); "
                               "traces recorded from the real crate validated against Trace_* specifications"}
        ],
        "checks": [CHECKS[k] for k in sorted(CHECKS)],
        "not_applicable": [{"property_id": p, "reason": na["reasons"].get(p, "check not built yet (in progress)")}
                           for p in ALL if p not in CHECKS],
        "notes": "See DESIGN.md. Exit 2 = tool error/timeout/vacuous run, never a verdict.",
    }
    with open(os.path.join(ROOT, "MANIFEST.json"), "w") as f:
        json.dump(man, f, indent=1)
        f.write("\n")


if __name__ == "__main__":
    main()
