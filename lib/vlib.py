"""Shared machinery for /verif/bin/check.

  * build the Rust harness (path dependency on /repo => always the current tree)
  * run TLC / Apalache under a timeout and parse statistics, coverage, REPLAY lines
  * run the harness (`vh`) and collect its JSON summary
  * match violations against known_findings.json, write replay files + evidence
Exit codes of a check: 0 held / 1 VIOLATION / 2 tool error, timeout or vacuous run.
"""
import hashlib
import json
import os
import re
import subprocess
import sys
import time

ROOT = os.path.dirname(os.path.dirname(os.path.abspath(__file__)))
SPEC = os.path.join(ROOT, "spec")
HARNESS = os.path.join(ROOT, "harness")
WORK = os.path.join(ROOT, "work")
# (bin/selftest runs the checks against deliberately broken trees: what they write must not replace the evidence of the real tree)
EVID = os.environ.get("VERIF_EVIDENCE_DIR") or os.path.join(ROOT, "evidence")
REPLAY = os.path.join(ROOT, "replay")
# VERIF_VH: an alternative harness binary (bin/coverage-audit uses an instrumented build)
VH = os.environ.get("VERIF_VH") or os.path.join(HARNESS, "target", "debug", "vh")
TLAJAR = "/opt/veriftools/tla/tla2tools.jar:/opt/veriftools/tla/CommunityModules-deps.jar"


class ToolError(Exception):
    """Anything that is neither 'held' nor 'violated': exit 2."""


def log(*a):
    print(*a, file=sys.stderr, flush=True)


def workdir(prop):
    d = os.path.join(WORK, prop)
    os.makedirs(d, exist_ok=True)
    return d


# --------------------------------------------------------------------------
# harness
# --------------------------------------------------------------------------
def build_harness():
    env = dict(os.environ)
    env["CARGO_NET_OFFLINE"] = "true"
    env.pop("RUSTFLAGS", None)  # .cargo/config.toml supplies the hook cfg
    t0 = time.time()
    p = subprocess.run(["cargo", "build", "--offline", "--quiet"], cwd=HARNESS, env=env,
                       stdout=subprocess.PIPE, stderr=subprocess.STDOUT, text=True)
    if p.returncode != 0:
        log(p.stdout[-6000:])
        raise ToolError("harness build failed (does /repo still compile with all features?)")
    log(f"[build] harness + /repo working tree built in {time.time()-t0:.1f}s")
    return VH


def vh(args, timeout=1200, stdin=None, env=None):
    """Run the harness; its last stdout line is a JSON summary."""
    e = dict(os.environ)
    e["RUST_BACKTRACE"] = "0"
    if env:
        e.update(env)
    try:
        p = subprocess.run([VH] + [str(a) for a in args], input=stdin, text=True, env=e,
                           stdout=subprocess.PIPE, stderr=subprocess.PIPE, timeout=timeout)
    except subprocess.TimeoutExpired:
        raise ToolError(f"vh {' '.join(map(str, args))}: timeout after {timeout}s")
    lines = [l for l in p.stdout.splitlines() if l.strip()]
    if p.returncode not in (0,) or not lines:
        log(p.stderr[-4000:])
        log("\n".join(lines[-5:]))
        raise ToolError(f"vh {' '.join(map(str, args))}: exit {p.returncode}")
    try:
        return json.loads(lines[-1])
    except json.JSONDecodeError:
        log(p.stderr[-2000:])
        raise ToolError(f"vh {' '.join(map(str, args))}: no JSON summary")


def merge_summaries(parts):
    """Merge the JSON summaries of several harness processes that shared one case list."""
    out = {}
    for d in parts:
        for k, v in d.items():
            if k == "violations" or k == "samples":
                out.setdefault(k, []).extend(v)
            elif k == "violation_counts":
                vc = out.setdefault(k, {})
                for kk, n in v.items():
                    vc[kk] = vc.get(kk, 0) + n
            elif isinstance(v, bool):
                out[k] = out.get(k, True) and v
            elif isinstance(v, (int, float)):
                # per-item ratios are measurements, everything else is a counter
                out[k] = max(out.get(k, 0), v) if k.startswith("peak_ratio") or k.startswith("corpus_items") else out.get(k, 0) + v
            else:
                out.setdefault(k, v)
    out["samples"] = out.get("samples", [])[:4]
    return out


def vh_parallel(verb, module, cases, wd, jobs=8, extra=(), timeout=3000):
    """Replay `cases` with `jobs` harness processes (round-robin split); returns the merged summary."""
    from concurrent.futures import ThreadPoolExecutor
    jobs = max(1, min(jobs, len(cases)))
    paths = []
    for j in range(jobs):
        paths.append(write_ndjson(os.path.join(wd, f"cases-{j}.ndjson"), cases[j::jobs]))
    with ThreadPoolExecutor(max_workers=jobs) as ex:
        parts = list(ex.map(lambda pth: vh([verb, module, pth] + list(extra), timeout=timeout), paths))
    return merge_summaries(parts)


# --------------------------------------------------------------------------
# TLC
# --------------------------------------------------------------------------
class TlcRun:
    def __init__(self):
        self.ok = False            # finished, no error
        self.generated = 0
        self.distinct = 0
        self.depth = 0
        self.replay = []           # decoded REPLAY payloads
        self.violated = None       # name of violated invariant/property or error text
        self.coverage = {}         # action -> (distinct, total)
        self.out = ""
        self.wall = 0.0
        self.cmd = ""


_RE_STATS = re.compile(r"(\d+) states generated, (\d+) distinct states found")
_RE_DEPTH = re.compile(r"depth of the complete state graph search is (\d+)")
_RE_COV = re.compile(r"^<(\w+) line \d+, col \d+ to line \d+, col \d+ of module (\w+)(?: \([\d ]+\))?>: (\d+):(\d+)", re.M)
_RE_SIM = re.compile(r"(\d+) states checked")


def _unquote(s):
    # TLA+ string literal -> python string (TLC escapes \" and \\)
    return json.loads('"' + s + '"')


def parse_replay(out, tag="REPLAY"):
    res = []
    pre = '<<"%s", "' % tag
    for line in out.splitlines():
        if line.startswith(pre) and line.endswith('">>'):
            res.append(json.loads(_unquote(line[len(pre):-3])))
    return res


def tlc(module, cfg=None, *, workers=4, xmx="4g", timeout=900, env=None, simulate=None,
        depth=None, deque=False, coverage=True, metadir=None, seed=None, extra=(), keep_out=None):
    """Run TLC on spec/<module>.tla with spec/<cfg>."""
    cfg = cfg or module + ".cfg"
    metadir = metadir or os.path.join(WORK, "tlc", module + "-" + cfg.replace(".cfg", "") + "-%d" % os.getpid())
    os.makedirs(metadir, exist_ok=True)
    jopts = ["-XX:+UseParallelGC", "-Xmx" + xmx, "-Xss1g"]
    if deque:
        jopts.append("-Dtlc2.tool.queue.IStateQueue=StateDeque")
    cmd = ["timeout", str(timeout), "java"] + jopts + ["-cp", TLAJAR, "tlc2.TLC",
           "-workers", str(workers), "-metadir", metadir, "-cleanup", "-noGenerateSpecTE",
           "-config", cfg]
    if coverage and not simulate:
        cmd += ["-coverage", "1"]
    if simulate:
        cmd += ["-simulate", "num=%d" % simulate]
    if depth:
        cmd += ["-depth", str(depth)]
    if seed is not None:
        cmd += ["-seed", str(seed)]
    cmd += list(extra) + [module + ".tla"]
    e = dict(os.environ)
    e.pop("JAVA_TOOL_OPTIONS", None)
    if env:
        e.update({k: str(v) for k, v in env.items()})
    r = TlcRun()
    r.cmd = " ".join(cmd[2:])
    t0 = time.time()
    p = subprocess.run(cmd, cwd=SPEC, env=e, stdout=subprocess.PIPE, stderr=subprocess.STDOUT, text=True)
    r.wall = time.time() - t0
    r.out = p.stdout
    if keep_out:
        with open(keep_out, "w") as f:
            f.write(p.stdout)
    subprocess.run(["rm", "-rf", metadir])
    if p.returncode == 124:
        raise ToolError(f"TLC {module}/{cfg}: timeout after {timeout}s")
    m = None
    for m in _RE_STATS.finditer(r.out):
        pass
    if m:
        r.generated, r.distinct = int(m.group(1)), int(m.group(2))
    elif simulate:
        for m in _RE_SIM.finditer(r.out):
            r.generated = r.distinct = int(m.group(1))
    m = _RE_DEPTH.search(r.out)
    if m:
        r.depth = int(m.group(1))
    for m in _RE_COV.finditer(r.out):
        name = m.group(1)
        d, t = int(m.group(3)), int(m.group(4))
        o = r.coverage.get(name, (0, 0))
        r.coverage[name] = (o[0] + d, o[1] + t)
    r.replay = parse_replay(r.out)
    if "Error:" in r.out or p.returncode not in (0,):
        mm = re.search(r"Error: (Invariant (\S+) is violated|Action property (\S+) is violated|Temporal properties were violated|"
                       r"Deadlock reached|The postcondition.*|Evaluating .*|.*)", r.out)
        r.violated = (mm.group(2) or mm.group(3) or mm.group(1)) if mm else f"exit {p.returncode}"
        r.ok = False
    else:
        r.ok = "Model checking completed. No error has been found." in r.out or bool(simulate) \
            or "Finished in" in r.out
    return r


def tlc_must_hold(run, what):
    """The specification's own laws failing is a defect of the machinery, not of rpki-rs."""
    if not run.ok:
        tail = "\n".join(l for l in run.out.splitlines() if not l.startswith('<<"REPLAY"'))[-3000:]
        log(tail)
        raise ToolError(f"TLC {what}: {run.violated}")


def require_coverage(run, actions, what):
    """Vacuity guard: every named action must have been taken at least once."""
    missing = [a for a in actions if run.coverage.get(a, (0, 0))[1] == 0]
    if missing:
        raise ToolError(f"TLC {what}: vacuous, actions never taken: {missing}")


def apalache(module, inv, *, length=0, init=None, cinit=None, timeout=600, extra=()):
    out = os.path.join(WORK, "apalache", module + "-" + inv + "-%d" % os.getpid())
    os.makedirs(out, exist_ok=True)
    cmd = ["timeout", str(timeout), "apalache-mc", "check", f"--inv={inv}", f"--length={length}",
           f"--out-dir={out}"]
    if init:
        cmd.append(f"--init={init}")
    if cinit:
        cmd.append(f"--cinit={cinit}")
    cmd += list(extra) + [module + ".tla"]
    t0 = time.time()
    p = subprocess.run(cmd, cwd=SPEC, stdout=subprocess.PIPE, stderr=subprocess.STDOUT, text=True)
    subprocess.run(["rm", "-rf", out])
    ok = p.returncode == 0 and "The outcome is: NoError" in p.stdout
    if p.returncode == 124:
        raise ToolError(f"apalache {module}/{inv}: timeout")
    return ok, p.stdout, time.time() - t0


# --------------------------------------------------------------------------
# cases / traces on disk
# --------------------------------------------------------------------------
def write_ndjson(path, items):
    with open(path, "w") as f:
        for it in items:
            f.write(json.dumps(it, separators=(",", ":")))
            f.write("\n")
    return path


def read_ndjson(path):
    with open(path) as f:
        return [json.loads(l) for l in f if l.strip()]


# --------------------------------------------------------------------------
# findings, evidence, exit
# --------------------------------------------------------------------------
def load_findings(prop):
    path = os.path.join(ROOT, "known_findings.json")
    if not os.path.exists(path):
        return []
    with open(path) as f:
        data = json.load(f)
    return [e for e in data.get("findings", []) if e.get("property") == prop and e.get("status") == "known"]


class Check:
    """Accumulates what one run of one property's check did."""

    def __init__(self, prop, tier, seed, level):
        self.prop, self.tier, self.seed, self.level = prop, tier, seed, level
        self.t0 = time.time()
        self.cov = {"states": 0, "transitions": 0, "traces_validated_against_impl": 0,
                    "evaluations": 0, "distinct_nontrivial": 0, "samples": [], "rule": "",
                    "tlc_runs": [], "harness_runs": []}
        self.assumptions = []
        self.violations = []    # dicts: {key, what, case}
        self.notes = []

    # -- accounting
    def add_tlc(self, run, label):
        self.cov["states"] += run.distinct
        self.cov["transitions"] += run.generated
        self.cov["tlc_runs"].append({"label": label, "cmd": run.cmd, "distinct_states": run.distinct,
                                     "states_generated": run.generated, "depth": run.depth,
                                     "wall_s": round(run.wall, 1),
                                     "action_coverage": {k: v[1] for k, v in sorted(run.coverage.items())},
                                     "replay_lines": len(run.replay)})

    def add_harness(self, summary, label, *, traces=0):
        self.cov["evaluations"] += int(summary.get("evaluations", 0))
        self.cov["distinct_nontrivial"] += int(summary.get("distinct_nontrivial", 0))
        self.cov["traces_validated_against_impl"] += traces
        for s in summary.get("samples", [])[:3]:
            if len(self.cov["samples"]) < 12:
                self.cov["samples"].append(s)
        self.cov["harness_runs"].append({"label": label,
                                         **{k: v for k, v in summary.items() if k not in ("violations", "samples")}})
        for v in summary.get("violations", []):
            self.violations.append(v)

    def violation(self, key, what, case=None):
        self.violations.append({"key": key, "what": what, "case": case})

    # -- the end
    def finish(self):
        findings = load_findings(self.prop)
        os.makedirs(REPLAY, exist_ok=True)
        os.makedirs(EVID, exist_ok=True)
        reported, known, seen = [], {}, set()
        beyond = {}
        for v in self.violations:
            key = v.get("key", "")
            if key.startswith("beyond:"):
                # a mismatch with a part of the specification that goes beyond the property's statement (spec growth):
                # recorded and printed, never an alarm for this property (bin/check-extra treats these strictly)
                beyond.setdefault(key, v)
                continue
            hit = None
            for f in findings:
                if re.fullmatch(f["match"], key):
                    hit = f
                    break
            if hit:
                known.setdefault(hit["id"], hit)
                continue
            if key in seen:
                continue
            seen.add(key)
            reported.append(v)
        for f in known.values():
            print(f"KNOWN-FINDING: property={self.prop} {f['what']}", flush=True)
        for k, v in beyond.items():
            log(f"[beyond-property] {k}: {str(v.get('what'))[:300]}")
        self.beyond = beyond
        paths = []
        for v in reported[:20]:
            h = hashlib.sha1(json.dumps(v, sort_keys=True).encode()).hexdigest()[:10]
            path = os.path.join(REPLAY, f"{self.prop}-{h}.json")
            with open(path, "w") as f:
                json.dump({"property": self.prop, **v}, f, indent=1)
            paths.append(path)
            log(f"[violation] {v.get('key')}: {v.get('what')}")
            print(f"VIOLATION property={self.prop} replay={path}", flush=True)
        cov = dict(self.cov)
        if not cov["samples"]:
            cov["samples"] = ["(none recorded)"]
        cov["known_findings_matched"] = sorted(known.keys())
        cov["beyond_property_mismatches"] = [{"key": k, "what": str(v.get("what"))[:500]} for k, v in beyond.items()]
        ev = {"property_id": self.prop, "tier": self.tier, "seed": self.seed, "level": self.level,
              "coverage": cov, "assumptions": self.assumptions, "wall_s": round(time.time() - self.t0, 1),
              "violations": len(reported), "notes": self.notes}
        with open(os.path.join(EVID, f"{self.prop}.json"), "w") as f:
            json.dump(ev, f, indent=1)
        log(f"[{self.prop}] tier={self.tier} states={cov['states']} evals={cov['evaluations']} "
            f"traces={cov['traces_validated_against_impl']} violations={len(reported)} "
            f"known={len(known)} wall={ev['wall_s']}s")
        return 1 if reported else 0


# --------------------------------------------------------------------------
# trace validation (impl -> spec)
# --------------------------------------------------------------------------
_RE_REJ = re.compile(r'<<"TRACE-REJECTED", (\d+)>>')


class TraceResult:
    def __init__(self):
        self.accepted = False
        self.events = 0
        self.rejected_at = None
        self.invariant = None
        self.detail = ""
        self.run = None


def validate_trace(module, trace_path, *, cfg=None, timeout=600, xmx="2g", env=None, deque=True):
    """Run a Trace_* specification over a recorded ndjson trace (env TRACE)."""
    e = {"TRACE": trace_path}
    if env:
        e.update(env)
    run = tlc(module, cfg, workers=1, xmx=xmx, timeout=timeout, env=e, deque=deque, coverage=False)
    tr = TraceResult()
    tr.run = run
    with open(trace_path) as f:
        tr.events = sum(1 for l in f if l.strip())
    m = _RE_REJ.search(run.out)
    if m:
        tr.rejected_at = int(m.group(1))
        tr.detail = json.dumps(trace_line(trace_path, tr.rejected_at))[:1500]
        return tr
    if run.ok:
        tr.accepted = True
        return tr
    mi = re.search(r"Error: Invariant (\S+) is violated", run.out)
    if mi:
        # an invariant of the specification fails on the recorded execution: the trace shows a violation.
        # The last printed state has l = (index of the next event), i.e. the offending event is l - 1.
        ls = re.findall(r"^/?\\?\s*l = (\d+)", run.out, re.M)
        tr.rejected_at = max(1, int(ls[-1]) - 1) if ls else 1
        tr.detail = f"invariant {mi.group(1)} violated after this event: " + json.dumps(trace_line(trace_path, tr.rejected_at))[:1200]
        tr.invariant = mi.group(1)
        return tr
    # an evaluation error inside the trace spec: report it as tool error
    tail = run.out[-3000:]
    log(tail)
    raise ToolError(f"trace validation {module}: {run.violated}")


def trace_line(trace_path, n):
    with open(trace_path) as f:
        for i, l in enumerate(f, 1):
            if i == n:
                return json.loads(l)
    return None


def binding_selfcheck_trace(module, trace_path, mutate, *, cfg=None, env=None):
    """Corrupt one recorded field and show that the trace spec rejects the trace."""
    items = read_ndjson(trace_path)
    idx = mutate(items)
    bad = trace_path + ".corrupt"
    write_ndjson(bad, items)
    tr = validate_trace(module, bad, cfg=cfg, env=env)
    os.remove(bad)
    if tr.accepted:
        raise ToolError(f"binding self-check failed: {module} accepted a corrupted trace (line {idx})")
    return {"corrupted_line": idx, "rejected_at": tr.rejected_at}


# --------------------------------------------------------------------------
# helpers shared by the per-property checks
# --------------------------------------------------------------------------
def cfg_with(wd, base, name, repl):
    """Copy spec/<base> to <wd>/<name> with textual replacements (constants for a tier)."""
    with open(os.path.join(SPEC, base)) as f:
        text = f.read()
    for a, b in repl:
        if a not in text:
            raise ToolError(f"cfg template {base}: '{a}' not found")
        text = text.replace(a, b)
    path = os.path.join(wd, name)
    with open(path, "w") as f:
        f.write(text)
    return path


def trace_rounds(c, trace_module, vh_module, seeds, n, mutate=None, *, xmx="4g", cfg=None, extra_args=(), timeout=1200, env=None):
    """Drive the real code with each seed, validate the recorded trace against trace_module."""
    wd = workdir(c.prop)
    for i, sd in enumerate(seeds):
        tp = os.path.join(wd, f"trace-{vh_module}-{i}.ndjson")
        summ = vh(["drive", vh_module, "--seed", sd, "--n", n, "--out", tp] + list(extra_args), timeout=timeout)
        tr = validate_trace(trace_module, tp, xmx=xmx, cfg=cfg, timeout=timeout, env=env)
        c.add_tlc(tr.run, f"trace validation {trace_module} seed {sd}")
        if tr.accepted:
            c.add_harness(summ, f"driven trace {vh_module} seed {sd}", traces=1)
        else:
            ev = trace_line(tp, tr.rejected_at)
            c.add_harness(summ, f"driven trace {vh_module} seed {sd} (rejected)")
            kind = ev.get("ev") if isinstance(ev, dict) else "?"
            why = (f"invariant {tr.invariant} of {trace_module} is violated at line {tr.rejected_at}" if tr.invariant
                   else f"{trace_module} cannot explain line {tr.rejected_at}")
            c.violation(f"trace:{vh_module}:{tr.invariant or kind}",
                        f"{why} of the recorded trace: {json.dumps(ev)[:600]}",
                        {"trace_seed": sd, "line": tr.rejected_at, "event": ev, "drive": vh_module, "n": n})
        if i == 0 and tr.accepted and mutate and not c.violations:
            c.cov.setdefault("binding_selfcheck_trace", {})[trace_module] = \
                binding_selfcheck_trace(trace_module, tp, mutate, cfg=cfg, env=env)


def selfcheck_replay(c, vh_module, cases, corrupt, label):
    """Corrupt one expectation and require the harness to report it."""
    wd = workdir(c.prop)
    if c.violations:
        # a verdict exists already; a broken implementation may coincide with the corrupted expectation
        c.cov.setdefault("binding_selfcheck_replay", {})[label] = "skipped: violations already found in this run"
        return
    bad = corrupt(cases)
    if bad is None:
        raise ToolError(f"binding self-check ({label}): no case to corrupt")
    sb = vh(["replay", vh_module, write_ndjson(os.path.join(wd, "corrupt.ndjson"), [bad])])
    if not sb["violations"]:
        raise ToolError(f"binding self-check failed ({label}): corrupted expectation not detected")
    c.cov.setdefault("binding_selfcheck_replay", {})[label] = "corrupted expectation detected"


def generic_replay(prop, vh_module):
    def _replay(path):
        with open(path) as f:
            v = json.load(f)
        case = v.get("case") or {}
        inner = case.get("case", case) if isinstance(case, dict) else None
        if isinstance(inner, dict) and ("op" in inner or "w" in inner):
            s = vh(["replay", vh_module, write_ndjson(os.path.join(workdir(prop), "one.ndjson"), [inner])])
            print(json.dumps(s["violations"], indent=1))
            if s["violations"]:
                print(f"VIOLATION property={prop} replay={path}")
                return 1
            return 0
        print(json.dumps(v, indent=1))
        return 0
    return _replay
