//! C07 (session level) — binds spec/RtrClientStream.tla to the real rtr::client::Client.
//!
//! The client talks to a scripted cache: every flush of a query releases the next reply segment of the model's
//! conversation; what arrives while the client waits between two exchanges is put on the wire before the step.
//! Reads hand out at most seven octets at a time, so every PDU arrives in pieces.
use crate::common::*;
use rpki::rtr::client::{Client, PayloadError, PayloadTarget};
use rpki::rtr::payload::{Action, Payload, Timing};
use rpki::rtr::state::{Serial, State};
use serde_json::{json, Value};
use std::collections::VecDeque;
use std::pin::Pin;
use std::sync::{Arc, Mutex};
use std::task::{Context, Poll, Waker};
use tokio::io::{AsyncRead, AsyncWrite, ReadBuf};

// The session id of the scripted cache.  It is a header field like any other: the same two octets carry an error code in an
// Error PDU and flags in a router key or ASPA PDU, so the ids used include small numbers that mean something there.
thread_local! { static SESSION_ID: std::cell::Cell<u16> = const { std::cell::Cell::new(0x1234) }; }
const SESSIONS: [u16; 8] = [0x1234, 4, 0, 2, 8, 0x0100, 0xffff, 10];
#[allow(non_snake_case)]
fn SESSION() -> u16 { SESSION_ID.with(|s| s.get()) }

#[derive(Default)]
struct Wire {
    inbox: VecDeque<u8>,
    replies: VecDeque<(Vec<u8>, bool, Value)>,
    /// octets handed out per read at most
    chunk: usize,
    /// (trace driver) what the cache wrote, logged when it is released
    log: Vec<Value>,
    fallback_desc: Value,
    /// the rest of a PDU of which only the first octets have been delivered: it precedes whatever the cache writes next
    rest: Vec<u8>,
    eof: bool,
    waker: Option<Waker>,
    consumed: usize,
    flushes: usize,
    written: Vec<u8>,
    /// what the cache answers to queries the conversation does not foresee: a client that wrongly carries on after a
    /// deviation is answered properly, so that its mistake shows as a step that succeeds
    fallback: Vec<u8>,
    fallbacks_used: usize,
    /// reads answered with "end of stream" so far; a reader that keeps coming back is told off (and reported) instead of being
    /// allowed to spin for ever
    zero_reads: usize,
    spun: bool,
}
struct Sock(Arc<Mutex<Wire>>);
impl AsyncRead for Sock {
    fn poll_read(self: Pin<&mut Self>, cx: &mut Context<'_>, buf: &mut ReadBuf<'_>) -> Poll<std::io::Result<()>> {
        let mut w = self.0.lock().unwrap();
        if !w.inbox.is_empty() {
            let n = buf.remaining().min(w.inbox.len()).min(if w.chunk == 0 { 7 } else { w.chunk });
            for _ in 0..n {
                let b = w.inbox.pop_front().unwrap();
                buf.put_slice(&[b]);
            }
            w.consumed += n;
            Poll::Ready(Ok(()))
        } else if w.eof {
            w.zero_reads += 1;
            if w.zero_reads > 64 {
                w.spun = true;
                return Poll::Ready(Err(std::io::Error::other("harness: the reader keeps reading after the end of the stream")));
            }
            Poll::Ready(Ok(()))
        } else {
            w.waker = Some(cx.waker().clone());
            Poll::Pending
        }
    }
}
impl AsyncWrite for Sock {
    fn poll_write(self: Pin<&mut Self>, _: &mut Context<'_>, buf: &[u8]) -> Poll<std::io::Result<usize>> {
        self.0.lock().unwrap().written.extend_from_slice(buf);
        Poll::Ready(Ok(buf.len()))
    }
    fn poll_flush(self: Pin<&mut Self>, _: &mut Context<'_>) -> Poll<std::io::Result<()>> {
        let mut w = self.0.lock().unwrap();
        w.flushes += 1;
        let rest = std::mem::take(&mut w.rest);
        w.inbox.extend(rest);
        match w.replies.pop_front() {
            Some((bytes, ends, desc)) => {
                w.inbox.extend(bytes);
                if ends { w.eof = true; }
                w.log.push(desc);
            }
            None => {
                let f = w.fallback.clone();
                w.inbox.extend(f);
                w.fallbacks_used += 1;
                let d = w.fallback_desc.clone();
                w.log.push(d);
                if w.fallbacks_used > 3 { w.eof = true; }
            }
        }
        if let Some(wk) = w.waker.take() { wk.wake(); }
        Poll::Ready(Ok(()))
    }
    fn poll_shutdown(self: Pin<&mut Self>, _: &mut Context<'_>) -> Poll<std::io::Result<()>> {
        Poll::Ready(Ok(()))
    }
}

#[derive(Default)]
struct Target { applied: Vec<(bool, usize)> }
impl PayloadTarget for Target {
    type Update = Upd;
    fn start(&mut self, reset: bool) -> Self::Update { Upd(reset, Vec::new()) }
    fn apply(&mut self, update: Self::Update, _timing: Timing) -> Result<(), PayloadError> {
        self.applied.push((update.0, update.1.len()));
        Ok(())
    }
}
struct Upd(bool, Vec<(Action, Payload)>);
impl rpki::rtr::client::PayloadUpdate for Upd {
    fn push_update(&mut self, action: Action, payload: Payload) -> Result<(), PayloadError> {
        self.1.push((action, payload));
        Ok(())
    }
}

/// The octets of one PDU of the model: header fields as the model says, body of the size that is really on the wire.
fn pdu_bytes(p: &Value, serial: u32) -> Vec<u8> {
    let t = p["t"].as_u64().unwrap() as u8;
    let v = p["v"].as_u64().unwrap() as u8;
    let len = p["len"].as_u64().unwrap() as u32;
    let body = p["body"].as_u64().unwrap() as usize;
    let code = p["code"].as_u64().unwrap() as u16;
    let sess: u16 = match t { 3 | 7 | 0 | 1 => SESSION(), 10 => code, 9 | 11 => 0x0100, _ => 0 };
    let mut out = vec![v, t];
    out.extend_from_slice(&sess.to_be_bytes());
    out.extend_from_slice(&len.to_be_bytes());
    let s = serial.to_be_bytes();
    let canon: Vec<u8> = match p["ot"].as_u64().unwrap() {
        4 => vec![1, 24, 24, 0, 192, 0, 2, 0, 0, 0, 0xfb, 0xf0],
        6 => { let mut b = vec![1, 48, 48, 0, 0x20, 0x01, 0x0d, 0xb8]; b.extend_from_slice(&[0; 12]); b.extend_from_slice(&[0, 0, 0xfb, 0xf0]); b }
        9 => { let mut b: Vec<u8> = (1..=20).collect(); b.extend_from_slice(&[0, 0, 0xfb, 0xf1, 0xde, 0xad, 0xbe, 0xef]); b }
        11 => vec![0, 0, 0xfb, 0xf2, 0, 0, 0xfb, 0xf3, 0, 0, 0xfb, 0xf4],
        7 if body == 4 => s.to_vec(),
        7 => { let mut b = s.to_vec(); b.extend_from_slice(&3600u32.to_be_bytes()); b.extend_from_slice(&600u32.to_be_bytes()); b.extend_from_slice(&7200u32.to_be_bytes()); b }
        0 | 1 => s.to_vec(),
        _ => vec![0; body],
    };
    assert_eq!(canon.len(), body, "harness: body of PDU {p}");
    out.extend_from_slice(&canon);
    out
}

fn segment_bytes(seg: &Value, serial: u32) -> (Vec<u8>, Vec<usize>) {
    let mut out = Vec::new();
    let mut ends = Vec::new();
    for p in seg["pdus"].as_array().unwrap() {
        out.extend(pdu_bytes(p, serial));
        ends.push(out.len());
    }
    (out, ends)
}

struct Outcome { verdicts: Vec<(String, usize)>, state: bool, consumed: usize, limit: Option<usize>, hung: bool, spun: bool, queries: Vec<(u8, u8)> }

fn run_case(c: &Value) -> Outcome {
    let hist: Vec<Value> = c["hist"].as_array().unwrap().clone();
    let sv = c["sv"].as_u64().unwrap() as u32;
    let wire = Arc::new(Mutex::new(Wire::default()));
    // byte accounting: where the deviating PDU (or the early end) lies
    let bad_at = c["bad_at"].as_u64().unwrap() as usize;
    let mut total = 0usize;
    let mut limit = None;
    let mut reply_no = 0u32;
    for (i, seg) in hist.iter().enumerate() {
        let last = i + 1 == hist.len();
        if seg["kind"] == "reply" { reply_no += 1; }
        let (mut bytes, ends) = segment_bytes(seg, 100 + reply_no + sv);
        if last && c["dirty"] == true && bad_at >= 1 {
            limit = Some(total + if bad_at <= ends.len() { ends[bad_at - 1] } else { usize::MAX / 2 });
        }
        let tail = if seg["kind"] == "split" { 0 } else { seg["tail"].as_u64().unwrap() as usize };
        if tail > 0 {
            // the first octets of one more PDU (a Cache Response header is as good as any), then the stream ends
            let more = [sv as u8, 4, 0, 0, 0, 0, 0, 20, 1, 24, 24, 0];
            bytes.extend_from_slice(&more[..tail]);
        }
        total += bytes.len();
        if seg["kind"] == "reply" {
            wire.lock().unwrap().replies.push_back((bytes, seg["ends"] == true, Value::Null));
        }
    }
    if let Some(l) = limit.as_mut() { if *l > total { *l = total; } }
    // the waits, in order of appearance relative to the replies: a "wait" segment precedes the reply of its step
    let mut wait_before_reply: Vec<Option<(Vec<u8>, usize)>> = Vec::new();
    {
        let mut cur: Option<(Vec<u8>, usize)> = None;
        for seg in &hist {
            if seg["kind"] == "wait" {
                cur = Some((segment_bytes(seg, 0).0, 0));
            } else if seg["kind"] == "split" {
                // only the first `tail` octets arrive before the refresh timer fires
                cur = Some((segment_bytes(seg, 0).0, seg["tail"].as_u64().unwrap() as usize));
            } else {
                wait_before_reply.push(cur.take());
            }
        }
        if let Some(w) = cur { wait_before_reply.push(Some(w)); }
    }
    {
        // a conforming reply in the cache's version (the model's Data(sv))
        let v = sv as u64;
        let mut pdus = vec![json!({"t": 3, "ot": 3, "v": v, "len": 8, "body": 0, "code": 0}),
                            json!({"t": 4, "ot": 4, "v": v, "len": 20, "body": 12, "code": 0})];
        pdus.push(if v == 0 { json!({"t": 7, "ot": 7, "v": v, "len": 12, "body": 4, "code": 0}) } else { json!({"t": 7, "ot": 7, "v": v, "len": 24, "body": 16, "code": 0}) });
        let mut w = wire.lock().unwrap();
        w.fallback = segment_bytes(&json!({"pdus": pdus}), 777).0;
        w.fallback_desc = json!({"ev": "reply", "pdus": pdus, "tail": 0, "ends": false});
    }
    let want_steps = c["verdicts"].as_array().unwrap().len();
    let rt = tokio::runtime::Builder::new_current_thread().enable_time().start_paused(true).build().unwrap();
    let state = if c["start_state"] == true { Some(State::from_parts(SESSION(), Serial::from(99))) } else { None };
    let mut verdicts = Vec::new();
    let mut hung = false;
    let mut final_state = false;
    let w2 = wire.clone();
    rt.block_on(async {
        let mut client = Client::new(Sock(w2.clone()), Target::default(), state);
        // which wait belongs to which step: a step consumes replies; count the replies consumed so far
        for step in 0..want_steps {
            if step > 0 {
                // what arrives while the client waits for its refresh timer
                let used = { let w = w2.lock().unwrap(); w.flushes };
                if let Some(Some((bytes, split))) = wait_before_reply.get(used) {
                    let mut w = w2.lock().unwrap();
                    if *split == 0 {
                        w.inbox.extend(bytes.iter().copied());
                    } else {
                        w.inbox.extend(bytes[..*split].iter().copied());
                        w.rest = bytes[*split..].to_vec();
                    }
                    if let Some(wk) = w.waker.take() { wk.wake(); }
                }
            }
            let before = client.target().applied.len();
            match tokio::time::timeout(std::time::Duration::from_secs(10_000_000), client.step()).await {
                Err(_) => { hung = true; verdicts.push(("hang".to_string(), 0)); break; }
                Ok(Ok(())) => {
                    let n = client.target().applied.get(before).map(|a| a.1).unwrap_or(usize::MAX);
                    verdicts.push(("ok".to_string(), n));
                }
                Ok(Err(_)) => { verdicts.push(("err".to_string(), 0)); break; }
            }
        }
        final_state = client.state().is_some();
    });
    let w = wire.lock().unwrap();
    // the queries the client wrote: (version, type) of each
    let mut queries = Vec::new();
    let mut i = 0;
    while i + 8 <= w.written.len() {
        let len = u32::from_be_bytes([w.written[i + 4], w.written[i + 5], w.written[i + 6], w.written[i + 7]]) as usize;
        queries.push((w.written[i], w.written[i + 1]));
        if len < 8 { break; }
        i += len;
    }
    Outcome { verdicts, state: final_state, consumed: w.consumed, limit, hung, spun: w.spun, queries }
}

pub fn replay(args: &[String]) {
    let cases = read_cases(&args[0]);
    let mut s = Summary::new();
    for (i, c) in cases.iter().enumerate() {
        SESSION_ID.with(|s| s.set(SESSIONS[i % SESSIONS.len()]));
        match guarded(|| run_case(c)) {
            Err(m) => s.violation("client:panic", format!("the client panics: {m}"), c.clone()),
            Ok(o) => {
                let want: Vec<(String, usize)> = c["verdicts"].as_array().unwrap().iter().map(|v| (v[0].as_str().unwrap().to_string(), v[1].as_u64().unwrap() as usize)).collect();
                let kinds = |v: &[(String, usize)]| v.iter().map(|x| x.0.clone()).collect::<Vec<_>>();
                if o.spun {
                    s.violation("client:spins", format!("the client keeps reading after the stream has ended (more than 64 reads answered with end of stream): {:?}", o.verdicts), c.clone());
                } else if o.hung {
                    s.violation("client:waits", format!("a step does not end although the stream has ended or the reply is complete: {:?}, specification {:?}", o.verdicts, want), c.clone());
                } else if kinds(&o.verdicts) != kinds(&want) {
                    let accepted = o.verdicts.iter().filter(|v| v.0 == "ok").count() > want.iter().filter(|v| v.0 == "ok").count();
                    s.violation(if accepted { "client:accepts-broken" } else { "client:refuses-conforming" },
                                format!("steps end {:?}, specification {:?}", o.verdicts, want), c.clone());
                } else if o.verdicts != want {
                    s.violation("client:items", format!("items handed to the target per step {:?}, specification {:?}", o.verdicts, want), c.clone());
                } else {
                    if let Some(l) = o.limit {
                        if o.consumed > l {
                            s.violation("client:overconsumes", format!("{} octets consumed, the deviating PDU ends at octet {}", o.consumed, l), c.clone());
                        }
                    }
                    if o.state != (c["final_state"] == true) {
                        s.violation("beyond:client:state", format!("client has a state = {}, specification {}", o.state, c["final_state"]), c.clone());
                    }
                    // every query but possibly the first speaks the settled version
                    let cvf = c["final_cv"].as_u64().unwrap() as u8;
                    if cvf <= 2 && o.queries.len() >= 2 && c["dirty"] == false {
                        if let Some(q) = o.queries.iter().skip(1).find(|q| q.0 != cvf && !(c["hist"][0]["pdus"][0]["t"] == 10)) {
                            s.violation("beyond:client:query-version", format!("a query with version {} after the session settled on {}", q.0, cvf), c.clone());
                        }
                    }
                }
            }
        }
        s.eval_if(c["dirty"] == true, &format!("{}", c["hist"]));
        if i % 1000 == 3 { s.sample(c.clone()); }
    }
    let _ = json!(null);
    s.print();
}

// ---- impl -> spec: random conversations, recorded for Trace_RtrClientStream
fn pdu(t: u64, v: u64, len: u64, code: u64) -> Value {
    json!({"t": t, "v": v, "len": len, "code": code, "ot": t, "body": len - 8})
}
fn true_len(t: u64, v: u64) -> u64 {
    match t { 3 | 8 | 2 => 8, 4 => 20, 6 => 32, 7 => if v == 0 { 12 } else { 24 }, 9 => 36, 11 => 20, 0 | 1 => 12, 10 => 16, _ => 8 }
}
fn data_reply(rng: &mut Rng, sv: u64) -> Vec<Value> {
    let mut kinds = vec![4u64, 6];
    if sv >= 1 { kinds.push(9); }
    if sv >= 2 { kinds.push(11); }
    let mut r = vec![pdu(3, sv, 8, 0)];
    // (now and then a long reply: hundreds of payload PDUs between Cache Response and End of Data)
    let n = if rng.chance(1, 12) { rng.range(64, 300) } else { rng.below(6) };
    for _ in 0..n {
        let t = *rng.pick(&kinds);
        r.push(pdu(t, sv, true_len(t, sv), 0));
    }
    r.push(pdu(7, sv, true_len(7, sv), 0));
    r
}
/// One header field of one PDU gets a value that is wrong whatever the session looks like.
fn deviate(rng: &mut Rng, r: &mut [Value]) {
    let i = rng.below(r.len() as u64) as usize;
    let (t, v, len) = (r[i]["t"].as_u64().unwrap(), r[i]["v"].as_u64().unwrap(), r[i]["len"].as_u64().unwrap());
    // (the length of an Error PDU is not touched: the reader skips whatever it announces, so another value only moves the
    // PDU boundaries, which a conversation written down PDU by PDU cannot express)
    match rng.below(if t == 10 { 2 } else { 3 }) {
        0 => { let mut w = v; while w == v { w = *rng.pick(&[0u64, 1, 2, 3, 4, 77, 255]); } r[i]["v"] = json!(w); }
        1 => {
            let cand: &[u64] = if i == 0 { &[0, 1, 2, 4, 5, 6, 7, 9, 11, 12, 200, 255] } else { &[0, 1, 2, 3, 5, 8, 10, 12, 200, 255] };
            r[i]["t"] = json!(*rng.pick(cand));
            r[i]["code"] = json!(0);
        }
        _ => {
            let cand: Vec<u64> = match t { 9 => vec![31, 8, 0], 11 => vec![len + 1, len + 2, len + 3, 8, 11], _ => vec![len + 1, len - 1, len + 4, 0, 7] };
            let mut w = *rng.pick(&cand);
            if w == len { w = len + 1; }
            r[i]["len"] = json!(w);
        }
    }
}

pub fn drive(args: &[String]) {
    let seed = arg_u64(args, "--seed", 1);
    let n = arg_u64(args, "--n", 200);
    let out = arg_val(args, "--out").expect("--out");
    let mut rng = Rng::new(seed);
    let mut t = TraceOut::create(&out);
    let mut s = Summary::new();
    for conv in 0..n {
        SESSION_ID.with(|s| s.set(*rng.pick(&SESSIONS)));
        let sv = rng.below(3);
        let start_state = rng.chance(1, 3);
        let wire = Arc::new(Mutex::new(Wire::default()));
        wire.lock().unwrap().chunk = rng.range(1, 16) as usize;
        {
            let pdus = vec![pdu(3, sv, 8, 0), pdu(4, sv, 20, 0), pdu(7, sv, true_len(7, sv), 0)];
            let mut w = wire.lock().unwrap();
            w.fallback = segment_bytes(&json!({"pdus": pdus}), 777).0;
            w.fallback_desc = json!({"ev": "reply", "pdus": pdus, "tail": 0, "ends": false});
        }
        // plan the conversation
        let steps = rng.range(1, 5) as usize;
        let mut has_state = start_state;
        let mut settled = false;
        let mut waits: Vec<Option<Value>> = Vec::new();
        let mut deviated = false;
        for st in 0..steps {
            // what arrives while the client waits
            waits.push(if st == 0 { None } else {
                match rng.below(10) {
                    0..=4 => None,
                    5..=8 => Some(pdu(0, sv, 12, 0)),
                    _ => { let mut p = [pdu(0, sv, 12, 0)]; loop { deviate(&mut rng, &mut p); if !(p[0]["t"] == 0 && p[0]["len"] == 12 && p[0]["v"] == sv) { break; } } deviated = true; Some(p[0].clone()) }
                }
            });
            let mut replies: Vec<Vec<Value>> = Vec::new();
            if !settled && sv < 2 && rng.chance(1, 3) { let mut d = pdu(10, sv, 16, 4); d["code"] = json!(4); replies.push(vec![d]); }
            if has_state && rng.chance(1, 5) { replies.push(vec![pdu(8, sv, 8, 0)]); has_state = false; }
            replies.push(data_reply(&mut rng, sv));
            settled = true;
            has_state = true;
            let hit = if !deviated && rng.chance(1, 4) { Some(rng.below(replies.len() as u64) as usize) } else { None };
            for (k, mut r) in replies.into_iter().enumerate() {
                let mut tail = 0usize;
                let mut ends = false;
                let mut bytes;
                if hit == Some(k) {
                    deviated = true;
                    if rng.chance(1, 3) {
                        // the stream ends somewhere inside this reply
                        let (all, pdu_ends) = segment_bytes(&json!({"pdus": r}), 100 + st as u32);
                        let cut = rng.below(all.len() as u64) as usize;
                        let whole = pdu_ends.iter().filter(|e| **e <= cut).count();
                        let start = if whole == 0 { 0 } else { pdu_ends[whole - 1] };
                        tail = cut - start;
                        ends = true;
                        r.truncate(whole);
                        bytes = all[..cut].to_vec();
                        let _ = &mut bytes;
                        wire.lock().unwrap().replies.push_back((bytes, true, json!({"ev": "reply", "pdus": r, "tail": tail, "ends": true})));
                        continue;
                    }
                    deviate(&mut rng, &mut r);
                }
                bytes = segment_bytes(&json!({"pdus": r}), 100 + st as u32).0;
                wire.lock().unwrap().replies.push_back((bytes, ends, json!({"ev": "reply", "pdus": r, "tail": tail, "ends": ends})));
            }
        }
        t.ev(json!({"ev": "start", "sv": sv, "state": start_state}));
        let rt = tokio::runtime::Builder::new_current_thread().enable_time().start_paused(true).build().unwrap();
        let state = if start_state { Some(State::from_parts(SESSION(), Serial::from(99))) } else { None };
        let w2 = wire.clone();
        let res = guarded(|| {
            let mut evs: Vec<Value> = Vec::new();
            rt.block_on(async {
                let mut client = Client::new(Sock(w2.clone()), Target::default(), state);
                for (st, wait) in waits.iter().enumerate() {
                    if st > 0 {
                        if w2.lock().unwrap().eof { break; }
                        match wait {
                            None => evs.push(json!({"ev": "wait", "pdus": []})),
                            Some(p) => {
                                let bytes = pdu_bytes(p, 5);
                                let mut w = w2.lock().unwrap();
                                w.inbox.extend(bytes);
                                if let Some(wk) = w.waker.take() { wk.wake(); }
                                evs.push(json!({"ev": "wait", "pdus": [p]}));
                            }
                        }
                    }
                    let before = client.target().applied.len();
                    let r = tokio::time::timeout(std::time::Duration::from_secs(10_000_000), client.step()).await;
                    evs.append(&mut w2.lock().unwrap().log);
                    match r {
                        Err(_) => { evs.push(json!({"ev": "step", "verdict": "hang", "items": 0})); break; }
                        Ok(Ok(())) => evs.push(json!({"ev": "step", "verdict": "ok", "items": client.target().applied.get(before).map(|a| a.1).unwrap_or(9999)})),
                        Ok(Err(_)) => { evs.push(json!({"ev": "step", "verdict": "err", "items": 0})); break; }
                    }
                }
            });
            evs
        });
        if wire.lock().unwrap().spun {
            s.violation("client:spins", "the client keeps reading after the stream has ended".into(), json!({"seed": seed, "conversation": conv}));
        }
        match res {
            Ok(evs) => { for e in evs { t.ev(e); } s.eval(Some(&format!("{conv}"))); }
            Err(m) => s.violation("trace:panic", format!("the client panics: {m}"), json!({"seed": seed, "conversation": conv})),
        }
    }
    s.set("events", json!(t.finish()));
    s.print();
}
