//! C07 (session level) — binds spec/RtrClientStream.tla to the real rtr::client::Client.
//!
//! The client talks to a scripted cache: every flush of a query releases the next reply segment of the model's
//! conversation; what arrives while the client waits between two exchanges is put on the wire before the step.
//! Reads hand out at most seven octets at a time, so every PDU arrives in pieces.
use crate::common::*;
use rpki::rtr::client::{Client, PayloadError, PayloadTarget};
use rpki::rtr::payload::{Action, Payload, Timing};
use rpki::rtr::state::{Serial, State};
use serde_json::{json, Value};
use std::collections::VecDeque;
use std::pin::Pin;
use std::sync::{Arc, Mutex};
use std::task::{Context, Poll, Waker};
use tokio::io::{AsyncRead, AsyncWrite, ReadBuf};

const SESSION: u16 = 0x1234;

#[derive(Default)]
struct Wire {
    inbox: VecDeque<u8>,
    replies: VecDeque<(Vec<u8>, bool)>,
    eof: bool,
    waker: Option<Waker>,
    consumed: usize,
    flushes: usize,
    written: Vec<u8>,
    /// what the cache answers to queries the conversation does not foresee: a client that wrongly carries on after a
    /// deviation is answered properly, so that its mistake shows as a step that succeeds
    fallback: Vec<u8>,
    fallbacks_used: usize,
}
struct Sock(Arc<Mutex<Wire>>);
impl AsyncRead for Sock {
    fn poll_read(self: Pin<&mut Self>, cx: &mut Context<'_>, buf: &mut ReadBuf<'_>) -> Poll<std::io::Result<()>> {
        let mut w = self.0.lock().unwrap();
        if !w.inbox.is_empty() {
            let n = buf.remaining().min(w.inbox.len()).min(7);
            for _ in 0..n {
                let b = w.inbox.pop_front().unwrap();
                buf.put_slice(&[b]);
            }
            w.consumed += n;
            Poll::Ready(Ok(()))
        } else if w.eof {
            Poll::Ready(Ok(()))
        } else {
            w.waker = Some(cx.waker().clone());
            Poll::Pending
        }
    }
}
impl AsyncWrite for Sock {
    fn poll_write(self: Pin<&mut Self>, _: &mut Context<'_>, buf: &[u8]) -> Poll<std::io::Result<usize>> {
        self.0.lock().unwrap().written.extend_from_slice(buf);
        Poll::Ready(Ok(buf.len()))
    }
    fn poll_flush(self: Pin<&mut Self>, _: &mut Context<'_>) -> Poll<std::io::Result<()>> {
        let mut w = self.0.lock().unwrap();
        w.flushes += 1;
        match w.replies.pop_front() {
            Some((bytes, ends)) => {
                w.inbox.extend(bytes);
                if ends { w.eof = true; }
            }
            None => {
                let f = w.fallback.clone();
                w.inbox.extend(f);
                w.fallbacks_used += 1;
                if w.fallbacks_used > 3 { w.eof = true; }
            }
        }
        if let Some(wk) = w.waker.take() { wk.wake(); }
        Poll::Ready(Ok(()))
    }
    fn poll_shutdown(self: Pin<&mut Self>, _: &mut Context<'_>) -> Poll<std::io::Result<()>> {
        Poll::Ready(Ok(()))
    }
}

#[derive(Default)]
struct Target { applied: Vec<(bool, usize)> }
impl PayloadTarget for Target {
    type Update = Upd;
    fn start(&mut self, reset: bool) -> Self::Update { Upd(reset, Vec::new()) }
    fn apply(&mut self, update: Self::Update, _timing: Timing) -> Result<(), PayloadError> {
        self.applied.push((update.0, update.1.len()));
        Ok(())
    }
}
struct Upd(bool, Vec<(Action, Payload)>);
impl rpki::rtr::client::PayloadUpdate for Upd {
    fn push_update(&mut self, action: Action, payload: Payload) -> Result<(), PayloadError> {
        self.1.push((action, payload));
        Ok(())
    }
}

/// The octets of one PDU of the model: header fields as the model says, body of the size that is really on the wire.
fn pdu_bytes(p: &Value, serial: u32) -> Vec<u8> {
    let t = p["t"].as_u64().unwrap() as u8;
    let v = p["v"].as_u64().unwrap() as u8;
    let len = p["len"].as_u64().unwrap() as u32;
    let body = p["body"].as_u64().unwrap() as usize;
    let code = p["code"].as_u64().unwrap() as u16;
    let sess: u16 = match t { 3 | 7 | 0 | 1 => SESSION, 10 => code, 9 | 11 => 0x0100, _ => 0 };
    let mut out = vec![v, t];
    out.extend_from_slice(&sess.to_be_bytes());
    out.extend_from_slice(&len.to_be_bytes());
    let s = serial.to_be_bytes();
    let canon: Vec<u8> = match p["ot"].as_u64().unwrap() {
        4 => vec![1, 24, 24, 0, 192, 0, 2, 0, 0, 0, 0xfb, 0xf0],
        6 => { let mut b = vec![1, 48, 48, 0, 0x20, 0x01, 0x0d, 0xb8]; b.extend_from_slice(&[0; 12]); b.extend_from_slice(&[0, 0, 0xfb, 0xf0]); b }
        9 => { let mut b: Vec<u8> = (1..=20).collect(); b.extend_from_slice(&[0, 0, 0xfb, 0xf1, 0xde, 0xad, 0xbe, 0xef]); b }
        11 => vec![0, 0, 0xfb, 0xf2, 0, 0, 0xfb, 0xf3, 0, 0, 0xfb, 0xf4],
        7 if body == 4 => s.to_vec(),
        7 => { let mut b = s.to_vec(); b.extend_from_slice(&3600u32.to_be_bytes()); b.extend_from_slice(&600u32.to_be_bytes()); b.extend_from_slice(&7200u32.to_be_bytes()); b }
        0 | 1 => s.to_vec(),
        _ => vec![0; body],
    };
    assert_eq!(canon.len(), body, "harness: body of PDU {p}");
    out.extend_from_slice(&canon);
    out
}

fn segment_bytes(seg: &Value, serial: u32) -> (Vec<u8>, Vec<usize>) {
    let mut out = Vec::new();
    let mut ends = Vec::new();
    for p in seg["pdus"].as_array().unwrap() {
        out.extend(pdu_bytes(p, serial));
        ends.push(out.len());
    }
    (out, ends)
}

struct Outcome { verdicts: Vec<(String, usize)>, state: bool, consumed: usize, limit: Option<usize>, hung: bool, queries: Vec<(u8, u8)> }

fn run_case(c: &Value) -> Outcome {
    let hist: Vec<Value> = c["hist"].as_array().unwrap().clone();
    let sv = c["sv"].as_u64().unwrap() as u32;
    let wire = Arc::new(Mutex::new(Wire::default()));
    // byte accounting: where the deviating PDU (or the early end) lies
    let bad_at = c["bad_at"].as_u64().unwrap() as usize;
    let mut total = 0usize;
    let mut limit = None;
    let mut reply_no = 0u32;
    for (i, seg) in hist.iter().enumerate() {
        let last = i + 1 == hist.len();
        if seg["kind"] == "reply" { reply_no += 1; }
        let (mut bytes, ends) = segment_bytes(seg, 100 + reply_no + sv);
        if last && c["dirty"] == true && bad_at >= 1 {
            limit = Some(total + if bad_at <= ends.len() { ends[bad_at - 1] } else { usize::MAX / 2 });
        }
        let tail = seg["tail"].as_u64().unwrap() as usize;
        if tail > 0 {
            // the first octets of one more PDU (a Cache Response header is as good as any), then the stream ends
            let more = [sv as u8, 4, 0, 0, 0, 0, 0, 20, 1, 24, 24, 0];
            bytes.extend_from_slice(&more[..tail]);
        }
        total += bytes.len();
        if seg["kind"] != "wait" {
            wire.lock().unwrap().replies.push_back((bytes, seg["ends"] == true));
        }
    }
    if let Some(l) = limit.as_mut() { if *l > total { *l = total; } }
    // the waits, in order of appearance relative to the replies: a "wait" segment precedes the reply of its step
    let mut wait_before_reply: Vec<Option<Vec<u8>>> = Vec::new();
    {
        let mut cur: Option<Vec<u8>> = None;
        for seg in &hist {
            if seg["kind"] == "wait" {
                cur = Some(segment_bytes(seg, 0).0);
            } else {
                wait_before_reply.push(cur.take());
            }
        }
        if let Some(w) = cur { wait_before_reply.push(Some(w)); }
    }
    {
        // a conforming reply in the cache's version (the model's Data(sv))
        let v = sv as u64;
        let mut pdus = vec![json!({"t": 3, "ot": 3, "v": v, "len": 8, "body": 0, "code": 0}),
                            json!({"t": 4, "ot": 4, "v": v, "len": 20, "body": 12, "code": 0})];
        pdus.push(if v == 0 { json!({"t": 7, "ot": 7, "v": v, "len": 12, "body": 4, "code": 0}) } else { json!({"t": 7, "ot": 7, "v": v, "len": 24, "body": 16, "code": 0}) });
        wire.lock().unwrap().fallback = segment_bytes(&json!({"pdus": pdus}), 777).0;
    }
    let want_steps = c["verdicts"].as_array().unwrap().len();
    let rt = tokio::runtime::Builder::new_current_thread().enable_time().start_paused(true).build().unwrap();
    let state = if c["start_state"] == true { Some(State::from_parts(SESSION, Serial::from(99))) } else { None };
    let mut verdicts = Vec::new();
    let mut hung = false;
    let mut final_state = false;
    let w2 = wire.clone();
    rt.block_on(async {
        let mut client = Client::new(Sock(w2.clone()), Target::default(), state);
        // which wait belongs to which step: a step consumes replies; count the replies consumed so far
        for step in 0..want_steps {
            if step > 0 {
                // what arrives while the client waits for its refresh timer
                let used = { let w = w2.lock().unwrap(); w.flushes };
                if let Some(Some(bytes)) = wait_before_reply.get(used) {
                    let mut w = w2.lock().unwrap();
                    w.inbox.extend(bytes.iter().copied());
                    if let Some(wk) = w.waker.take() { wk.wake(); }
                }
            }
            let before = client.target().applied.len();
            match tokio::time::timeout(std::time::Duration::from_secs(10_000_000), client.step()).await {
                Err(_) => { hung = true; verdicts.push(("hang".to_string(), 0)); break; }
                Ok(Ok(())) => {
                    let n = client.target().applied.get(before).map(|a| a.1).unwrap_or(usize::MAX);
                    verdicts.push(("ok".to_string(), n));
                }
                Ok(Err(_)) => { verdicts.push(("err".to_string(), 0)); break; }
            }
        }
        final_state = client.state().is_some();
    });
    let w = wire.lock().unwrap();
    // the queries the client wrote: (version, type) of each
    let mut queries = Vec::new();
    let mut i = 0;
    while i + 8 <= w.written.len() {
        let len = u32::from_be_bytes([w.written[i + 4], w.written[i + 5], w.written[i + 6], w.written[i + 7]]) as usize;
        queries.push((w.written[i], w.written[i + 1]));
        if len < 8 { break; }
        i += len;
    }
    Outcome { verdicts, state: final_state, consumed: w.consumed, limit, hung, queries }
}

pub fn replay(args: &[String]) {
    let cases = read_cases(&args[0]);
    let mut s = Summary::new();
    for (i, c) in cases.iter().enumerate() {
        match guarded(|| run_case(c)) {
            Err(m) => s.violation("client:panic", format!("the client panics: {m}"), c.clone()),
            Ok(o) => {
                let want: Vec<(String, usize)> = c["verdicts"].as_array().unwrap().iter().map(|v| (v[0].as_str().unwrap().to_string(), v[1].as_u64().unwrap() as usize)).collect();
                let kinds = |v: &[(String, usize)]| v.iter().map(|x| x.0.clone()).collect::<Vec<_>>();
                if o.hung {
                    s.violation("client:waits", format!("a step does not end although the stream has ended or the reply is complete: {:?}, specification {:?}", o.verdicts, want), c.clone());
                } else if kinds(&o.verdicts) != kinds(&want) {
                    let accepted = o.verdicts.iter().filter(|v| v.0 == "ok").count() > want.iter().filter(|v| v.0 == "ok").count();
                    s.violation(if accepted { "client:accepts-broken" } else { "client:refuses-conforming" },
                                format!("steps end {:?}, specification {:?}", o.verdicts, want), c.clone());
                } else if o.verdicts != want {
                    s.violation("client:items", format!("items handed to the target per step {:?}, specification {:?}", o.verdicts, want), c.clone());
                } else {
                    if let Some(l) = o.limit {
                        if o.consumed > l {
                            s.violation("client:overconsumes", format!("{} octets consumed, the deviating PDU ends at octet {}", o.consumed, l), c.clone());
                        }
                    }
                    if o.state != (c["final_state"] == true) {
                        s.violation("beyond:client:state", format!("client has a state = {}, specification {}", o.state, c["final_state"]), c.clone());
                    }
                    // every query but possibly the first speaks the settled version
                    let cvf = c["final_cv"].as_u64().unwrap() as u8;
                    if cvf <= 2 && o.queries.len() >= 2 && c["dirty"] == false {
                        if let Some(q) = o.queries.iter().skip(1).find(|q| q.0 != cvf && !(c["hist"][0]["pdus"][0]["t"] == 10)) {
                            s.violation("beyond:client:query-version", format!("a query with version {} after the session settled on {}", q.0, cvf), c.clone());
                        }
                    }
                }
            }
        }
        s.eval_if(c["dirty"] == true, &format!("{}", c["hist"]));
        if i % 1000 == 3 { s.sample(c.clone()); }
    }
    let _ = json!(null);
    s.print();
}
