//! A generic BER/DER TLV tree with per-node encoding overrides, used to derive structure-preserving
//! mutations of valid objects (C04).  Independent of bcder.
#[derive(Clone, Debug, PartialEq)]
pub enum LenForm {
    /// minimal definite length
    Der,
    /// definite long form with `n` superfluous leading zero octets (or long form for a short value)
    NonMinimal(usize),
    /// indefinite length (0x80 ... 00 00); meaningful on constructed values
    Indefinite,
    /// claimed length = real length + delta
    Delta(i64),
    /// 0x84 ff ff ff ff
    Huge,
    /// 0x88 + eight octets
    Huge8,
    /// claims zero but keeps the content
    Zero,
}

#[derive(Clone, Debug)]
pub enum Body {
    Prim(Vec<u8>),
    Cons(Vec<Tlv>),
    /// primitive value whose content is `prefix` followed by nested TLVs (OCTET STRING / BIT STRING wrappers)
    Encap(Vec<u8>, Vec<Tlv>),
}

#[derive(Clone, Debug)]
pub struct Tlv {
    pub id: Vec<u8>,
    pub body: Body,
    pub len: LenForm,
}

fn parse_one(b: &[u8], depth: usize) -> Option<(Tlv, usize)> {
    if b.len() < 2 || depth > 40 {
        return None;
    }
    let mut p = 1;
    if b[0] & 0x1f == 0x1f {
        while p < b.len() && b[p] & 0x80 != 0 {
            p += 1;
        }
        p += 1;
    }
    if p >= b.len() {
        return None;
    }
    let id = b[..p].to_vec();
    let l0 = b[p];
    p += 1;
    let len = if l0 < 0x80 {
        l0 as usize
    } else {
        let n = (l0 & 0x7f) as usize;
        if n == 0 || n > 4 || p + n > b.len() {
            return None;
        }
        let mut l = 0usize;
        for i in 0..n {
            l = (l << 8) | b[p + i] as usize;
        }
        p += n;
        l
    };
    if p + len > b.len() {
        return None;
    }
    let content = &b[p..p + len];
    let constructed = id[0] & 0x20 != 0;
    let body = if constructed {
        Body::Cons(parse_all(content, depth + 1)?)
    } else {
        let universal = id[0] & 0xc0 == 0;
        let inner = match (universal, id[0] & 0x1f) {
            (true, 4) if len >= 2 => parse_all(content, depth + 1).filter(|v| plausible(v)).map(|v| (vec![], v)),
            (true, 3) if len >= 3 && content[0] == 0 => parse_all(&content[1..], depth + 1).filter(|v| plausible(v)).map(|v| (vec![0u8], v)),
            _ => None,
        };
        match inner {
            Some((pre, v)) => Body::Encap(pre, v),
            None => Body::Prim(content.to_vec()),
        }
    };
    Some((Tlv { id, body, len: LenForm::Der }, p + len))
}

/// nested content of a string is taken to be DER only if it is one universal SEQUENCE / string / integer value
fn plausible(v: &[Tlv]) -> bool {
    v.len() == 1 && matches!(v[0].id[0], 0x30 | 0x04 | 0x03 | 0x02 | 0x31)
}

pub fn parse_all(mut b: &[u8], depth: usize) -> Option<Vec<Tlv>> {
    let mut out = vec![];
    while !b.is_empty() {
        let (t, n) = parse_one(b, depth)?;
        out.push(t);
        b = &b[n..];
    }
    Some(out)
}

pub fn parse(b: &[u8]) -> Option<Tlv> {
    let (t, n) = parse_one(b, 0)?;
    if n == b.len() { Some(t) } else { None }
}

fn enc_len(n: usize, form: &LenForm, out: &mut Vec<u8>) {
    let minimal = |n: usize, out: &mut Vec<u8>, extra: usize| {
        if n < 0x80 && extra == 0 {
            out.push(n as u8);
        } else {
            let mut bytes = vec![];
            let mut m = n;
            while m > 0 {
                bytes.insert(0, (m & 0xff) as u8);
                m >>= 8;
            }
            if bytes.is_empty() {
                bytes.push(0);
            }
            for _ in 0..extra {
                bytes.insert(0, 0);
            }
            out.push(0x80 | bytes.len() as u8);
            out.extend_from_slice(&bytes);
        }
    };
    match form {
        LenForm::Der => minimal(n, out, 0),
        LenForm::NonMinimal(k) => {
            if n < 0x80 && *k == 0 {
                out.push(0x81);
                out.push(n as u8);
            } else {
                minimal(n, out, (*k).max(1))
            }
        }
        LenForm::Indefinite => out.push(0x80),
        LenForm::Delta(d) => minimal((n as i64 + d).max(0) as usize, out, 0),
        LenForm::Huge => out.extend_from_slice(&[0x84, 0xff, 0xff, 0xff, 0xff]),
        LenForm::Huge8 => out.extend_from_slice(&[0x88, 0x7f, 0xff, 0xff, 0xff, 0xff, 0xff, 0xff, 0xff]),
        LenForm::Zero => out.push(0),
    }
}

impl Tlv {
    pub fn content(&self) -> Vec<u8> {
        match &self.body {
            Body::Prim(v) => v.clone(),
            Body::Cons(c) => c.iter().flat_map(|t| t.encode()).collect(),
            Body::Encap(pre, c) => {
                let mut v = pre.clone();
                v.extend(c.iter().flat_map(|t| t.encode()));
                v
            }
        }
    }
    pub fn encode(&self) -> Vec<u8> {
        let c = self.content();
        let mut out = self.id.clone();
        enc_len(c.len(), &self.len, &mut out);
        out.extend_from_slice(&c);
        if self.len == LenForm::Indefinite {
            out.extend_from_slice(&[0, 0]);
        }
        out
    }
    pub fn count(&self) -> usize {
        1 + match &self.body {
            Body::Prim(_) => 0,
            Body::Cons(c) | Body::Encap(_, c) => c.iter().map(|t| t.count()).sum(),
        }
    }
    /// the `n`-th node in preorder
    pub fn node_mut(&mut self, n: usize) -> Option<&mut Tlv> {
        fn go<'a>(t: &'a mut Tlv, n: &mut usize) -> Option<&'a mut Tlv> {
            if *n == 0 {
                return Some(t);
            }
            *n -= 1;
            match &mut t.body {
                Body::Prim(_) => None,
                Body::Cons(c) | Body::Encap(_, c) => {
                    for x in c.iter_mut() {
                        if let Some(r) = go(x, n) {
                            return Some(r);
                        }
                    }
                    None
                }
            }
        }
        let mut k = n;
        go(self, &mut k)
    }
    /// (parent preorder index, child position) of the `n`-th node
    pub fn parent_of(&self, n: usize) -> Option<(usize, usize)> {
        fn go(t: &Tlv, me: usize, next: &mut usize, target: usize) -> Option<(usize, usize)> {
            if let Body::Cons(c) | Body::Encap(_, c) = &t.body {
                for (i, x) in c.iter().enumerate() {
                    let idx = *next;
                    *next += 1;
                    if idx == target {
                        return Some((me, i));
                    }
                    if let Some(r) = go(x, idx, next, target) {
                        return Some(r);
                    }
                }
            }
            None
        }
        let mut next = 1;
        go(self, 0, &mut next, n)
    }
    pub fn children_mut(&mut self) -> Option<&mut Vec<Tlv>> {
        match &mut self.body {
            Body::Prim(_) => None,
            Body::Cons(c) | Body::Encap(_, c) => Some(c),
        }
    }
    pub fn is_constructed(&self) -> bool {
        self.id[0] & 0x20 != 0
    }
    /// universal tag number, if universal
    pub fn utag(&self) -> Option<u8> {
        if self.id[0] & 0xc0 == 0 { Some(self.id[0] & 0x1f) } else { None }
    }
}

/// One mutation of the tree at node `n`; `v` selects a variant. Returns false when not applicable.
pub fn mutate(root: &mut Tlv, kind: &str, n: usize, v: usize) -> bool {
    let parent = root.parent_of(n);
    let total = root.count();
    // node-level structural mutations need the parent
    match kind {
        "delete" | "duplicate" | "swap-next" | "move-first" | "splice-other" => {
            let other = if kind == "splice-other" { root.clone().node_mut((n * 7 + 3 + v * 11) % total).cloned() } else { None };
            let (pi, ci) = match parent { Some(x) => x, None => return false };
            let p = root.node_mut(pi).unwrap();
            let c = p.children_mut().unwrap();
            match kind {
                "delete" => { c.remove(ci); }
                "duplicate" => { let x = c[ci].clone(); for _ in 0..=[0usize, 1, 40][v % 3] { c.insert(ci, x.clone()); } }
                "swap-next" => { if ci + 1 < c.len() { c.swap(ci, ci + 1) } else if ci > 0 { c.swap(ci, ci - 1) } else { return false } }
                "move-first" => { if ci == 0 { return false } let x = c.remove(ci); c.insert(0, x); }
                _ => { c[ci] = other.unwrap(); }
            }
            return true;
        }
        _ => {}
    }
    let t = match root.node_mut(n) { Some(t) => t, None => return false };
    match kind {
        "tag-class" => { t.id[0] ^= [0x40u8, 0x80, 0xc0][v % 3]; }
        "tag-number" => { t.id[0] = (t.id[0] & 0xe0) | ([1u8, 2, 3, 4, 5, 6, 12, 16, 17, 22, 23, 24, 30][(v + t.id[0] as usize) % 13]); }
        "tag-constructed" => { t.id[0] ^= 0x20; }
        "tag-high" => { t.id = vec![t.id[0] | 0x1f, [0x1f, 0x81, 0xff][v % 3], 0x7f][..if v % 3 == 0 { 2 } else { 3 }].to_vec(); }
        "len-nonminimal" => { t.len = LenForm::NonMinimal(v % 3); }
        "len-indefinite" => { t.len = LenForm::Indefinite; }
        "len-plus" => { t.len = LenForm::Delta([1, 2, 127, 70000][v % 4]); }
        "len-minus" => { t.len = LenForm::Delta(-[1, 2, 17][v % 3]); }
        "len-huge" => { t.len = if v % 2 == 0 { LenForm::Huge } else { LenForm::Huge8 }; }
        "len-zero" => { t.len = LenForm::Zero; }
        "empty" => { t.body = if t.is_constructed() { Body::Cons(vec![]) } else { Body::Prim(vec![]) }; }
        "value-zero" | "value-ff" | "value-flip" | "value-trunc" | "value-extend" | "value-highbit" | "value-leadzero" => {
            let mut c = t.content();
            if t.is_constructed() && !matches!(kind, "value-trunc" | "value-extend") {
                return false;
            }
            match kind {
                "value-zero" => c.iter_mut().for_each(|b| *b = 0),
                "value-ff" => c.iter_mut().for_each(|b| *b = 0xff),
                "value-flip" => { if c.is_empty() { return false } let i = (v * 5) % c.len(); c[i] ^= [0x01u8, 0x80, 0x55][v % 3]; }
                "value-trunc" => { if c.is_empty() { return false } let k = [1usize, 2, c.len() / 2 + 1][v % 3].min(c.len()); c.truncate(c.len() - k); }
                "value-extend" => { c.extend(std::iter::repeat([0u8, 0xff, 0x30][v % 3]).take([1usize, 3, 300][v % 3])); }
                "value-highbit" => { if c.is_empty() { return false } c[0] |= 0x80; }
                _ => { c.insert(0, 0); if v % 2 == 1 { c.insert(0, 0); } }
            }
            // keep the tag's constructed bit: content is now opaque
            t.body = Body::Prim(c);
        }
        "int-huge" => { if t.utag() != Some(2) { return false } t.body = Body::Prim(vec![[0x01u8, 0x7f, 0xff][v % 3]; [21usize, 33, 5000][v % 3]]); }
        // the largest values that still fit the field: 20 octets (serial numbers), 8 and 4 octets (counters, AS numbers)
        "int-max" => { if t.utag() != Some(2) { return false } let mut c = vec![0xffu8; [20usize, 8, 5][v % 3]]; c[0] = if v % 3 == 2 { 0 } else { 0x7f }; t.body = Body::Prim(c); }
        "segment-string" => {
            // turn a primitive OCTET/BIT STRING into BER constructed (segmented) form, total size off by v-1
            // universal OCTET/BIT STRING, or an implicitly tagged primitive string (e.g. the [0] sid of a SignerInfo)
            let tag = match t.utag() { Some(x @ (3 | 4)) => x, None if !t.is_constructed() && t.id[0] & 0xc0 == 0x80 => 4, _ => return false };
            let mut c = t.content();
            match v % 4 { 0 => {} 1 => c.push(0x42), 2 => { c.pop(); } _ => c.extend_from_slice(&[0x42; 300]) }
            let (pre, c) = if tag == 3 && !c.is_empty() { (vec![c[0]], c[1..].to_vec()) } else { (vec![], c) };
            let mid = c.len() / 2;
            let seg = |x: &[u8], first: bool| {
                let mut body = if tag == 3 { if first { vec![0u8] } else { pre.clone() } } else { vec![] };
                body.extend_from_slice(x);
                Tlv { id: vec![tag], body: Body::Prim(body), len: LenForm::Der }
            };
            t.id[0] |= 0x20;
            t.body = Body::Cons(vec![seg(&c[..mid], true), seg(&c[mid..], false)]);
        }
        "bits-unused" => {
            // v = 0: a well-formed bit string that is not a whole number of octets (unused bits 1..7, those bits cleared);
            // v = 1: unused bits declared but the bits are set (not DER); v = 2: impossible counts
            if t.utag() != Some(3) { return false }
            let mut c = t.content();
            if c.len() < 2 { return false }
            match v % 3 {
                0 => { let k = 1 + (c.len() % 7) as u8; c[0] = k; let l = c.len() - 1; c[l] &= 0xffu8 << k; }
                1 => { c[0] = 7; let l = c.len() - 1; c[l] |= 1; }
                _ => { c[0] = if c.len() % 2 == 0 { 8 } else { 0xff }; }
            }
            t.body = Body::Prim(c);
        }
        // a bit string grown to 17 / 20 / 32 octets of bits (more than the 128 an address can have; fine for keys and signatures)
        "bits-long" => {
            if t.utag() != Some(3) { return false }
            let c = t.content();
            if c.is_empty() || c.len() > 17 { return false }
            let mut n = vec![c[0] & 7];
            n.extend_from_slice(&c[1..]);
            n.resize(1 + [17usize, 20, 32][v % 3], 0x80);
            let l = n.len() - 1;
            n[l] &= 0xffu8 << (n[0] & 7);
            t.body = Body::Prim(n);
        }
        "bool-odd" => { if t.utag() != Some(1) { return false } t.body = Body::Prim(vec![[0x01u8, 0x00, 0x7f][v % 3]]); }
        "oid-cont" => { if t.utag() != Some(6) { return false } let mut c = t.content(); match v % 3 { 0 => { if let Some(l) = c.last_mut() { *l |= 0x80 } } 1 => c.insert(0, 0x80), _ => c = vec![0xff; 12] } t.body = Body::Prim(c); }
        "time-chars" => {
            if !matches!(t.utag(), Some(23 | 24)) { return false }
            let mut c = t.content();
            match v % 4 { 0 => { if let Some(l) = c.last_mut() { *l = b'+' } } 1 => { if c.len() > 3 { c[2] = b'9'; c[3] = b'9' } } 2 => { c.truncate(c.len().saturating_sub(2)) } _ => { if !c.is_empty() { c[0] = b'-' } } }
            t.body = Body::Prim(c);
        }
        "string-bytes" => {
            if !matches!(t.utag(), Some(12 | 19 | 22)) { return false }
            let mut c = t.content();
            match v % 3 { 0 => c.push(0xff), 1 => c = b"../../x\0y".to_vec(), _ => c = vec![b'/'; 300] }
            t.body = Body::Prim(c);
        }
        "nest-deep" => {
            // wrap the node into many levels of SEQUENCE
            let mut x = t.clone();
            for _ in 0..[8usize, 200, 5000][v % 3] {
                x = Tlv { id: vec![0x30], body: Body::Cons(vec![x]), len: LenForm::Der };
            }
            *t = x;
        }
        _ => return false,
    }
    true
}

/// kinds that only make sense on nodes of particular types
pub const TYPED_KINDS: &[&str] = &["int-huge", "int-max", "bits-long", "segment-string", "bits-unused", "bool-odd", "oid-cont", "time-chars", "string-bytes"];

/// preorder indices of the nodes a typed kind applies to
pub fn eligible(root: &Tlv, kind: &str) -> Vec<usize> {
    let total = root.count();
    let mut r = root.clone();
    (0..total).filter(|n| {
        let t = r.node_mut(*n).unwrap();
        match kind {
            "int-huge" | "int-max" => t.utag() == Some(2),
            "segment-string" => matches!(t.utag(), Some(3 | 4)) || (!t.is_constructed() && t.id[0] & 0xc0 == 0x80),
            "bits-unused" => t.utag() == Some(3),
            "bits-long" => t.utag() == Some(3) && matches!(&t.body, Body::Prim(c) if !c.is_empty() && c.len() <= 17),
            "bool-odd" => t.utag() == Some(1),
            "oid-cont" => t.utag() == Some(6),
            "time-chars" => matches!(t.utag(), Some(23 | 24)),
            "string-bytes" => matches!(t.utag(), Some(12 | 19 | 22)),
            _ => true,
        }
    }).collect()
}

/// Representative nodes for the kinds that apply anywhere: for every distinct (identifier octet, nesting depth) the first and the
/// last node carrying it (the same tag plays different roles at different depths: a key's bit string, an address prefix ...). Whatever the tree, every *kind of field* (integer, OID, time, bit string, each context
/// tag ...) is hit at least once.
pub fn representatives(root: &Tlv) -> Vec<usize> {
    // preorder walk with depth
    fn walk(t: &Tlv, depth: usize, next: &mut usize, out: &mut Vec<(Vec<u8>, usize, usize)>) {
        out.push((t.id.clone(), depth, *next));
        *next += 1;
        if let Body::Cons(c) | Body::Encap(_, c) = &t.body {
            for x in c { walk(x, depth + 1, next, out); }
        }
    }
    let mut nodes = vec![];
    let mut next = 0;
    walk(root, 0, &mut next, &mut nodes);
    let mut first: Vec<((Vec<u8>, usize), usize)> = vec![];
    let mut last: Vec<((Vec<u8>, usize), usize)> = vec![];
    for (id, depth, n) in nodes {
        let key = (id, depth);
        if !first.iter().any(|(k, _)| *k == key) { first.push((key.clone(), n)); }
        match last.iter_mut().find(|(k, _)| *k == key) { Some(e) => e.1 = n, None => last.push((key, n)) }
    }
    let mut out: Vec<usize> = first.iter().map(|x| x.1).chain(last.iter().map(|x| x.1)).collect();
    out.push(0);
    out.sort();
    out.dedup();
    out
}

pub const KINDS: &[&str] = &[
    "delete", "duplicate", "swap-next", "move-first", "splice-other", "tag-class", "tag-number", "tag-constructed", "tag-high",
    "len-nonminimal", "len-indefinite", "len-plus", "len-minus", "len-huge", "len-zero", "empty", "value-zero", "value-ff", "value-flip",
    "value-trunc", "value-extend", "value-highbit", "value-leadzero", "int-huge", "int-max", "segment-string", "bits-unused", "bits-long", "bool-odd", "oid-cont",
    "time-chars", "string-bytes", "nest-deep",
];
