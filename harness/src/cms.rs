//! Independent RFC 5652 / 6488 SignedData assembler (not derived from the library's encoder).
use crate::der;

pub const OID_SIGNED_DATA: &[u64] = &[1, 2, 840, 113549, 1, 7, 2];
pub const OID_SHA256: &[u64] = &[2, 16, 840, 1, 101, 3, 4, 2, 1];
pub const OID_RSA: &[u64] = &[1, 2, 840, 113549, 1, 1, 1];
pub const OID_AT_CONTENT_TYPE: &[u64] = &[1, 2, 840, 113549, 1, 9, 3];
pub const OID_AT_MESSAGE_DIGEST: &[u64] = &[1, 2, 840, 113549, 1, 9, 4];
pub const OID_AT_SIGNING_TIME: &[u64] = &[1, 2, 840, 113549, 1, 9, 5];
pub const OID_AT_BINARY_SIGNING_TIME: &[u64] = &[1, 2, 840, 113549, 1, 9, 16, 2, 46];
pub const OID_CT_ROA: &[u64] = &[1, 2, 840, 113549, 1, 9, 16, 1, 24];
pub const OID_CT_MFT: &[u64] = &[1, 2, 840, 113549, 1, 9, 16, 1, 26];
pub const OID_CT_ASPA: &[u64] = &[1, 2, 840, 113549, 1, 9, 16, 1, 49];
pub const OID_CT_GBR: &[u64] = &[1, 2, 840, 113549, 1, 9, 16, 1, 35];
pub const OID_CT_PROTOCOL: &[u64] = &[1, 2, 840, 113549, 1, 9, 16, 1, 28];

pub fn sha256(data: &[u8]) -> Vec<u8> {
    aws_lc_rs::digest::digest(&aws_lc_rs::digest::SHA256, data).as_ref().to_vec()
}

/// One signed attribute: SEQUENCE { type, SET { value } }
pub fn attribute(oid: &[u64], value: Vec<u8>) -> Vec<u8> {
    der::seq(&[der::oid(oid), der::set(&[value])])
}

pub struct SignedDataParts {
    /// DER of eContentType OID
    pub content_type: Vec<u8>,
    pub content: Vec<u8>,
    /// the signed attributes, each a complete Attribute TLV, in transmission order
    pub attrs: Vec<Vec<u8>>,
    /// DER certificates and CRLs to embed
    pub certs: Vec<Vec<u8>>,
    pub crls: Vec<Vec<u8>>,
    pub sid: Vec<u8>,
    pub signature: Vec<u8>,
    /// how the two SHA-256 algorithm identifiers are written: parameters absent or NULL (RFC 5754 section 2: both forms must be
    /// accepted), in the digestAlgorithms set and in the SignerInfo - "aa", "nn", "na", "an"
    pub algform: String,
}

/// The bytes a signature over the signed attributes covers: the DER SET OF encoding (tag 0x31).
pub fn attrs_to_sign(attrs: &[Vec<u8>]) -> Vec<u8> {
    der::set(attrs)
}

pub fn signed_data(p: &SignedDataParts) -> Vec<u8> {
    let alg = |null: bool| if null { der::seq(&[der::oid(OID_SHA256), der::null()]) } else { der::seq(&[der::oid(OID_SHA256)]) };
    let f = p.algform.as_bytes();
    let alg_sha256 = alg(f.first() == Some(&b'n'));
    let signer_info = der::seq(&[
        der::uint(3),
        der::ctx(0, false, &p.sid),
        alg(f.get(1) == Some(&b'n')),
        der::ctx(0, true, &p.attrs.concat()),
        der::seq(&[der::oid(OID_RSA), der::null()]),
        der::octets(&p.signature),
    ]);
    let mut sd = vec![
        der::uint(3),
        der::set(&[alg_sha256]),
        der::seq(&[p.content_type.clone(), der::ctx(0, true, &der::octets(&p.content))]),
        der::ctx(0, true, &p.certs.concat()),
    ];
    if !p.crls.is_empty() {
        sd.push(der::ctx(1, true, &p.crls.concat()));
    }
    sd.push(der::set(&[signer_info]));
    der::seq(&[der::oid(OID_SIGNED_DATA), der::ctx(0, true, &der::seq(&sd))])
}
