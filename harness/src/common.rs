//! Shared plumbing: case files, summaries, panic capture.
use serde_json::{json, Map, Value};
use std::collections::{BTreeMap, HashSet};
use std::io::{BufRead, BufReader, Write};
use std::panic::{self, AssertUnwindSafe};

pub fn read_cases(path: &str) -> Vec<Value> {
    let f = std::fs::File::open(path).unwrap_or_else(|e| {
        eprintln!("cannot open {path}: {e}");
        std::process::exit(2)
    });
    BufReader::new(f)
        .lines()
        .map(|l| l.unwrap())
        .filter(|l| !l.trim().is_empty())
        .map(|l| serde_json::from_str(&l).unwrap_or_else(|e| {
            eprintln!("bad case line {l}: {e}");
            std::process::exit(2)
        }))
        .collect()
}

pub struct TraceOut {
    w: std::io::BufWriter<std::fs::File>,
    pub n: u64,
}

impl TraceOut {
    pub fn create(path: &str) -> Self {
        TraceOut { w: std::io::BufWriter::new(std::fs::File::create(path).unwrap()), n: 0 }
    }
    pub fn ev(&mut self, v: Value) {
        serde_json::to_writer(&mut self.w, &v).unwrap();
        self.w.write_all(b"\n").unwrap();
        self.n += 1;
    }
    pub fn finish(mut self) -> u64 {
        self.w.flush().unwrap();
        self.n
    }
}

/// Run `f`, turning a panic of the code under test into data.
pub fn guarded<T>(f: impl FnOnce() -> T) -> Result<T, String> {
    panic::catch_unwind(AssertUnwindSafe(f)).map_err(|e| {
        let msg = if let Some(s) = e.downcast_ref::<&str>() {
            s.to_string()
        } else if let Some(s) = e.downcast_ref::<String>() {
            s.clone()
        } else {
            "panic".to_string()
        };
        // where it happened (library or harness), recorded by the hook
        let loc = PANIC_LOC.with(|l| l.borrow_mut().take());
        match loc {
            Some(l) if !msg.contains(" [at ") => format!("{msg} [at {l}]"),
            _ => msg,
        }
    })
}

thread_local! { static PANIC_LOC: std::cell::RefCell<Option<String>> = const { std::cell::RefCell::new(None) }; }

pub fn quiet_panics() {
    panic::set_hook(Box::new(|info| {
        let loc = info.location().map(|l| format!("{}:{}", l.file().rsplit("/src/").next().unwrap_or(l.file()), l.line()));
        PANIC_LOC.with(|p| *p.borrow_mut() = loc);
    }));
}

#[derive(Default)]
pub struct Summary {
    pub evaluations: u64,
    nontrivial: HashSet<u64>,
    pub violations: Vec<Value>,
    vkeys: BTreeMap<String, u64>,
    pub samples: Vec<Value>,
    pub extra: Map<String, Value>,
}

fn h64(s: &str) -> u64 {
    use std::hash::{Hash, Hasher};
    let mut h = std::collections::hash_map::DefaultHasher::new();
    s.hash(&mut h);
    h.finish()
}

impl Summary {
    pub fn new() -> Self {
        Self::default()
    }
    /// One evaluation; `key` identifies the case if it is non-trivial by the module's rule.
    pub fn eval(&mut self, key: Option<&str>) {
        self.evaluations += 1;
        if let Some(k) = key {
            self.nontrivial.insert(h64(k));
        }
    }
    /// One evaluation, non-trivial (keyed by `key`) iff `cond`.
    pub fn eval_if(&mut self, cond: bool, key: &str) {
        self.eval(if cond { Some(key) } else { None });
    }
    pub fn evals(&mut self, n: u64) {
        self.evaluations += n;
    }
    pub fn nontrivial(&mut self, key: &str) {
        self.nontrivial.insert(h64(key));
    }
    pub fn sample(&mut self, v: Value) {
        if self.samples.len() < 4 {
            self.samples.push(v);
        }
    }
    /// `key` names the specific failing class (used to match known findings).
    pub fn violation(&mut self, key: &str, what: String, case: Value) {
        let c = self.vkeys.entry(key.to_string()).or_insert(0);
        *c += 1;
        if *c <= 2 && self.violations.len() < 60 {
            self.violations.push(json!({"key": key, "what": what, "case": case}));
        }
    }
    pub fn set(&mut self, k: &str, v: Value) {
        self.extra.insert(k.to_string(), v);
    }
    pub fn count(&mut self, k: &str, n: u64) {
        let old = self.extra.get(k).and_then(|v| v.as_u64()).unwrap_or(0);
        self.extra.insert(k.to_string(), json!(old + n));
    }
    pub fn has_violations(&self) -> bool {
        !self.violations.is_empty()
    }
    pub fn print(self) {
        let mut m = self.extra;
        m.insert("evaluations".into(), json!(self.evaluations));
        m.insert("distinct_nontrivial".into(), json!(self.nontrivial.len()));
        m.insert("violations".into(), Value::Array(self.violations));
        m.insert("violation_counts".into(), json!(self.vkeys));
        m.insert("samples".into(), Value::Array(self.samples));
        println!("{}", Value::Object(m));
    }
}

/// Small deterministic PRNG (splitmix64) so traces are reproducible from VERIF_SEED.
pub struct Rng(pub u64);
impl Rng {
    pub fn new(seed: u64) -> Self {
        Rng(seed.wrapping_mul(0x9E37_79B9_7F4A_7C15).wrapping_add(0xD1B5_4A32_D192_ED03))
    }
    pub fn next(&mut self) -> u64 {
        self.0 = self.0.wrapping_add(0x9E37_79B9_7F4A_7C15);
        let mut z = self.0;
        z = (z ^ (z >> 30)).wrapping_mul(0xBF58_476D_1CE4_E5B9);
        z = (z ^ (z >> 27)).wrapping_mul(0x94D0_49BB_1331_11EB);
        z ^ (z >> 31)
    }
    pub fn below(&mut self, n: u64) -> u64 {
        if n == 0 { 0 } else { self.next() % n }
    }
    pub fn range(&mut self, lo: u64, hi: u64) -> u64 {
        lo + self.below(hi - lo + 1)
    }
    pub fn chance(&mut self, num: u64, den: u64) -> bool {
        self.below(den) < num
    }
    pub fn pick<'a, T>(&mut self, xs: &'a [T]) -> &'a T {
        &xs[self.below(xs.len() as u64) as usize]
    }
    pub fn u128(&mut self) -> u128 {
        ((self.next() as u128) << 64) | self.next() as u128
    }
}

pub fn arg_val(args: &[String], name: &str) -> Option<String> {
    args.iter().position(|a| a == name).and_then(|i| args.get(i + 1).cloned())
}
pub fn arg_u64(args: &[String], name: &str, default: u64) -> u64 {
    arg_val(args, name).map(|s| s.parse().unwrap()).unwrap_or(default)
}
