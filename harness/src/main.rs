#![allow(dead_code)]
//! `vh` — conformance harness binding the TLA+ specifications in /verif/spec
//! to the rpki crate built from /repo's working tree.
//!
//!   vh replay <module> <cases.ndjson>          spec -> impl
//!   vh drive  <module> --seed S --n N --out F  impl -> spec (records a trace)
mod builddecode;
mod caxml;
mod decoders;
mod tlv;
mod certchain;
mod cms;
mod cmsmsg;
mod common;
mod pki;
mod der;
mod manifest;
mod prefixlaws;
mod pubpoint;
mod pubproto;
mod reschain;
mod rfc1982;
mod rrdp;
mod rrdpsync;
mod rtrconn;
mod rtrclient;
mod rtrwire;
mod rtrpacing;
mod rtrfanout;
mod rtaval;
mod sigobj;
mod rtrsession;
mod slurm;
mod taltext;
mod urialg;
mod x509time;

#[global_allocator]
static GLOBAL: decoders::Meter = decoders::Meter;

fn main() {
    common::quiet_panics();
    let args: Vec<String> = std::env::args().skip(1).collect();
    if args.len() < 2 {
        eprintln!("usage: vh replay|drive <module> ...");
        std::process::exit(2);
    }
    let rest = &args[2..];
    match (args[0].as_str(), args[1].as_str()) {
        ("replay", "rfc1982") => rfc1982::replay(rest),
        ("drive", "rfc1982") => rfc1982::drive(rest),
        ("native", "rfc1982") => rfc1982::native(rest),
        ("replay", "reschain") => reschain::replay(rest),
        ("drive", "reschain") => reschain::drive(rest),
        ("replay", "prefixlaws") => prefixlaws::replay(rest),
        ("replay", "urialg") => urialg::replay(rest),
        ("replay", "slurm") => slurm::replay(rest),
        ("replay", "rtrsession") => rtrsession::replay(rest),
        ("drive", "rtrsession") => rtrsession::drive(rest),
        ("replay", "rtrconn") => rtrconn::replay(rest),
        ("replay", "rtrclient") => rtrclient::replay(rest),
        ("drive", "rtrclient") => rtrclient::drive(rest),
        ("replay", "rtrwire") => rtrwire::replay(rest),
        ("replay", "rrdp") => rrdp::replay(rest),
        ("replay", "manifest") => manifest::replay(rest),
        ("replay", "certchain") => certchain::replay(rest),
        ("replay", "builddecode") => builddecode::replay(rest),
        ("replay", "caxml") => caxml::replay(rest),
        ("drive", "caxml") => caxml::drive(rest),
        ("replay", "decoders") => decoders::replay(rest),
        ("replay", "taltext") => taltext::replay(rest),
        ("replay", "rtrpacing") => rtrpacing::replay(rest),
        ("drive", "rtrpacing") => rtrpacing::drive(rest),
        ("replay", "rtrfanout") => rtrfanout::replay(rest),
        ("replay", "rtaval") => rtaval::replay(rest),
        ("replay", "pubproto") => pubproto::replay(rest),
        ("replay", "pubpoint") => pubpoint::replay(rest),
        ("replay", "rrdpsync") => rrdpsync::replay(rest),
        ("drive", "pubpoint") => pubpoint::drive(rest),
        ("cycle", "rtaval") => rtaval::cycle(rest),
        ("drive", "rtaval") => rtaval::drive(rest),
        ("drive", "decoders") => decoders::drive(rest),
        ("replay", "sigobj") => sigobj::replay(rest),
        ("replay", "cmsmsg") => cmsmsg::replay(rest),
        ("drive", "cmsmsg") => cmsmsg::drive(rest),
        ("drive", "sigobj") => sigobj::drive(rest),
        ("drive", "certchain") => certchain::drive(rest),
        ("drive", "manifest") => manifest::drive(rest),
        ("drive", "rrdp") => rrdp::drive(rest),
        ("drive", "rtrwire") => rtrwire::drive(rest),
        ("drive", "rtrconn") => rtrconn::drive(rest),
        ("replay", "x509time") => x509time::replay(rest),
        ("native", "x509time") => x509time::native(rest),
        ("drive", "x509time") => x509time::drive(rest),
        ("drive", "slurm") => slurm::drive(rest),
        ("drive", "urialg") => urialg::drive(rest),
        ("drive", "prefixlaws") => prefixlaws::drive(rest),
        (a, b) => {
            eprintln!("unknown command {a} {b}");
            std::process::exit(2);
        }
    }
}
