//! (extra) — binds spec/PubPoint.tla to the steps the library offers a relying party that walks one publication point:
//! Manifest::decode / validate / validate_at, ManifestContent::{iter, is_stale}, ManifestHash::verify, Crl::decode /
//! verify_signature / contains (plain, with cached serials, through CrlStore with and without caching), Roa::process with a CRL
//! callback, Cert::validate_ca.  The world of a behaviour (a CA, its manifest, CRL, two ROAs and a child certificate, each with
//! the deviations the model chose) is built with the library's own builders; the walk takes the steps in the order the model took
//! them and compares every step's outcome and the final set of accepted objects.
use crate::common::*;
use crate::pki::*;
use bytes::Bytes;
use rpki::crypto::{DigestAlgorithm, RpkiSignatureAlgorithm};
use rpki::repository::cert::{Cert, ResourceCert};
use rpki::repository::crl::{Crl, CrlEntry, CrlStore, TbsCertList};
use rpki::repository::manifest::{FileAndHash, Manifest, ManifestContent, ManifestHash};
use rpki::repository::roa::{Roa, RoaBuilder};
use rpki::repository::sigobj::SignedObjectBuilder;
use rpki::repository::tal::TalInfo;
use rpki::repository::x509::{Serial, Time, Validity};
use rpki::resources::asn::Asn;
use serde_json::{json, Value};
use std::collections::HashMap;

const BASE: &str = "rsync://repo.example/m/ca/";
const MFT_SERIAL: u64 = 11;

fn rc(c: &str, s: &[&str]) -> ResChoice {
    ResChoice { c: c.into(), s: s.iter().map(|x| x.to_string()).collect() }
}
/// objects are named r<i> (a ROA) or c<i> (the certificate of a child CA); anything else is the CRL / the manifest
fn file_name(o: &str) -> String {
    match o.as_bytes().first() { Some(b'r') => format!("{o}.roa"), Some(b'c') => format!("{o}.cer"), _ => "ca.crl".to_string() }
}
fn index_of(o: &str) -> u64 {
    o[1..].parse().unwrap_or(0)
}
fn serial_of(o: &str) -> u64 {
    match o.as_bytes().first() { Some(b'r') => 20 + index_of(o), Some(b'c') => 30 + index_of(o), _ => MFT_SERIAL }
}
fn sha256(data: &[u8]) -> Vec<u8> {
    crate::cms::sha256(data)
}

pub struct World {
    pki: Pki,
    router: (rpki::repository::x509::Name, rpki::crypto::keys::PublicKey),
    ca: ResourceCert,
    now: Time,
    cache: HashMap<String, Vec<u8>>,
}

impl World {
    pub fn new() -> Self {
        let pki = Pki::new(3);
        let router = router_identity();
        let now = Time::now();
        let day = chrono::TimeDelta::try_days(1).unwrap();
        let ta = CertParams {
            kind: "ta".into(), key: "k0".into(), sig_key: "k0".into(), aki: "none".into(), ski_ok: true, tamper: "none".into(), nb: 0, na: 2,
            policy: "refuse".into(), v4: rc("blocks", &["a1", "a2"]), v6: rc("missing", &[]), asn: rc("blocks", &["a1"]), serial: 1, raw: None,
            validity: Some(Validity::new(now - day, now + day)),
        };
        let ca = Cert::decode(Bytes::from(build_cert(&pki, &ta, &router))).unwrap().validate_ta(TalInfo::from_name("t".into()).into_arc(), true).expect("CA validates");
        World { pki, router, ca, now, cache: HashMap::new() }
    }
    fn hours(&self, h: i64) -> Time {
        self.now + chrono::TimeDelta::try_hours(h).unwrap()
    }
    fn cached(&mut self, key: String, f: impl FnOnce(&World) -> Vec<u8>) -> Vec<u8> {
        if let Some(b) = self.cache.get(&key) {
            return b.clone();
        }
        let b = f(self);
        self.cache.insert(key, b.clone());
        b
    }
    fn sob(&self, serial: u64, validity: Validity, name: &str) -> SignedObjectBuilder {
        SignedObjectBuilder::new(Serial::from(serial), validity, rsync(&format!("{BASE}ca.crl")), rsync("rsync://repo.example/m/ca.cer"), rsync(&format!("{BASE}{name}")))
    }
    /// the file of object `o` under its facets (None: the repository does not have it)
    fn object(&mut self, o: &str, f: &Value) -> Option<Vec<u8>> {
        if f["present"] == "no" {
            return None;
        }
        let (sig, res) = (f["sig"].as_str().unwrap().to_string(), f["res"].as_str().unwrap().to_string());
        let o = o.to_string();
        Some(self.cached(format!("{o}/{sig}/{res}"), |w| {
            let key = w.pki.key(if sig == "ca" { "k0" } else { "k1" });
            let wide = Validity::new(w.hours(-2), w.hours(2));
            if o.starts_with('c') {
                let p = CertParams {
                    kind: "ca".into(), key: "k2".into(), sig_key: if sig == "ca" { "k0".into() } else { "k1".into() }, aki: if sig == "ca" { "k0".into() } else { "k1".into() },
                    ski_ok: true, tamper: "none".into(), nb: 0, na: 2, policy: "refuse".into(),
                    v4: rc("blocks", &[if res == "inside" { "a1" } else { "a3" }]), v6: rc("missing", &[]), asn: rc("missing", &[]), serial: serial_of(&o),
                    // further child certificates hold (or over-claim) a /26 each
                    raw: if index_of(&o) > 1 {
                        use rpki::repository::resources::{AsResources, IpBlock, IpBlocks, IpResources, Prefix};
                        let p = if res == "inside" { format!("10.0.0.{}/26", 64 * (index_of(&o) % 4)) } else { format!("10.9.{}.0/26", index_of(&o)) };
                        let b: IpBlocks = [IpBlock::from(Prefix::from_v4_str(&p).unwrap())].into_iter().collect();
                        Some((IpResources::blocks(b), IpResources::missing(), AsResources::missing()))
                    } else { None },
                    validity: Some(wide),
                };
                build_cert(&w.pki, &p, &w.router)
            } else {
                let mut b = RoaBuilder::new(Asn::from_u32(64496));
                let (addr, len) = match (o.as_str(), res.as_str()) {
                    ("r1", "inside") => ("10.0.0.0".to_string(), 25), ("r2", "inside") => ("10.0.2.0".to_string(), 24), ("r1", _) => ("10.9.0.0".to_string(), 24), ("r2", _) => ("10.0.4.0".to_string(), 24),
                    // further ROAs: a /28 inside atom a2 (10.0.2.0/23), or one outside everything the CA holds
                    (_, "inside") => (format!("10.0.3.{}", 16 * (index_of(&o) % 16)), 28), _ => (format!("10.8.{}.0", index_of(&o)), 24),
                };
                b.push_addr(addr.parse().unwrap(), len, None);
                b.finalize(w.sob(serial_of(&o), wide, &file_name(&o)), &w.pki.signer, &key).unwrap().to_captured().into_bytes().to_vec()
            }
        }))
    }
    fn crl(&mut self, pp: &Value) -> Vec<u8> {
        let (sig, time, rev) = (pp["crlsig"].as_str().unwrap().to_string(), pp["crltime"].as_str().unwrap().to_string(), pp["revokes"].as_str().unwrap().to_string());
        self.cached(format!("crl/{sig}/{time}/{rev}"), |w| {
            let k = if sig == "ca" { "k0" } else { "k1" };
            let (this, next) = if time == "ok" { (w.hours(-1), w.hours(1)) } else { (w.hours(-3), w.hours(-2)) };
            // some unrelated serial numbers around the one in question, so that the lookup has something to walk over
            let mut revoked: Vec<u64> = vec![5, 0x80, 0x7fff_ffff_ffff];
            if rev != "none" {
                // first, in the middle or last on the list, depending on whose it is
                let at = match rev.as_str() { "mft" => 0, "r1" => 2, _ => 3 };
                revoked.insert(at, serial_of(&rev));
            }
            let entries: Vec<CrlEntry> = revoked.iter().map(|s| CrlEntry::new(Serial::from(*s), w.hours(-1))).collect();
            TbsCertList::new(RpkiSignatureAlgorithm::default(), w.pki.pubkey(k).to_subject_name(), this, next, entries, w.pki.pubkey(k).key_identifier(), Serial::from(7u64))
                .into_crl(&w.pki.signer, &w.pki.key(k)).unwrap().to_captured().into_bytes().to_vec()
        })
    }
    fn manifest(&mut self, pp: &Value, listing: &[(String, Vec<u8>)]) -> Vec<u8> {
        let (sig, time) = (pp["mftsig"].as_str().unwrap(), pp["mfttime"].as_str().unwrap());
        let ee = if time == "eeexpired" { Validity::new(self.hours(-3), self.hours(-2)) } else { Validity::new(self.hours(-1), self.hours(1)) };
        let (this, next) = if time == "stale" { (self.hours(-3), self.hours(-2)) } else { (self.hours(-1), self.hours(1)) };
        let files: Vec<FileAndHash<Bytes, Bytes>> = listing.iter().map(|(n, h)| FileAndHash::new(Bytes::from(n.clone().into_bytes()), Bytes::from(h.clone()))).collect();
        let content = ManifestContent::new(Serial::from(3u64), this, next, DigestAlgorithm::default(), files.iter());
        content.into_manifest(self.sob(MFT_SERIAL, ee, "ca.mft"), &self.pki.signer, &self.pki.key(if sig == "ca" { "k0" } else { "k1" })).unwrap().to_captured().into_bytes().to_vec()
    }
}

/// is `serial` on the list?  asked in every way the library offers; Err when the ways disagree
fn revoked(w: &World, crl_bytes: &[u8], serial: Serial) -> Result<bool, String> {
    let plain = Crl::decode(Bytes::copy_from_slice(crl_bytes)).map_err(|e| e.to_string())?;
    // a second list that lists `serial` exactly when this one does not
    let other = {
        let mut entries: Vec<CrlEntry> = vec![CrlEntry::new(Serial::from(6u64), w.hours(-1))];
        if !plain.revoked_certs().iter().any(|e| e.user_certificate == serial) {
            entries.push(CrlEntry::new(serial, w.hours(-1)));
        }
        TbsCertList::new(RpkiSignatureAlgorithm::default(), w.pki.pubkey("k0").to_subject_name(), w.hours(-1), w.hours(1), entries, w.pki.pubkey("k0").key_identifier(), Serial::from(8u64))
            .into_crl(&w.pki.signer, &w.pki.key("k0")).unwrap()
    };
    let mut cached = plain.clone();
    cached.cache_serials();
    let uri = rsync(&format!("{BASE}ca.crl"));
    #[allow(deprecated)]
    let (s1, s2) = {
        let mut s1 = CrlStore::new();
        s1.push(uri.clone(), plain.clone());
        let mut s2 = CrlStore::new();
        s2.enable_serial_caching();
        // (another publication point's list first: it says the opposite about `serial`)
        s2.push(rsync("rsync://repo.example/m/other/ca.crl"), other.clone());
        s2.push(uri.clone(), plain.clone());
        s1.push(rsync("rsync://repo.example/m/other/ca.crl"), other);
        (s1, s2)
    };
    #[allow(deprecated)]
    let answers = [
        ("contains", plain.contains(serial)),
        ("contains after cache_serials", cached.contains(serial)),
        ("revoked_certs().contains", plain.revoked_certs().contains(serial)),
        ("revoked_certs().iter()", plain.revoked_certs().iter().any(|e| e.user_certificate == serial)),
        ("CrlStore", s1.get(&uri).map(|c| c.contains(serial)).ok_or("CrlStore::get finds nothing")?),
        ("CrlStore with serial caching", s2.get(&uri).map(|c| c.contains(serial)).ok_or("CrlStore::get finds nothing")?),
    ];
    if answers.iter().any(|a| a.1 != answers[0].1) {
        return Err(format!("the revocation lookups disagree about serial {serial}: {answers:?}"));
    }
    Ok(answers[0].1)
}

fn run(w: &mut World, c: &Value) -> Result<(), (String, String)> {
    run_walk(w, c, None)
}

/// `record`: None = follow the model's steps and compare every outcome; Some(events) = a free walk: the steps of `c["log"]` are the
/// order in which to attempt things, outcomes are whatever the library says, the walk ends where a relying party's would, and every
/// step taken is recorded (impl -> spec direction)
fn run_walk(w: &mut World, c: &Value, mut record: Option<&mut Vec<Value>>) -> Result<(), (String, String)> {
    let (pp, obj) = (&c["pp"], &c["obj"]);
    // ---- the repository and the manifest that describes it
    let mut repo: HashMap<String, Vec<u8>> = HashMap::new();
    let mut listing: Vec<(String, Vec<u8>)> = Vec::new();
    let crl_bytes = w.crl(pp);
    repo.insert("ca.crl".into(), crl_bytes.clone());
    match pp["crllisted"].as_str().unwrap() {
        "ok" => listing.push(("ca.crl".into(), sha256(&crl_bytes))),
        "badhash" => listing.push(("ca.crl".into(), { let mut h = sha256(&crl_bytes); h[31] ^= 0x01; h })),
        _ => {}
    }
    let mut names: Vec<String> = obj.as_object().unwrap().keys().cloned().collect();
    names.sort();
    for o in names.iter().map(|x| x.as_str()) {
        let f = &obj[o];
        let bytes = w.object(o, f);
        let honest = bytes.as_ref().map(|b| sha256(b)).unwrap_or_else(|| sha256(o.as_bytes()));
        match f["listed"].as_str().unwrap() {
            "ok" => listing.push((file_name(o), honest)),
            // a listed hash that is wrong in its last octet (r1), in its first octet (r2), altogether (the others)
            "badhash" => listing.push((file_name(o), match o {
                "r1" => { let mut h = honest.clone(); h[31] ^= 0x80; h }
                "r2" => { let mut h = honest.clone(); h[0] ^= 0x01; h }
                _ => sha256(format!("not {o}").as_bytes()),
            })),
            _ => {}
        }
        if let Some(b) = bytes {
            repo.insert(file_name(o), b);
        }
    }
    let mft_bytes = w.manifest(pp, &listing);
    // ---- the walk, step by step as the model took it
    let mut accepted: Vec<String> = Vec::new();
    let mut content: Option<ManifestContent> = None;
    let mut mft_ee: Option<ResourceCert> = None;
    let entry = |content: &ManifestContent, name: &str| -> Option<ManifestHash> {
        content.iter().find(|f| f.file().as_ref() == name.as_bytes()).map(|f| ManifestHash::new(f.hash().clone(), content.file_hash_alg()))
    };
    for st in c["log"].as_array().unwrap() {
        let (mut step, o, want) = (st["step"].as_str().unwrap(), st["o"].as_str().unwrap(), st["ok"].as_bool().unwrap_or(true));
        let free = record.is_some();
        let got: bool = match step {
            "manifest" => {
                let mut verdicts = Vec::new();
                for strict in [true, false] {
                    let r = Manifest::decode(Bytes::from(mft_bytes.clone()), strict).map_err(|e| e.to_string())
                        .and_then(|m| m.validate(&w.ca, strict).map_err(|e| e.to_string()));
                    let r_at = Manifest::decode(Bytes::from(mft_bytes.clone()), strict).map_err(|e| e.to_string())
                        .and_then(|m| m.validate_at(&w.ca, strict, Time::now()).map_err(|e| e.to_string()));
                    if r.is_ok() != r_at.is_ok() {
                        return Err(("manifest:routes".into(), format!("validate and validate_at(now) disagree: {:?} / {:?}", r.as_ref().err(), r_at.as_ref().err())));
                    }
                    verdicts.push(r.map(|(ee, content)| { let fresh = !content.is_stale() && content.next_update() >= Time::now(); (ee, content, fresh) }));
                }
                if verdicts[0].is_ok() != verdicts[1].is_ok() {
                    return Err(("manifest:modes".into(), "strict and relaxed validation of the same DER manifest disagree".into()));
                }
                match verdicts.remove(0) {
                    Ok((ee, cont, fresh)) => {
                        if cont.is_stale() != (cont.next_update() < Time::now()) {
                            return Err(("manifest:is_stale".into(), format!("is_stale() = {} with nextUpdate {:?}", cont.is_stale(), cont.next_update())));
                        }
                        if cont.len() != listing.len() || cont.iter().count() != listing.len() {
                            return Err(("manifest:len".into(), format!("{} files listed, len() = {}", listing.len(), cont.len())));
                        }
                        content = Some(cont);
                        mft_ee = Some(ee);
                        fresh
                    }
                    Err(_) => false,
                }
            }
            "crl" => {
                let (cont, ee) = (content.as_ref().unwrap(), mft_ee.as_ref().unwrap());
                // the CRL is the file the manifest's own EE certificate names
                let name = ee.as_cert().crl_uri().and_then(|u| u.relative_to(&rsync(BASE)).map(|s| s.to_string())).ok_or(("crl:uri".to_string(), "the manifest's EE certificate names no CRL below the publication point".to_string()))?;
                if name != "ca.crl" {
                    return Err(("crl:uri".into(), format!("CRL URI resolves to '{name}'")));
                }
                match entry(cont, &name) {
                    None => false,
                    Some(h) => h.verify(&repo[&name]).is_ok() && match Crl::decode(Bytes::from(repo[&name].clone())) {
                        Err(_) => false,
                        Ok(crl) => crl.verify_signature(w.ca.as_cert().subject_public_key_info()).is_ok() && crl.next_update() >= Time::now() && !crl.is_stale(),
                    },
                }
            }
            "mft-revoked" => !revoked(w, &crl_bytes, mft_ee.as_ref().unwrap().as_cert().serial_number()).map_err(|m| ("crl:lookups".to_string(), m))?,
            "file" | "object" => {
                let cont = content.as_ref().unwrap();
                let name = &file_name(o);
                let file_ok = match (entry(cont, name), repo.get(name)) {
                    (Some(h), Some(bytes)) => h.verify(bytes).is_ok(),
                    _ => false,
                };
                if free && !file_ok {
                    step = "file";
                }
                if step == "file" {
                    // the model took this step because the listed file is missing or altered
                    file_ok
                } else if !file_ok {
                    return Err(("file:hash".into(), format!("the listed hash of {name} does not verify against the very bytes it was computed from")));
                } else {
                    let bytes = Bytes::from(repo[name].clone());
                    let ok = if o.starts_with('c') {
                        let cert = Cert::decode(bytes).map_err(|e| ("object:decode".to_string(), e.to_string()))?;
                        let serial = cert.serial_number();
                        let v = cert.clone().validate_ca(&w.ca, true).is_ok();
                        if v != cert.validate_ca_at(&w.ca, true, Time::now()).is_ok() {
                            return Err(("object:routes".into(), "validate_ca and validate_ca_at(now) disagree".into()));
                        }
                        v && !revoked(w, &crl_bytes, serial).map_err(|m| ("crl:lookups".to_string(), m))?
                    } else {
                        let roa = Roa::decode(bytes, true).map_err(|e| ("object:decode".to_string(), e.to_string()))?;
                        let mut asked: Option<Serial> = None;
                        let mut lookup_err: Option<String> = None;
                        let r = roa.process(&w.ca, true, |cert| {
                            asked = Some(cert.serial_number());
                            match revoked(w, &crl_bytes, cert.serial_number()) {
                                Ok(false) => Ok(()),
                                Ok(true) => Err(rpki::repository::error::VerificationError::new("revoked").into()),
                                Err(m) => { lookup_err = Some(m); Ok(()) }
                            }
                        });
                        if let Some(m) = lookup_err {
                            return Err(("crl:lookups".into(), m));
                        }
                        if let Some(s) = asked {
                            if s != Serial::from(serial_of(o)) {
                                return Err(("object:crl-callback".into(), format!("the CRL callback of {name} was shown serial {s}, the object's EE certificate has {}", serial_of(o))));
                            }
                        }
                        match r {
                            Ok((_, att)) => {
                                // the accepted attestation says what was signed
                                let n = att.iter_origins().count();
                                if n != 1 || att.as_id() != Asn::from_u32(64496) {
                                    return Err(("object:content".into(), format!("accepted ROA {name} yields {n} origins for {}", att.as_id())));
                                }
                                true
                            }
                            Err(_) => false,
                        }
                    };
                    if ok {
                        accepted.push(o.to_string());
                    }
                    ok
                }
            }
            other => panic!("unknown step {other}"),
        };
        if let Some(ev) = record.as_mut() {
            ev.push(json!({"ev": "step", "step": step, "o": o, "ok": got}));
            if !got && step != "object" {
                accepted.clear();
                break;
            }
            continue;
        }
        if got != want {
            return Err((format!("step:{step}:{}", if got { "accepted" } else { "rejected" }),
                        format!("step {step} {o}: the library says {got}, the specification {want} (pp {pp}, {o}: {})", obj[o])));
        }
        if !got && step != "object" {
            accepted.clear();
        }
    }
    if let Some(ev) = record.as_mut() {
        accepted.sort();
        ev.push(json!({"ev": "end", "accepted": accepted}));
        return Ok(());
    }
    let mut want: Vec<String> = c["accepted"].as_array().unwrap().iter().map(|x| x.as_str().unwrap().to_string()).collect();
    want.sort();
    accepted.sort();
    if accepted != want {
        return Err(("accepted".into(), format!("accepted {accepted:?}, specification {want:?}")));
    }
    Ok(())
}

pub fn replay(args: &[String]) {
    let cases = read_cases(&args[0]);
    let mut s = Summary::new();
    let mut w = World::new();
    for c in &cases {
        match guarded(|| run(&mut w, c)) {
            Ok(Ok(())) => {}
            Ok(Err((k, m))) => s.violation(&k, m, c.clone()),
            Err(m) => s.violation("panic", m, c.clone()),
        }
        s.count(if c["phase"] == "done" { "walks_done" } else { "walks_failed" }, 1);
        s.count("accepted_objects", c["accepted"].as_array().unwrap().len() as u64);
        s.eval_if(c["devs"].as_u64().unwrap() > 0, &format!("{}{}", c["pp"], c["obj"]));
        if s.samples.len() < 3 && s.evaluations % 97 == 5 {
            s.sample(json!({"pp": c["pp"], "accepted": c["accepted"], "steps": c["log"].as_array().unwrap().len()}));
        }
    }
    s.print();
}


/// impl -> spec: random publication points (2 to 6 objects, any number of deviations), walked the way a relying party would - the
/// listed files in a random order - with every step and its outcome recorded.
pub fn drive(args: &[String]) {
    let seed = arg_u64(args, "--seed", 1);
    let n = arg_u64(args, "--n", 40);
    let out = arg_val(args, "--out").expect("--out");
    let mut rng = Rng::new(seed);
    let mut t = TraceOut::create(&out);
    let mut s = Summary::new();
    let mut w = World::new();
    for i in 0..n {
        let k = rng.range(2, 6);
        let mut names: Vec<String> = (1..=k).map(|j| format!("{}{}", if rng.chance(1, 3) { "c" } else { "r" }, j)).collect();
        let pick = |rng: &mut Rng, good: &str, bad: &[&str], p: u64| -> String { if rng.chance(1, p) { rng.pick(bad).to_string() } else { good.to_string() } };
        let mut obj = serde_json::Map::new();
        for o in &names {
            obj.insert(o.clone(), json!({"listed": pick(&mut rng, "ok", &["badhash", "unlisted"], 8), "present": pick(&mut rng, "yes", &["no"], 12),
                                         "sig": pick(&mut rng, "ca", &["other"], 5), "res": pick(&mut rng, "inside", &["outside"], 5)}));
        }
        let revokes = if rng.chance(1, 3) { if rng.chance(1, 5) { "mft".to_string() } else { rng.pick(&names).clone() } } else { "none".to_string() };
        let pp = json!({"mftsig": pick(&mut rng, "ca", &["other"], 12), "mfttime": pick(&mut rng, "ok", &["eeexpired", "stale"], 10),
                        "crlsig": pick(&mut rng, "ca", &["other"], 12), "crltime": pick(&mut rng, "ok", &["stale"], 12),
                        "crllisted": pick(&mut rng, "ok", &["badhash", "unlisted"], 12), "revokes": revokes});
        // the order in which the relying party takes the listed files
        for a in (1..names.len()).rev() { let b = rng.below(a as u64 + 1) as usize; names.swap(a, b); }
        let mut log = vec![json!({"step": "manifest", "o": ""}), json!({"step": "crl", "o": ""}), json!({"step": "mft-revoked", "o": ""})];
        for o in &names {
            if obj[o]["listed"] != "unlisted" {
                log.push(json!({"step": "object", "o": o}));
            }
        }
        let world = json!({"pp": pp, "obj": Value::Object(obj), "log": log, "accepted": []});
        let mut events = vec![json!({"ev": "world", "pp": world["pp"], "obj": world["obj"]})];
        match guarded(|| { let mut ev = Vec::new(); run_walk(&mut w, &world, Some(&mut ev)).map(|_| ev) }) {
            Ok(Ok(ev)) => {
                events.extend(ev);
                let acc = events.last().unwrap()["accepted"].as_array().map(|a| a.len()).unwrap_or(0);
                s.count("accepted_objects", acc as u64);
                s.count(if acc > 0 { "walks_accepting" } else { "walks_empty" }, 1);
                for e in events { t.ev(e); }
            }
            Ok(Err((k, m))) => s.violation(&k, m, json!({"seed": seed, "i": i, "world": world})),
            Err(m) => s.violation("panic", m, json!({"seed": seed, "i": i})),
        }
        s.eval(Some(&format!("{i}")));
    }
    s.set("events", json!(t.finish()));
    s.print();
}
