//! C01 — binds spec/CertChain.tla to Cert::validate_{ta,ca,ee,router}_at.
use crate::common::*;
use crate::pki::*;
use bytes::Bytes;
use rpki::repository::cert::{Cert, ResourceCert};
use rpki::repository::tal::TalInfo;
use serde_json::{json, Value};
use std::collections::HashMap;

fn res_choice(v: &Value) -> ResChoice {
    ResChoice { c: v["c"].as_str().unwrap().to_string(), s: v["s"].as_array().unwrap().iter().map(|x| x.as_str().unwrap().to_string()).collect() }
}
fn params(c: &Value, serial: u64) -> CertParams {
    CertParams {
        kind: c["kind"].as_str().unwrap().into(),
        key: c["key"].as_str().unwrap().into(),
        sig_key: c["sigKey"].as_str().unwrap().into(),
        aki: c["aki"].as_str().unwrap().into(),
        ski_ok: c["skiOk"].as_bool().unwrap(),
        tamper: c["tamper"].as_str().unwrap().into(),
        nb: c["nb"].as_i64().unwrap(),
        na: c["na"].as_i64().unwrap(),
        policy: c["policy"].as_str().unwrap().into(),
        v4: res_choice(&c["res"]["v4"]),
        v6: res_choice(&c["res"]["v6"]),
        asn: res_choice(&c["res"]["as"]),
        serial,
        raw: None,
        validity: None,
    }
}
fn atom_list(v: &Value) -> Vec<String> {
    let mut a: Vec<String> = v.as_array().unwrap().iter().map(|x| x.as_str().unwrap().to_string()).collect();
    a.sort();
    a
}

pub struct Ctx {
    pub pki: Pki,
    pub router: (rpki::repository::x509::Name, rpki::crypto::keys::PublicKey),
    /// DER cache keyed by the certificate's parameters
    cache: HashMap<String, Vec<u8>>,
}
impl Ctx {
    pub fn new() -> Self {
        Ctx { pki: Pki::new(3), router: router_identity(), cache: HashMap::new() }
    }
    pub fn der(&mut self, c: &Value, serial: u64) -> Vec<u8> {
        let key = format!("{}@{}", c, EPOCH.load(std::sync::atomic::Ordering::SeqCst));
        if let Some(d) = self.cache.get(&key) {
            return d.clone();
        }
        let d = build_cert(&self.pki, &params(c, serial), &self.router);
        if self.cache.len() < 5000 {
            self.cache.insert(key, d.clone());
        }
        d
    }
}

fn check_eff(rc: &ResourceCert, eff: &Value) -> Result<(), String> {
    let got = (atoms_of_ip("v4", rc.v4_resources()), atoms_of_ip("v6", rc.v6_resources()), atoms_of_as(rc.as_resources()));
    let want = (atom_list(&eff["v4"]), atom_list(&eff["v6"]), atom_list(&eff["as"]));
    match got {
        (Some(a), Some(b), Some(c)) if (a.clone(), b.clone(), c.clone()) == want => Ok(()),
        (a, b, c) => Err(format!("validated resources v4={a:?} v6={b:?} as={c:?} (raw v4 '{}' v6 '{}' as '{}'), specification v4={:?} v6={:?} as={:?}",
            rc.v4_resources().as_v4(), rc.v6_resources().as_v6(), rc.as_resources(), want.0, want.1, want.2)),
    }
}

fn run_chain(ctx: &mut Ctx, c: &Value) -> Result<(), (String, String)> {
    // the model counts instants in 1/unit of the harness' time step; certificates carry whole steps, an evaluation instant between
    // two steps is realised as the step plus half a second (X.509 times have whole seconds, the clock has not)
    let unit = c["unit"].as_i64().unwrap_or(1);
    let tnow = c["now"].as_i64().unwrap();
    let now = if tnow % unit == 0 { time_of(tnow / unit) } else { time_of(tnow.div_euclid(unit)) + chrono::TimeDelta::try_milliseconds(500).unwrap() };
    // the evaluation instant reaches the library the way some caller might have obtained it: built, or read from text in any zone
    static NTH: std::sync::atomic::AtomicUsize = std::sync::atomic::AtomicUsize::new(0);
    let now = crate::pki::respell(now, NTH.fetch_add(1, std::sync::atomic::Ordering::SeqCst));
    let certs = c["certs"].as_array().unwrap();
    let mut issuer: Option<ResourceCert> = None;
    for (i, e) in certs.iter().enumerate() {
        let mut cp_scaled = e["cert"].clone();
        for k in ["nb", "na"] {
            let v = cp_scaled[k].as_i64().unwrap();
            assert!(v % unit == 0, "certificate times are whole steps");
            cp_scaled[k] = serde_json::json!(v / unit);
        }
        let cp = &cp_scaled;
        let kind = cp["kind"].as_str().unwrap();
        let want_ok = e["ok"].as_bool().unwrap();
        let der = ctx.der(cp, 100 + i as u64);
        let cert = match Cert::decode(Bytes::from(der)) {
            Ok(c) => c,
            Err(err) => {
                // a certificate the decoder refuses is rejected
                if want_ok {
                    return Err((format!("{kind}:rejected"), format!("certificate {} does not decode ({err}), specification accepts it", i + 1)));
                }
                return Ok(());
            }
        };
        if kind == "ta" {
            // the by-reference entry points (inspect_ta + verify_ta_ref_at, what validate_ta_at does on an owned value) decide the same question
            let by_ref = cert.inspect_ta(true).is_ok() && cert.verify_ta_ref_at(true, now).is_ok();
            if by_ref != want_ok {
                return Err((format!("ta:{}:by-ref", if by_ref { "accepted" } else { "rejected" }), format!("inspect_ta + verify_ta_ref_at say {by_ref}, specification {want_ok}: {cp}")));
            }
        }
        // every other public route to the same verdict: relaxed mode, inspect_* + verify_*_at, the detached-EE pair, and (when the
        // instants lie around the wall clock) the entry points that read the clock themselves
        let wall = EPOCH.load(std::sync::atomic::Ordering::SeqCst) == 3;
        entry_points(kind, &cert, issuer.as_ref(), now, wall, want_ok, &e["eff"]).map_err(|(k, m)| (k, format!("certificate {}: {m}: {cp}", i + 1)))?;
        let res: Result<Option<ResourceCert>, String> = match kind {
            "ta" => cert.validate_ta_at(TalInfo::from_name("t".into()).into_arc(), true, now).map(Some).map_err(|e| e.to_string()),
            "ca" => cert.validate_ca_at(issuer.as_ref().unwrap(), true, now).map(Some).map_err(|e| e.to_string()),
            "ee" => cert.validate_ee_at(issuer.as_ref().unwrap(), true, now).map(Some).map_err(|e| e.to_string()),
            _ => cert.validate_router_at(issuer.as_ref().unwrap(), true, now).map(|_| None).map_err(|e| e.to_string()),
        };
        match (res, want_ok) {
            (Ok(rc), true) => {
                if let Some(rc) = rc {
                    check_eff(&rc, &e["eff"]).map_err(|m| (format!("{kind}:resources"), format!("certificate {}: {m}", i + 1)))?;
                    issuer = Some(rc);
                }
            }
            (Err(_), false) => return Ok(()),
            (Ok(_), false) => {
                return Err((format!("{kind}:accepted"), format!("certificate {} ({kind}) validates, specification rejects it: {}", i + 1, cp)));
            }
            (Err(m), true) => {
                return Err((format!("{kind}:rejected"), format!("certificate {} ({kind}) rejected ({m}), specification accepts it: {}", i + 1, cp)));
            }
        }
    }
    Ok(())
}

/// The other public entry points that decide the same question as validate_{ta,ca,ee,router}_at(strict).
fn entry_points(kind: &str, cert: &Cert, issuer: Option<&ResourceCert>, now: rpki::repository::x509::Time, wall: bool, want_ok: bool, eff: &Value) -> Result<(), (String, String)> {
    let tal = || TalInfo::from_name("t".into()).into_arc();
    type R = Result<Option<ResourceCert>, String>;
    let e2s = |e: rpki::repository::error::ValidationError| e.to_string();
    let v2s = |e: rpki::repository::error::VerificationError| e.to_string();
    let i2s = |e: rpki::repository::error::InspectionError| e.to_string();
    let mut routes: Vec<(&str, R)> = Vec::new();
    let c = || cert.clone();
    match kind {
        "ta" => {
            routes.push(("validate_ta_at:relaxed", c().validate_ta_at(tal(), false, now).map(Some).map_err(e2s)));
            routes.push(("inspect_ta+verify_ta_at", cert.inspect_ta(true).map_err(i2s).and_then(|_| c().verify_ta_at(tal(), true, now).map(Some).map_err(v2s))));
            if wall {
                routes.push(("validate_ta", c().validate_ta(tal(), true).map(Some).map_err(e2s)));
                routes.push(("inspect_ta+verify_ta", cert.inspect_ta(true).map_err(i2s).and_then(|_| c().verify_ta(tal(), true).map(Some).map_err(v2s))));
                routes.push(("inspect_ta+verify_ta_ref", cert.inspect_ta(true).map_err(i2s).and_then(|_| cert.verify_ta_ref(true).map(|_| None).map_err(v2s))));
            }
        }
        "ca" => {
            let iss = issuer.unwrap();
            routes.push(("validate_ca_at:relaxed", c().validate_ca_at(iss, false, now).map(Some).map_err(e2s)));
            routes.push(("inspect_ca+verify_ca_at", cert.inspect_ca(true).map_err(i2s).and_then(|_| c().verify_ca_at(iss, true, now).map(Some).map_err(v2s))));
            if wall {
                routes.push(("validate_ca", c().validate_ca(iss, true).map(Some).map_err(e2s)));
                routes.push(("inspect_ca+verify_ca", cert.inspect_ca(true).map_err(i2s).and_then(|_| c().verify_ca(iss, true).map(Some).map_err(v2s))));
            }
        }
        "ee" => {
            let iss = issuer.unwrap();
            routes.push(("validate_ee_at:relaxed", c().validate_ee_at(iss, false, now).map(Some).map_err(e2s)));
            routes.push(("inspect_ee+verify_ee_at", cert.inspect_ee(true).map_err(i2s).and_then(|_| c().verify_ee_at(iss, true, now).map(Some).map_err(v2s))));
            routes.push(("validate_detached_ee_at", c().validate_detached_ee_at(iss, true, now).map(Some).map_err(e2s)));
            if wall {
                routes.push(("validate_ee", c().validate_ee(iss, true).map(Some).map_err(e2s)));
                routes.push(("validate_detached_ee", c().validate_detached_ee(iss, true).map(Some).map_err(e2s)));
                routes.push(("inspect_ee+verify_ee", cert.inspect_ee(true).map_err(i2s).and_then(|_| c().verify_ee(iss, true).map(Some).map_err(v2s))));
            }
        }
        _ => {
            let iss = issuer.unwrap();
            routes.push(("validate_router_at:relaxed", cert.validate_router_at(iss, false, now).map(|_| None).map_err(e2s)));
            routes.push(("inspect_router+verify_router_at", cert.inspect_router(true).map_err(i2s).and_then(|_| cert.verify_router_at(iss, true, now).map(|_| None).map_err(v2s))));
            if wall {
                routes.push(("validate_router", cert.validate_router(iss, true).map(|_| None).map_err(e2s)));
                routes.push(("inspect_router+verify_router", cert.inspect_router(true).map_err(i2s).and_then(|_| cert.verify_router(iss, true).map(|_| None).map_err(v2s))));
            }
        }
    }
    for (name, r) in routes {
        match (r, want_ok) {
            (Ok(Some(rc)), true) => check_eff(&rc, eff).map_err(|m| (format!("{kind}:resources:{name}"), format!("{name}: {m}")))?,
            (Ok(None), true) | (Err(_), false) => {}
            (Ok(_), false) => return Err((format!("{kind}:accepted:{name}"), format!("{name} accepts, specification rejects"))),
            (Err(m), true) => return Err((format!("{kind}:rejected:{name}"), format!("{name} rejects ({m}), specification accepts"))),
        }
    }
    Ok(())
}

/// A pair of sets from spec/MC_ResChainOps (C03's model) realised as issuer (b) and claim (a) of real certificates.
fn run_pair(ctx: &mut Ctx, c: &Value) -> Result<(), (String, String)> {
    let blocks = |v: &Value| -> Vec<(u64, u64)> { v.as_array().unwrap().iter().map(|b| (b[0].as_u64().unwrap(), b[1].as_u64().unwrap())).collect() };
    let (a, b, inter) = (blocks(&c["a"]), blocks(&c["b"]), blocks(&c["inter"]));
    let a_in_b = c["a_in_b"].as_bool().unwrap();
    let now = time_of(1);
    let mk = |kind: &str, key: &str, sig: &str, policy: &str, raw| CertParams {
        kind: kind.into(), key: key.into(), sig_key: sig.into(), aki: if kind == "ta" { "none".into() } else { sig.into() }, ski_ok: true, tamper: "none".into(),
        nb: 0, na: 2, policy: policy.into(), v4: ResChoice { c: "missing".into(), s: vec![] }, v6: ResChoice { c: "missing".into(), s: vec![] },
        asn: ResChoice { c: "missing".into(), s: vec![] }, serial: 9, raw: Some(raw), validity: None,
    };
    for fam in [Fam::V4, Fam::As] {
        // model point p -> 16 consecutive addresses at 192.0.2.0 + 16p  /  1000 consecutive ASNs from 64496 + 1000p
        let unit = |blk: &[(u64, u64)]| -> Units { blk.iter().map(|&(lo, hi)| if fam == Fam::V4 { (0xC000_0200 + 16 * lo as u128, 0xC000_0200 + 16 * hi as u128 + 15) } else { (64496 + 1000 * lo as u128, 64496 + 1000 * hi as u128 + 999) }).collect() };
        let (ua, ub, ui) = (unit(&a), unit(&b), unit(&inter));
        let ta_raw = if fam == Fam::V4 {
            (if ub.is_empty() { IpResources::missing() } else { IpResources::blocks(ip_from_units(Fam::V4, &ub)) }, IpResources::missing(), AsResources::blocks(as_blocks(&["a1".to_string()])))
        } else {
            (IpResources::blocks(ip_blocks("v4", &["a1".to_string()])), IpResources::missing(), if ub.is_empty() { AsResources::missing() } else { AsResources::blocks(as_from_units(&ub)) })
        };
        let ta_der = build_cert(&ctx.pki, &mk("ta", "k0", "k0", "refuse", ta_raw), &ctx.router);
        let ta = Cert::decode(Bytes::from(ta_der)).map_err(|e| ("pair:setup".to_string(), e.to_string()))?
            .validate_ta_at(TalInfo::from_name("t".into()).into_arc(), true, now).map_err(|e| ("pair:setup".to_string(), e.to_string()))?;
        for policy in ["refuse", "trim"] {
            let raw = if fam == Fam::V4 {
                (if ua.is_empty() { IpResources::missing() } else { IpResources::blocks(ip_from_units(Fam::V4, &ua)) }, IpResources::missing(), AsResources::inherit())
            } else {
                (IpResources::inherit(), IpResources::missing(), if ua.is_empty() { AsResources::missing() } else { AsResources::blocks(as_from_units(&ua)) })
            };
            let der = build_cert(&ctx.pki, &mk("ca", "k1", "k0", policy, raw), &ctx.router);
            let child = Cert::decode(Bytes::from(der)).map_err(|e| ("pair:setup".to_string(), e.to_string()))?;
            let res = child.validate_ca_at(&ta, true, now);
            let famn = if fam == Fam::V4 { "v4" } else { "as" };
            let want_ok = policy == "trim" || a_in_b;
            match (res, want_ok) {
                (Err(_), false) => {}
                (Ok(_), false) => return Err((format!("pair:{famn}:overclaim-accepted"), format!("[{famn}/{policy}] issuer {b:?}, claim {a:?}: overclaiming certificate validates"))),
                (Err(e), true) => return Err((format!("pair:{famn}:rejected"), format!("[{famn}/{policy}] issuer {b:?}, claim {a:?}: rejected ({e})"))),
                (Ok(rc), true) => {
                    let got = if fam == Fam::V4 { units_of_ip(Fam::V4, rc.v4_resources()) } else { units_of_as(rc.as_resources()) };
                    let want = if policy == "refuse" { ua.clone() } else { ui.clone() };
                    if got != want {
                        return Err((format!("pair:{famn}:resources"), format!("[{famn}/{policy}] issuer {b:?}, claim {a:?}: validated resources {got:x?}, specification {want:x?}")));
                    }
                }
            }
        }
    }
    Ok(())
}

/// A claim is the union of the blocks the extension lists, however they are listed: a certificate whose list repeats part of
/// an earlier block (a block nested in its predecessor - nothing the library's own encoder writes, any other encoder may) claims
/// the whole of it.  Under an issuer that holds only the nested part it over-claims; under one that holds it all the validated
/// resources are the whole block.
fn noncanonical_claims(s: &mut Summary) {
    let rc = |c: &str, a: &[&str]| ResChoice { c: c.to_string(), s: a.iter().map(|x| x.to_string()).collect() };
    use rpki::repository::resources::{AsBlock, AsBlocks, AsResources, Asn, IpBlock, IpBlocks, IpResources, Prefix};
    let pki = Pki::new(2);
    let router = router_identity();
    let now = time_of(1);
    let asr = |a: u32, b: u32| AsBlock::from((Asn::from_u32(a), Asn::from_u32(b)));
    let v4 = |t: &str| IpBlock::from(Prefix::from_v4_str(t).unwrap());
    // (family, what the child is built with, octets to find, octets to put, the whole claim, the nested part)
    let as_built: AsBlocks = [asr(64496, 64511), AsBlock::Id(Asn::from_u32(64600))].into_iter().collect();
    let as_whole: AsBlocks = [asr(64496, 64511)].into_iter().collect();
    let as_part: AsBlocks = [asr(64496, 64500)].into_iter().collect();
    let v4_built: IpBlocks = [v4("10.0.0.0/8"), v4("12.0.0.0/16")].into_iter().collect();
    let v4_whole: IpBlocks = [v4("10.0.0.0/8")].into_iter().collect();
    let v4_part: IpBlocks = [v4("10.0.0.0/16")].into_iter().collect();
    for fam in ["as", "v4"] {
        let res = |a: &AsBlocks, b: &IpBlocks| if fam == "as" { (IpResources::missing(), IpResources::missing(), AsResources::blocks(a.clone())) } else { (IpResources::blocks(b.clone()), IpResources::missing(), AsResources::missing()) };
        let mk = |kind: &str, key: &str, sig: &str, raw| CertParams { kind: kind.into(), key: key.into(), sig_key: sig.into(), aki: if kind == "ta" { "none".into() } else { sig.into() },
            ski_ok: true, tamper: "none".into(), nb: 0, na: 2, policy: "refuse".into(), v4: rc("missing", &[]), v6: rc("missing", &[]), asn: rc("missing", &[]), serial: 9, raw: Some(raw), validity: None };
        let r = guarded(|| -> Result<(), String> {
            let child = build_cert(&pki, &mk("ca", "k1", "k0", res(&as_built, &v4_built)), &router);
            // AS64600 -> AS64500 (inside AS64496-AS64511) resp. 12.0.0.0/16 -> 10.0.0.0/16 (not 11.0.0.0/16: that touches 10.0.0.0/8 and the two would be written as one range) (inside 10.0.0.0/8), signed again
            let (from, to): (&[u8], &[u8]) = if fam == "as" { (&[0x02, 0x03, 0x00, 0xFC, 0x58], &[0x02, 0x03, 0x00, 0xFB, 0xF4]) } else { (&[0x03, 0x03, 0x00, 0x0C, 0x00], &[0x03, 0x03, 0x00, 0x0A, 0x00]) };
            let child = resign_with(&child, &pki, "k0", |tbs| {
                let pos = tbs.windows(from.len()).position(|w| w == from).expect("harness: the block to move is in the certificate");
                tbs[pos..pos + from.len()].copy_from_slice(to);
            });
            let child = match Cert::decode(Bytes::from(child)) { Ok(c) => c, Err(_) => return Ok(()) };   // refusing such a list outright is fine
            if std::env::var("VH_DEBUG").is_ok() { eprintln!("decoded child: v4 {:?} as {:?}", child.v4_resources(), child.as_resources()); }
            for (what, holds, want_ok) in [("the whole block", res(&as_whole, &v4_whole), true), ("only the nested part", res(&as_part, &v4_part), false)] {
                let ta = Cert::decode(Bytes::from(build_cert(&pki, &mk("ta", "k0", "k0", holds), &router))).map_err(|e| e.to_string())?
                    .validate_ta_at(TalInfo::from_name("t".into()).into_arc(), true, now).map_err(|e| format!("harness: TA does not validate: {e}"))?;
                match child.clone().validate_ca_at(&ta, true, now) {
                    Ok(rc) => {
                        if !want_ok { return Err(format!("accepted under an issuer that holds {what}")); }
                        let ok = if fam == "as" { rc.as_resources() == &as_whole } else { rc.v4_resources() == &v4_whole };
                        if !ok { return Err(format!("validated resources are not the claimed block: as {} v4 {}", rc.as_resources(), rc.v4_resources().as_v4())); }
                    }
                    Err(e) => if want_ok { return Err(format!("refused under an issuer that holds {what}: {e}")); },
                }
            }
            Ok(())
        });
        match r {
            Ok(Ok(())) => {}
            Ok(Err(m)) => s.violation(&format!("noncanonical:{fam}"), format!("a certificate listing a block and then a block nested in it: {m}"), json!({"fam": fam})),
            Err(m) => s.violation("panic", m, json!({"noncanonical": fam})),
        }
        s.evals(1);
    }
}

pub fn replay(args: &[String]) {
    let cases = read_cases(&args[0]);
    let mut s = Summary::new();
    noncanonical_claims(&mut s);
    let mut ctx = Ctx::new();
    let mut chain_no = 0usize;
    for c in &cases {
        if c["op"] == "pair" {
            match guarded(|| run_pair(&mut ctx, c)) {
                Ok(Ok(())) => {}
                Ok(Err((k, m))) => s.violation(&k, m, c.clone()),
                Err(m) => s.violation("panic", m, c.clone()),
            }
            s.eval_if(c["a"] != c["b"], &format!("pair{}{}", c["a"], c["b"]));
            continue;
        }
        match guarded(|| run_chain(&mut ctx, c)) {
            Ok(Ok(())) => {}
            Ok(Err((k, m))) => s.violation(&k, m, c.clone()),
            Err(m) => s.violation("panic", m, c.clone()),
        }
        // every fifth behaviour is run again with its instants moved to 1950 (UTCTime year "50") and to the 2049/2050 boundary
        if chain_no % 5 < 2 {
            let epoch = 1 + chain_no % 5;
            EPOCH.store(epoch, std::sync::atomic::Ordering::SeqCst);
            let r = guarded(|| run_chain(&mut ctx, c));
            EPOCH.store(0, std::sync::atomic::Ordering::SeqCst);
            match r {
                Ok(Ok(())) => {}
                Ok(Err((k, m))) => s.violation(&format!("{k}:epoch{epoch}"), format!("[instants at epoch {epoch}] {m}"), c.clone()),
                Err(m) => s.violation("panic", format!("[instants at epoch {epoch}] {m}"), c.clone()),
            }
            s.evals(1);
        }
        // behaviours whose evaluation instant lies strictly between two certificate times are run once more with the instants
        // placed around the wall clock, which brings in the entry points that read the clock themselves
        if c["now"].as_i64() == Some(3) && c["unit"].as_i64() == Some(2) && wall_usable() {
            EPOCH.store(3, std::sync::atomic::Ordering::SeqCst);
            let r = guarded(|| run_chain(&mut ctx, c));
            EPOCH.store(0, std::sync::atomic::Ordering::SeqCst);
            match r {
                Ok(Ok(())) => {}
                Ok(Err((k, m))) => s.violation(&format!("{k}:wallclock"), format!("[instants around the wall clock] {m}"), c.clone()),
                Err(m) => s.violation("panic", format!("[instants around the wall clock] {m}"), c.clone()),
            }
            s.count("wallclock_runs", 1);
            s.evals(1);
        }
        chain_no += 1;
        s.eval_if(c["certs"].as_array().unwrap().len() >= 2, &format!("{}", c["certs"]));
        if s.samples.len() < 3 && s.evaluations % 9001 == 77 {
            s.sample(c.clone());
        }
    }
    s.print();
}


// --------------------------------------------------------------------------
// impl -> spec: random links with large full-width resource sets
// --------------------------------------------------------------------------
use crate::reschain::{rank_map, Fam};
use rpki::repository::resources::{Addr, AsBlock, AsBlocks, AsResources, Asn, IpBlock, IpBlocks, IpResources};

type Units = Vec<(u128, u128)>;

fn rand_units(rng: &mut Rng, fam: Fam, pool: &[u128], k: u64) -> Units {
    let _ = fam;
    let mut v = Vec::new();
    for _ in 0..k {
        let (x, y) = (*rng.pick(pool), *rng.pick(pool));
        v.push(if rng.chance(1, 4) { (x, x) } else { (x.min(y), x.max(y)) });
    }
    v
}
fn ip_from_units(fam: Fam, u: &Units) -> IpBlocks {
    u.iter()
        .map(|&(lo, hi)| {
            let (lo, hi) = if fam == Fam::V4 { (lo << 96, (hi << 96) | ((1u128 << 96) - 1)) } else { (lo, hi) };
            IpBlock::from((Addr::from_bits(lo), Addr::from_bits(hi)))
        })
        .collect()
}
fn as_from_units(u: &Units) -> AsBlocks {
    u.iter().map(|&(lo, hi)| AsBlock::from((Asn::from_u32(lo as u32), Asn::from_u32(hi as u32)))).collect()
}
fn units_of_ip(fam: Fam, b: &IpBlocks) -> Units {
    b.iter().map(|x| if fam == Fam::V4 { (x.min().to_bits() >> 96, x.max().to_bits() >> 96) } else { (x.min().to_bits(), x.max().to_bits()) }).collect()
}
fn units_of_as(b: &AsBlocks) -> Units {
    b.iter().map(|x| (x.min().into_u32() as u128, x.max().into_u32() as u128)).collect()
}

pub fn drive(args: &[String]) {
    let seed = arg_u64(args, "--seed", 1);
    let n = arg_u64(args, "--n", 100);
    let out = arg_val(args, "--out").expect("--out");
    let mut rng = Rng::new(seed);
    let mut t = TraceOut::create(&out);
    let mut s = Summary::new();
    let ctx = Ctx::new();
    let now = time_of(1);
    let base = |kind: &str, key: &str, sig: &str, policy: &str, raw| CertParams {
        kind: kind.into(), key: key.into(), sig_key: sig.into(), aki: if kind == "ta" { "none".into() } else { sig.into() }, ski_ok: true, tamper: "none".into(),
        nb: 0, na: 2, policy: policy.into(), v4: ResChoice { c: "missing".into(), s: vec![] }, v6: ResChoice { c: "missing".into(), s: vec![] },
        asn: ResChoice { c: "missing".into(), s: vec![] }, serial: 7, raw: Some(raw), validity: None,
    };
    for i in 0..n {
        // value pools per family: a few anchors and their neighbourhoods
        let mut pools: Vec<Vec<u128>> = Vec::new();
        for fam in [Fam::V4, Fam::V6, Fam::As] {
            let dmax = if fam == Fam::V6 { u128::MAX } else { u32::MAX as u128 };
            let mut p = vec![0, dmax];
            for _ in 0..3 {
                let a = if fam == Fam::V6 { rng.u128() } else { rng.next() as u32 as u128 };
                for d in 0..5u128 {
                    p.push(a.saturating_add(d).min(dmax));
                    p.push(a.saturating_sub(d));
                }
                let k = rng.range(2, 12);
                p.push(a >> k << k);
                p.push(((a >> k << k) + ((1u128 << k) - 1)).min(dmax));
            }
            p.sort();
            p.dedup();
            pools.push(p);
        }
        let mut ta_u: Vec<Units> = Vec::new();
        for f in 0..3 {
            let k = rng.range(1, 5);
            ta_u.push(rand_units(&mut rng, [Fam::V4, Fam::V6, Fam::As][f], &pools[f], k));
        }
        let ta_raw = (IpResources::blocks(ip_from_units(Fam::V4, &ta_u[0])), IpResources::blocks(ip_from_units(Fam::V6, &ta_u[1])), AsResources::blocks(as_from_units(&ta_u[2])));
        let r = guarded(|| -> Result<Vec<Value>, String> {
            let ta_der = build_cert(&ctx.pki, &base("ta", "k0", "k0", "refuse", ta_raw), &ctx.router);
            let ta = Cert::decode(Bytes::from(ta_der)).map_err(|e| e.to_string())?.validate_ta_at(TalInfo::from_name("t".into()).into_arc(), true, now).map_err(|e| e.to_string())?;
            let iss: Vec<Units> = vec![units_of_ip(Fam::V4, ta.v4_resources()), units_of_ip(Fam::V6, ta.v6_resources()), units_of_as(ta.as_resources())];
            // the child: per family missing / inherit / blocks related to the issuer's holdings
            let policy = if rng.chance(1, 2) { "refuse" } else { "trim" };
            let mut kinds = Vec::new();
            let mut claims: Vec<Units> = Vec::new();
            for f in 0..3 {
                let kind = match rng.below(6) { 0 => "missing", 1 => "inherit", _ => "blocks" };
                let cl: Units = if kind != "blocks" { vec![] } else if rng.chance(2, 3) {
                    // carve the claim out of the issuer's blocks (covered), sometimes nudged outside by one
                    let mut v = Vec::new();
                    for &(lo, hi) in iss[f].iter() {
                        if !rng.chance(2, 3) { continue; }
                        let span = hi - lo;
                        // a uniformly chosen in lo..=hi, b in a..=hi (the span may be the whole 128-bit space)
                        let pick = |r: u128, width: u128| if width == u128::MAX { r } else { r % (width + 1) };
                        let a = lo + pick(rng.u128(), span);
                        let b = a + pick(rng.u128(), hi - a);
                        // mostly covered; sometimes one past the issuer's block at the upper or at the lower end
                        v.push(match rng.below(9) {
                            0 => (a, hi.saturating_add(1).min(if f == 1 { u128::MAX } else { u32::MAX as u128 })),
                            1 => (lo.saturating_sub(1), b),
                            2 => (lo.saturating_sub(rng.below(3) as u128), hi),
                            _ => (a, b),
                        });
                    }
                    v
                } else { let k = rng.range(1, 4); rand_units(&mut rng, Fam::As, &pools[f], k) };
                kinds.push(if kind == "blocks" && cl.is_empty() { "missing" } else { kind });
                claims.push(cl);
            }
            if kinds.iter().all(|k| *k == "missing") { kinds[0] = "inherit"; }
            let mk_ip = |f: usize, fam: Fam| match kinds[f] { "missing" => IpResources::missing(), "inherit" => IpResources::inherit(), _ => IpResources::blocks(ip_from_units(fam, &claims[f])) };
            let raw = (mk_ip(0, Fam::V4), mk_ip(1, Fam::V6), match kinds[2] { "missing" => AsResources::missing(), "inherit" => AsResources::inherit(), _ => AsResources::blocks(as_from_units(&claims[2])) });
            let bad_identity = rng.chance(1, 10);
            let mut cp = base("ca", "k1", if bad_identity { "k2" } else { "k0" }, policy, raw);
            cp.aki = "k0".into();
            let der = build_cert(&ctx.pki, &cp, &ctx.router);
            let child = Cert::decode(Bytes::from(der)).map_err(|e| e.to_string())?;
            // claimed sets in canonical form, as the library sees them
            let claimed: Vec<Units> = vec![
                child.v4_resources().to_blocks().map(|b| units_of_ip(Fam::V4, &b)).unwrap_or_default(),
                child.v6_resources().to_blocks().map(|b| units_of_ip(Fam::V6, &b)).unwrap_or_default(),
                child.as_resources().to_blocks().map(|b| units_of_as(&b)).unwrap_or_default(),
            ];
            let res = child.clone().validate_ca_at(&ta, true, now);
            let eff: Option<Vec<Units>> = res.as_ref().ok().map(|rc| vec![units_of_ip(Fam::V4, rc.v4_resources()), units_of_ip(Fam::V6, rc.v6_resources()), units_of_as(rc.as_resources())]);
            // per family: the link verdict is observable directly through verify_issued on the issuer's validated blocks
            let mut evs = Vec::new();
            let mut fam_ok = Vec::new();
            for f in 0..3 {
                let dmax = if f == 1 { u128::MAX } else { u32::MAX as u128 };
                let ov = if policy == "refuse" { rpki::repository::cert::Overclaim::Refuse } else { rpki::repository::cert::Overclaim::Trim };
                let (ok, e): (bool, Units) = match f {
                    0 => match ta.v4_resources().verify_issued(child.v4_resources(), ov) { Ok(b) => (true, units_of_ip(Fam::V4, &b)), Err(_) => (false, vec![]) },
                    1 => match ta.v6_resources().verify_issued(child.v6_resources(), ov) { Ok(b) => (true, units_of_ip(Fam::V6, &b)), Err(_) => (false, vec![]) },
                    _ => match ta.as_resources().verify_issued(child.as_resources(), ov) { Ok(b) => (true, units_of_as(&b)), Err(_) => (false, vec![]) },
                };
                fam_ok.push(ok);
                // when the whole certificate validated, its attached resources must be exactly these
                let attached_same = eff.as_ref().map(|x| x[f] == e).unwrap_or(true);
                let mut vals: Vec<u128> = Vec::new();
                for l in [&iss[f], &claimed[f], &e] { for &(a, b) in l.iter() { vals.push(a); vals.push(b); } }
                let Some((vs, rk)) = rank_map(0, dmax, vals) else { continue };
                let r = |v: u128| rk[vs.binary_search(&v).unwrap()];
                let ch = |u: &Units| Value::Array(u.iter().map(|&(a, b)| json!([r(a), r(b)])).collect());
                evs.push(json!({"ev": "link", "fam": f, "issuer": ch(&iss[f]), "kind": kinds[f], "claimed": ch(&claimed[f]), "policy": policy,
                    "ok": ok && attached_same, "eff": ch(&e)}));
            }
            evs.push(json!({"ev": "cert", "ok": res.is_ok(), "v4ok": fam_ok[0], "v6ok": fam_ok[1], "asok": fam_ok[2], "identity_ok": !bad_identity}));
            Ok(evs)
        });
        match r {
            Ok(Ok(evs)) => { for e in evs { t.ev(e); } s.eval(Some(&format!("{i}"))); }
            Ok(Err(_)) => s.count("links_skipped_setup", 1),
            Err(m) => s.violation("trace:panic", m, json!({"seed": seed, "i": i})),
        }
    }
    s.sample(json!({"seed": seed, "links": n}));
    s.set("events", json!(t.finish()));
    s.print();
}
