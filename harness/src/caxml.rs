//! C11 — binds spec/CaXml*.tla to the XML of the CA protocols (RFC 6492, 8181, 8183).
use crate::common::*;
use crate::pki::*;
use bytes::Bytes;
use rpki::ca::csr::RpkiCaCsr;
use rpki::ca::idcert::IdCert;
use rpki::ca::idexchange::{ChildRequest, Handle, ParentResponse, PublisherRequest, RepositoryResponse, ServiceUri};
use rpki::ca::provisioning as prov;
use rpki::ca::publication as publ;
use rpki::ca::publication::Base64;
use rpki::repository::cert::{Cert, KeyUsage, Overclaim, TbsCert};
use rpki::repository::resources::{AsBlocks, AsResources, IpBlocks, IpResources, Ipv4Blocks, Ipv6Blocks, ResourceSet};
use rpki::repository::x509::{Serial, Time, Validity};
use rpki::rrdp::Hash;
use rpki::uri;
use serde_json::{json, Value};
use std::str::FromStr;

// ------------------------------------------------------------------------------------------------
// An independent scanner for the XML subset the writers produce. It accepts exactly well-formed
// documents of that subset (elements, double-quoted attributes, character data, the five predefined
// entities and numeric references) and rejects everything else.
#[derive(Debug, Clone)]
pub struct Node {
    pub name: String,
    /// (name, raw text between the quotes, value after entity replacement)
    pub attrs: Vec<(String, String, String)>,
    pub children: Vec<Node>,
    pub text: String,
}

struct Scan<'a> {
    b: &'a [u8],
    p: usize,
    /// accept characters XML cannot carry at all (C0 controls): used when the value under test came from a mutated document
    lenient: bool,
}

fn is_name_start(c: u8) -> bool {
    c.is_ascii_alphabetic() || c == b'_' || c == b':'
}
fn is_name(c: u8) -> bool {
    is_name_start(c) || c.is_ascii_digit() || c == b'-' || c == b'.'
}

impl<'a> Scan<'a> {
    fn err<T>(&self, m: &str) -> Result<T, String> {
        Err(format!("{m} at byte {}", self.p))
    }
    fn peek(&self) -> Option<u8> {
        self.b.get(self.p).copied()
    }
    fn ws(&mut self) {
        while matches!(self.peek(), Some(b' ' | b'\n' | b'\t' | b'\r')) {
            self.p += 1;
        }
    }
    fn name(&mut self) -> Result<String, String> {
        let s = self.p;
        match self.peek() {
            Some(c) if is_name_start(c) => self.p += 1,
            _ => return self.err("name expected"),
        }
        while matches!(self.peek(), Some(c) if is_name(c)) {
            self.p += 1;
        }
        Ok(String::from_utf8_lossy(&self.b[s..self.p]).into_owned())
    }
    /// character data up to `stop`; returns (raw, replaced)
    fn chars(&mut self, stop: u8, in_attr: bool) -> Result<(String, String), String> {
        let s = self.p;
        let mut out = String::new();
        loop {
            let c = match self.peek() {
                None => return self.err("unexpected end"),
                Some(c) => c,
            };
            if c == stop {
                break;
            }
            if c == b'<' {
                return self.err("raw '<' in character data");
            }
            if c < 0x20 && !(c == 9 || c == 10 || c == 13) && !self.lenient {
                return self.err("control character");
            }
            if c >= 0x80 {
                // the writers only ever produce ASCII; accept well-formed UTF-8 here
                let rest = &self.b[self.p..];
                let n = match std::str::from_utf8(&rest[..rest.len().min(4)]) {
                    Ok(s) => s.chars().next().map(|c| c.len_utf8()).unwrap_or(0),
                    Err(e) if e.valid_up_to() > 0 => std::str::from_utf8(&rest[..e.valid_up_to()]).unwrap().chars().next().unwrap().len_utf8(),
                    _ => return self.err("invalid UTF-8"),
                };
                out.push_str(std::str::from_utf8(&rest[..n]).unwrap());
                self.p += n;
                continue;
            }
            if c == b'&' {
                let e = self.p;
                let semi = match self.b[e..].iter().position(|x| *x == b';') {
                    Some(k) if k <= 10 => e + k,
                    _ => return self.err("unterminated entity reference"),
                };
                let name = &self.b[e + 1..semi];
                let ch = match name {
                    b"lt" => '<',
                    b"gt" => '>',
                    b"amp" => '&',
                    b"quot" => '"',
                    b"apos" => '\'',
                    n if n.first() == Some(&b'#') => {
                        let t = std::str::from_utf8(&n[1..]).map_err(|_| "bad reference".to_string())?;
                        let v = if let Some(h) = t.strip_prefix('x') { u32::from_str_radix(h, 16) } else { t.parse::<u32>() };
                        match v.ok().and_then(char::from_u32) {
                            Some(c) => c,
                            None => return self.err("bad numeric reference"),
                        }
                    }
                    _ => return self.err("unknown entity"),
                };
                out.push(ch);
                self.p = semi + 1;
                continue;
            }
            if !in_attr && c == b'>' && self.p >= 2 && &self.b[self.p - 2..self.p] == b"]]" {
                return self.err("']]>' in character data");
            }
            out.push(c as char);
            self.p += 1;
        }
        Ok((String::from_utf8_lossy(&self.b[s..self.p]).into_owned(), out))
    }
    fn element(&mut self, depth: usize) -> Result<Node, String> {
        if depth > 64 {
            return self.err("too deep");
        }
        if self.peek() != Some(b'<') {
            return self.err("'<' expected");
        }
        self.p += 1;
        let name = self.name()?;
        let mut attrs: Vec<(String, String, String)> = vec![];
        loop {
            let before = self.p;
            self.ws();
            match self.peek() {
                Some(b'/') => {
                    self.p += 1;
                    if self.peek() != Some(b'>') {
                        return self.err("'>' expected");
                    }
                    self.p += 1;
                    return Ok(Node { name, attrs, children: vec![], text: String::new() });
                }
                Some(b'>') => {
                    self.p += 1;
                    break;
                }
                Some(c) if is_name_start(c) => {
                    if before == self.p {
                        return self.err("whitespace expected before attribute");
                    }
                    let an = self.name()?;
                    if self.peek() != Some(b'=') {
                        return self.err("'=' expected");
                    }
                    self.p += 1;
                    if self.peek() != Some(b'"') {
                        return self.err("'\"' expected");
                    }
                    self.p += 1;
                    let (raw, val) = self.chars(b'"', true)?;
                    self.p += 1;
                    if attrs.iter().any(|a| a.0 == an) {
                        return self.err("duplicate attribute");
                    }
                    attrs.push((an, raw, val));
                }
                _ => return self.err("malformed start tag"),
            }
        }
        let mut children = vec![];
        let mut text = String::new();
        loop {
            let (_, t) = self.chars(b'<', false)?;
            text.push_str(&t);
            if self.b[self.p..].starts_with(b"</") {
                self.p += 2;
                let en = self.name()?;
                if en != name {
                    return self.err("mismatched end tag");
                }
                self.ws();
                if self.peek() != Some(b'>') {
                    return self.err("'>' expected");
                }
                self.p += 1;
                return Ok(Node { name, attrs, children, text: text.trim().to_string() });
            }
            children.push(self.element(depth + 1)?);
        }
    }
}

pub fn scan(doc: &[u8]) -> Result<Node, String> {
    scan_with(doc, false)
}

pub fn scan_with(doc: &[u8], lenient: bool) -> Result<Node, String> {
    let mut s = Scan { b: doc, p: 0, lenient };
    s.ws();
    let n = s.element(0)?;
    s.ws();
    if s.p != doc.len() {
        return s.err("content after the root element");
    }
    Ok(n)
}

fn find<'n>(n: &'n Node, elem: &str, attr: &str) -> Option<&'n (String, String, String)> {
    if n.name == elem {
        if let Some(a) = n.attrs.iter().find(|a| a.0 == attr) {
            return Some(a);
        }
    }
    n.children.iter().find_map(|c| find(c, elem, attr))
}

// ------------------------------------------------------------------------------------------------
pub struct Ctx {
    pub pki: Pki,
    id_cert: Base64,
    issuer: Cert,
    issued: Vec<Cert>,
    csr: RpkiCaCsr,
}

fn res_cert(pki: &Pki, subject: &str, serial: u64) -> Cert {
    let pk = pki.pubkey(subject);
    let mut tbs = TbsCert::new(Serial::from(serial), pki.pubkey("k0").to_subject_name(),
                               Validity::new(Time::utc(2024, 1, 1, 0, 0, 0), Time::utc(2034, 1, 1, 0, 0, 0)), None, pk, KeyUsage::Ca, Overclaim::Refuse);
    tbs.set_basic_ca(Some(true));
    tbs.set_authority_key_identifier(Some(pki.pubkey("k0").key_identifier()));
    tbs.set_ca_repository(Some(rsync("rsync://repo.example/m/ca/")));
    tbs.set_rpki_manifest(Some(rsync("rsync://repo.example/m/ca/ca.mft")));
    tbs.set_v4_resources(IpResources::blocks(IpBlocks::all()));
    tbs.set_as_resources(AsResources::blocks(AsBlocks::all()));
    tbs.into_cert(&pki.signer, &pki.key("k0")).unwrap()
}

impl Ctx {
    pub fn new() -> Self {
        let pki = Pki::new(3);
        let v = Validity::new(Time::utc(2024, 1, 1, 0, 0, 0), Time::utc(2034, 1, 1, 0, 0, 0));
        let id = IdCert::new_ta(v, &pki.key("k0"), &pki.signer).unwrap();
        let id_cert = Base64::from_content(&id.to_captured().into_bytes());
        let issuer = res_cert(&pki, "k0", 1);
        // (the second certificate is a very large object: 20 000 single addresses, about 190 KiB of DER - whatever an encoder does
        // in blocks it does more than once here)
        let mut issued = vec![res_cert(&pki, "k1", 2), res_cert(&pki, "k2", 3), res_cert(&pki, "e0", 4)];
        issued[1] = {
            let pk = pki.pubkey("k2");
            let mut tbs = TbsCert::new(Serial::from(3u64), pki.pubkey("k0").to_subject_name(),
                                       Validity::new(Time::utc(2024, 1, 1, 0, 0, 0), Time::utc(2034, 1, 1, 0, 0, 0)), None, pk, KeyUsage::Ca, Overclaim::Refuse);
            tbs.set_basic_ca(Some(true));
            tbs.set_authority_key_identifier(Some(pki.pubkey("k0").key_identifier()));
            tbs.set_ca_repository(Some(rsync("rsync://repo.example/m/ca/")));
            tbs.set_rpki_manifest(Some(rsync("rsync://repo.example/m/ca/ca.mft")));
            let blocks: IpBlocks = (0..20_000u32).map(|i| rpki::repository::resources::IpBlock::from(
                rpki::repository::resources::Prefix::new(std::net::Ipv4Addr::from(0x0A00_0001u32 + 2 * i), 32))).collect();
            tbs.set_v4_resources(IpResources::blocks(blocks));
            tbs.into_cert(&pki.signer, &pki.key("k0")).unwrap()
        };
        let csr = rpki::ca::csr::Csr::<(), ()>::construct_rpki_ca(&pki.signer, &pki.key("k1"), &rsync("rsync://repo.example/m/ca/"),
                                                                  &rsync("rsync://repo.example/m/ca/ca.mft"), None).unwrap();
        let csr = RpkiCaCsr::decode(csr.into_bytes()).unwrap();
        Ctx { pki, id_cert, issuer, issued, csr }
    }
}

/// The field values of one message: `focus` holds `val`, everything else its default.
pub struct Parts {
    pub variant: String,
    pub focus: String,
    pub val: String,
    pub shape: usize,
    pub opt: bool,
    /// when set, every free/uri field gets a derived random value instead of the default (trace driver)
    pub noise: Option<Vec<String>>,
}

impl Parts {
    fn f(&self, name: &str, default: &str) -> String {
        if self.focus == name {
            return self.val.clone();
        }
        if let Some(n) = &self.noise {
            // deterministic pick per field name
            let k = name.bytes().fold(7usize, |a, b| a.wrapping_mul(31).wrapping_add(b as usize)) % n.len();
            return match name {
                "tag" | "class_name" => n[k].clone(),
                "service_uri" => format!("http://host.example/up/{}", n[k]),
                _ => default.to_string(),
            };
        }
        default.to_string()
    }
    fn tag(&self) -> Option<String> {
        if self.opt || self.focus == "tag" { Some(self.f("tag", "tag-1")) } else { None }
    }
}

/// a writer that takes at most `0` octets per call / a reader that gives three
pub static SHORT_WRITE_REFUSED: std::sync::atomic::AtomicU64 = std::sync::atomic::AtomicU64::new(0);
pub struct Pieces(pub usize, pub Vec<u8>);
impl std::io::Write for Pieces {
    fn write(&mut self, buf: &[u8]) -> std::io::Result<usize> {
        let n = buf.len().min(self.0);
        self.1.extend_from_slice(&buf[..n]);
        Ok(n)
    }
    fn flush(&mut self) -> std::io::Result<()> { Ok(()) }
}
pub struct Dribble<'a>(pub &'a [u8]);
impl std::io::Read for Dribble<'_> {
    fn read(&mut self, buf: &mut [u8]) -> std::io::Result<usize> {
        let k: usize = std::env::var("VH_DRIB").ok().and_then(|x| x.parse().ok()).unwrap_or(3);
        let n = buf.len().min(k).min(self.0.len());
        buf[..n].copy_from_slice(&self.0[..n]);
        self.0 = &self.0[n..];
        Ok(n)
    }
}

pub enum Msg {
    Child(ChildRequest),
    Parent(ParentResponse),
    Publisher(PublisherRequest),
    Repo(RepositoryResponse),
    Prov(prov::Message),
    Publ(publ::Message),
}

impl Msg {
    pub fn to_xml(&self) -> Vec<u8> {
        let whole = match self {
            Msg::Child(m) => m.to_xml_vec(),
            Msg::Parent(m) => m.to_xml_vec(),
            Msg::Publisher(m) => m.to_xml_vec(),
            Msg::Repo(m) => m.to_xml_vec(),
            Msg::Prov(m) => m.to_xml_bytes().to_vec(),
            Msg::Publ(m) => m.to_xml_bytes().to_vec(),
        };
        // every way out says the same: the text form is these octets
        let text = match self {
            Msg::Child(m) => m.to_xml_string(),
            Msg::Parent(m) => m.to_xml_string(),
            Msg::Publisher(m) => m.to_xml_string(),
            Msg::Repo(m) => m.to_xml_string(),
            Msg::Prov(m) => m.to_xml_string(),
            Msg::Publ(m) => m.to_xml_string(),
        };
        if text.as_bytes() != &whole[..] { return text.into_bytes(); }
        // the same document through a writer that takes five octets per call (a socket, a pipe); when the two differ the odd one
        // out is handed on, so that whoever reads it notices
        let mut w = Pieces(5, Vec::new());
        let ok = match self {
            Msg::Child(m) => m.write_xml(&mut w).is_ok(),
            Msg::Parent(m) => m.write_xml(&mut w).is_ok(),
            Msg::Publisher(m) => m.write_xml(&mut w).is_ok(),
            Msg::Repo(m) => m.write_xml(&mut w).is_ok(),
            Msg::Prov(m) => m.write_xml(&mut w).is_ok(),
            Msg::Publ(m) => m.write_xml(&mut w).is_ok(),
        };
        // A refusal is the writer's to give (observed: every message with BASE64 content is refused with WriteZero by such a sink -
        // base64's EncoderWriter answers Ok(0) while it drains its buffer and is driven with write_all; DESIGN 8.5); what must not
        // happen is a document that claims to be written and is not the document.
        if !ok { SHORT_WRITE_REFUSED.fetch_add(1, std::sync::atomic::Ordering::SeqCst); return whole; }
        if w.1 != whole { return w.1; }
        whole
    }
    /// parse `xml` with the parser of the same family; Ok(equal to self?)
    pub fn reparse(&self, xml: &[u8]) -> Result<bool, String> {
        // ... once more through a reader that delivers three octets at a time behind a seven-octet buffer
        let piecewise = {
            let cap: usize = std::env::var("VH_CAP").ok().and_then(|x| x.parse().ok()).unwrap_or(7);
            let rd = || std::io::BufReader::with_capacity(cap, Dribble(xml));
            match self {
                Msg::Child(m) => ChildRequest::parse(rd()).map(|x| &x == m).map_err(|e| e.to_string()),
                Msg::Parent(m) => ParentResponse::parse(rd()).map(|x| &x == m).map_err(|e| e.to_string()),
                Msg::Publisher(m) => PublisherRequest::parse(rd()).map(|x| &x == m).map_err(|e| e.to_string()),
                Msg::Repo(m) => RepositoryResponse::parse(rd()).map(|x| &x == m).map_err(|e| e.to_string()),
                Msg::Prov(m) => prov::Message::decode(rd()).map(|x| &x == m).map_err(|e| e.to_string()),
                Msg::Publ(m) => publ::Message::decode(rd()).map(|x| &x == m).map_err(|e| e.to_string()),
            }
        };
        match piecewise { Ok(true) => {} Ok(false) => return Ok(false), Err(m) => return Err(format!("read in pieces: {m}")) }
        Ok(match self {
            Msg::Child(m) => &ChildRequest::parse(xml).map_err(|e| e.to_string())? == m,
            Msg::Parent(m) => &ParentResponse::parse(xml).map_err(|e| e.to_string())? == m,
            Msg::Publisher(m) => &PublisherRequest::parse(xml).map_err(|e| e.to_string())? == m,
            Msg::Repo(m) => &RepositoryResponse::parse(xml).map_err(|e| e.to_string())? == m,
            Msg::Prov(m) => &prov::Message::decode(xml).map_err(|e| e.to_string())? == m,
            Msg::Publ(m) => &publ::Message::decode(xml).map_err(|e| e.to_string())? == m,
        })
    }
    fn dbg(&self) -> String {
        match self {
            Msg::Child(m) => format!("{m:?}"),
            Msg::Parent(m) => format!("{m:?}"),
            Msg::Publisher(m) => format!("{m:?}"),
            Msg::Repo(m) => format!("{m:?}"),
            Msg::Prov(m) => format!("{m:?}").chars().take(600).collect(),
            Msg::Publ(m) => format!("{m:?}").chars().take(600).collect(),
        }
    }
}

/// parse with the family parser `which`
pub fn parse_as(which: usize, xml: &[u8]) -> Result<Msg, String> {
    match which {
        0 => ChildRequest::parse(xml).map(Msg::Child).map_err(|e| e.to_string()),
        1 => ParentResponse::parse(xml).map(Msg::Parent).map_err(|e| e.to_string()),
        2 => PublisherRequest::parse(xml).map(Msg::Publisher).map_err(|e| e.to_string()),
        3 => RepositoryResponse::parse(xml).map(Msg::Repo).map_err(|e| e.to_string()),
        4 => prov::Message::decode(xml).map(Msg::Prov).map_err(|e| e.to_string()),
        _ => publ::Message::decode(xml).map(Msg::Publ).map_err(|e| e.to_string()),
    }
}

fn family(variant: &str) -> usize {
    match variant {
        "child_request" => 0,
        "parent_response" => 1,
        "publisher_request" => 2,
        "repository_response" => 3,
        v if v.starts_with("prov_") => 4,
        _ => 5,
    }
}

/// A handle is protocol-valid when it has 1 to 255 characters out of [-_A-Za-z0-9/] (RFC 8183); such a handle is built with the
/// unchecked constructor, so that the message layer is tested with every protocol-valid value whatever `from_str` thinks of it.
fn handle<T>(s: &str) -> Result<Handle<T>, String> {
    if (1..=255).contains(&s.len()) && s.bytes().all(|b| b.is_ascii_alphanumeric() || b == b'-' || b == b'_' || b == b'/') {
        Ok(Handle::new(s.into()))
    } else {
        Err("not a protocol-valid handle".into())
    }
}

fn resource_set(k: usize) -> ResourceSet {
    match k % 4 {
        0 => ResourceSet::from_strs("AS64496, AS65000-AS65010", "10.0.0.0/8, 192.168.0.0-192.168.0.7", "2001:db8::/32").unwrap(),
        1 => ResourceSet::empty(),
        2 => ResourceSet::from_strs("AS0-AS4294967295", "0.0.0.0/0", "::/0").unwrap(),
        _ => ResourceSet::from_strs("", "10.0.0.1-10.0.0.2", "").unwrap(),
    }
}

fn limit(k: usize, opt: bool) -> prov::RequestResourceLimit {
    let mut l = prov::RequestResourceLimit::new();
    if opt {
        match k % 5 {
            // a limit to the empty set is a limit ("none of that kind"), not the absence of one
            3 => l.with_asn(AsBlocks::empty()),
            4 => {
                l.with_asn(AsBlocks::empty());
                l.with_ipv4(Ipv4Blocks::empty());
                l.with_ipv6(Ipv6Blocks::empty());
            }
            0 => l.with_asn(AsBlocks::from_str("AS64496").unwrap()),
            1 => {
                l.with_ipv4(Ipv4Blocks::from_str("10.0.0.0/24, 10.1.0.0-10.1.0.9").unwrap());
                l.with_ipv6(Ipv6Blocks::from_str("2001:db8::/48").unwrap());
            }
            _ => {
                l.with_asn(AsBlocks::from_str("AS1-AS5").unwrap());
                l.with_ipv4(Ipv4Blocks::from_str("192.0.2.0/24").unwrap());
                l.with_ipv6(Ipv6Blocks::from_str("::/0").unwrap());
            }
        }
    }
    l
}

pub fn build(ctx: &Ctx, p: &Parts) -> Result<Msg, String> {
    let idc = ctx.id_cert.clone();
    let sender = handle(&p.f("sender", "child/ca-1"))?;
    let recipient = handle(&p.f("recipient", "Parent_CA-2"))?;
    let sender = || sender.clone();
    let recipient = || recipient.clone();
    let svc = |d: &str| ServiceUri::from_str(&p.f("service_uri", d)).map_err(|e| format!("service uri refused: {e}"));
    let ruri = |name: &str, d: &str| uri::Rsync::from_str(&p.f(name, d)).map_err(|e| format!("{name} refused: {e}"));
    let not_after = Time::utc(2031, 5, 6, 7, 8, 9);
    let first_issued = std::cell::Cell::new(true);
    let class = |k: usize| -> Result<prov::ResourceClassEntitlements, String> {
        let issued = (0..(k + p.shape) % 3).map(|i| -> Result<prov::IssuedCert, String> {
            Ok(prov::IssuedCert::new(ruri(if first_issued.replace(false) { "issued_cert_url" } else { "-" }, &format!("rsync://host.example/module/dir/c{i}.cer"))?,
                                     limit(i + k, p.opt), ctx.issued[i].clone()))
        }).collect::<Result<Vec<_>, _>>()?;
        Ok(prov::ResourceClassEntitlements::new(
            prov::ResourceClassName::from(if k == 0 { p.f("class_name", "class-0") } else { format!("rc{k}") }),
            resource_set(k), not_after, issued,
            prov::SigningCert::new(ruri(if k == 0 { "cert_url" } else { "-" }, "rsync://host.example/module/dir/issuer.cer")?, ctx.issuer.clone())))
    };
    Ok(match p.variant.as_str() {
        "child_request" => {
            if p.tag().is_some() {
                // the tag of a child request can only be set through the serde interface
                let v = json!({"id_cert": idc.as_str(), "child_handle": p.f("child_handle", "child/ca-1"), "tag": p.tag()});
                Msg::Child(serde_json::from_value(v).map_err(|e| e.to_string())?)
            } else {
                Msg::Child(ChildRequest::new(idc, handle(&p.f("child_handle", "child/ca-1"))?))
            }
        }
        "parent_response" => Msg::Parent(ParentResponse::new(idc, handle(&p.f("parent_handle", "Parent_CA-2"))?, handle(&p.f("child_handle", "child/ca-1"))?,
                                                             svc("https://host.example/up/down/")?, p.tag())),
        "publisher_request" => Msg::Publisher(PublisherRequest::new(idc, handle(&p.f("publisher_handle", "pub-1"))?, p.tag())),
        "repository_response" => {
            let notify = if p.opt || p.focus == "rrdp_notification_uri" {
                Some(uri::Https::from_str(&p.f("rrdp_notification_uri", "https://host.example/rrdp/notification.xml")).map_err(|e| format!("notify refused: {e}"))?)
            } else { None };
            Msg::Repo(RepositoryResponse::new(idc, handle(&p.f("publisher_handle", "pub-1"))?, svc("https://host.example/publish/")?,
                                              ruri("sia_base", "rsync://host.example/module/pub-1/")?, notify, p.tag()))
        }
        "prov_list" => Msg::Prov(prov::Message::list(sender(), recipient())),
        "prov_list_response" => {
            let classes = (0..p.shape).map(class).collect::<Result<Vec<_>, _>>()?;
            Msg::Prov(prov::Message::list_response(sender(), recipient(), prov::ResourceClassListResponse::new(classes)))
        }
        "prov_issue" => Msg::Prov(prov::Message::issue(sender(), recipient(), prov::IssuanceRequest::new(
            prov::ResourceClassName::from(p.f("class_name", "class-0")), limit(p.shape, p.opt), ctx.csr.clone()))),
        "prov_issue_response" => {
            let c = class(0)?;
            let issued = prov::IssuedCert::new(ruri("issued_cert_url", "rsync://host.example/module/dir/c0.cer")?, limit(1, p.opt), ctx.issued[0].clone());
            Msg::Prov(prov::Message::issue_response(sender(), recipient(), prov::IssuanceResponse::new(
                c.class_name().clone(), c.resource_set().clone(), c.not_after(), issued, c.signing_cert().clone())))
        }
        "prov_revoke" | "prov_revoke_response" => {
            let req = prov::RevocationRequest::new(prov::ResourceClassName::from(p.f("class_name", "class-0")), ctx.pki.pubkey("k1").key_identifier());
            if p.variant == "prov_revoke" {
                Msg::Prov(prov::Message::revoke(sender(), recipient(), req))
            } else {
                Msg::Prov(prov::Message::revoke_response(sender(), recipient(), prov::RevocationResponse::from(&req)))
            }
        }
        "prov_error_response" => {
            use prov::NotPerformedResponse as N;
            let all = [N::err_1101(), N::err_1102(), N::err_1103(), N::err_1104(), N::err_1201(), N::err_1202(), N::err_1203(), N::err_1204(),
                       N::err_1301(), N::err_1302(), N::err_2001()];
            let e = all[(p.shape * 3 + p.opt as usize) % all.len()].clone();
            Msg::Prov(prov::Message::not_performed_response(sender(), recipient(), e).map_err(|e| e.to_string())?)
        }
        "pub_list_query" => Msg::Publ(publ::Message::list_query()),
        "pub_success" => Msg::Publ(publ::Message::success()),
        "pub_list_reply" => {
            let els = (0..p.shape).map(|i| -> Result<publ::ListElement, String> {
                Ok(publ::ListElement::new(ruri(if i == 0 { "uri" } else { "-" }, &format!("rsync://host.example/module/dir/o{i}.roa"))?, Hash::from_data(&[i as u8])))
            }).collect::<Result<Vec<_>, _>>()?;
            Msg::Publ(publ::Message::list_reply(publ::ListReply::new(els)))
        }
        "pub_delta" => {
            let mut d = publ::PublishDelta::empty();
            for i in 0..p.shape {
                let u = ruri(if i == 0 { "uri" } else { "-" }, &format!("rsync://host.example/module/dir/o{i}.roa"))?;
                // RFC 8181: the tag attribute is mandatory; a missing tag (None) has no protocol representation and is written as ""
                let tag = if i == 0 { Some(p.tag().unwrap_or_default()) } else if p.opt { Some(format!("t{i}")) } else { Some(String::new()) };
                let content = Base64::from_content(&vec![0xA0 + i as u8; [1usize, 57, 58, 3000][(i + p.opt as usize) % 4]]);
                match (i + p.opt as usize) % 3 {
                    0 => d.add_publish(publ::Publish::new(tag, u, content)),
                    1 => d.add_update(publ::Update::new(tag, u, content, Hash::from_data(b"old"))),
                    _ => d.add_withdraw(publ::Withdraw::new(tag, u, Hash::from_data(b"gone"))),
                }
            }
            Msg::Publ(publ::Message::delta(d))
        }
        "pub_error_reply" => {
            use publ::ReportErrorCode as C;
            let codes = [C::XmlError, C::PermissionFailure, C::BadCmsSignature, C::ObjectAlreadyPresent, C::NoObjectPresent, C::NoObjectMatchingHash,
                         C::ConsistencyProblem, C::OtherError];
            let mut r = publ::ErrorReply::empty();
            // an error reply carries at least one report (RFC 8181 3.5)
            for i in 0..p.shape.max(1) {
                r.add_error(publ::ReportError::with_code(codes[(i * 3 + p.opt as usize * 4 + p.shape) % codes.len()].clone()));
            }
            Msg::Publ(publ::Message::error(r))
        }
        v => return Err(format!("unknown variant {v}")),
    })
}

/// the element/attribute a model field is written to
fn xml_place(variant: &str, field: &str) -> Option<(&'static str, &'static str)> {
    Some(match (variant, field) {
        ("child_request", "tag") => ("child_request", "tag"),
        ("parent_response", "tag") => ("parent_response", "tag"),
        ("parent_response", "service_uri") => ("parent_response", "service_uri"),
        ("publisher_request", "tag") => ("publisher_request", "tag"),
        ("repository_response", "tag") => ("repository_response", "tag"),
        ("repository_response", "service_uri") => ("repository_response", "service_uri"),
        ("repository_response", "sia_base") => ("repository_response", "sia_base"),
        ("repository_response", "rrdp_notification_uri") => ("repository_response", "rrdp_notification_uri"),
        ("child_request", "child_handle") => ("child_request", "child_handle"),
        ("parent_response", "child_handle") => ("parent_response", "child_handle"),
        ("parent_response", "parent_handle") => ("parent_response", "parent_handle"),
        ("publisher_request", "publisher_handle") => ("publisher_request", "publisher_handle"),
        ("repository_response", "publisher_handle") => ("repository_response", "publisher_handle"),
        (_, "sender") => ("message", "sender"),
        (_, "recipient") => ("message", "recipient"),
        (_, "class_name") if variant == "prov_issue" => ("request", "class_name"),
        (_, "class_name") if variant.starts_with("prov_revoke") => ("key", "class_name"),
        (_, "class_name") => ("class", "class_name"),
        (_, "cert_url") => ("class", "cert_url"),
        (_, "issued_cert_url") => ("certificate", "cert_url"),
        ("pub_list_reply", "uri") => ("list", "uri"),
        ("pub_delta", "uri") => ("*", "uri"),
        ("pub_delta", "tag") => ("*", "tag"),
        _ => return None,
    })
}

fn find_any<'n>(n: &'n Node, attr: &str) -> Option<&'n (String, String, String)> {
    if let Some(a) = n.attrs.iter().find(|a| a.0 == attr) {
        if n.name != "msg" && n.name != "message" {
            return Some(a);
        }
    }
    n.children.iter().find_map(|c| find_any(c, attr))
}

fn toks(v: &Value) -> String {
    // the token "x254" stands for 254 letters, "x1023" for 1023
    v.as_array().unwrap().iter().map(|x| match x.as_str().unwrap() { "x254" => "b".repeat(254), "x1023" => "c".repeat(1023), t => t.to_string() }).collect()
}

type R<T> = Result<T, (String, String)>;
fn e<T>(k: impl Into<String>, m: impl std::fmt::Display) -> R<T> {
    Err((k.into(), m.to_string()))
}

/// `{op:"esc"}`: the library's escaping of one value, through the public writer
fn run_esc(c: &Value, s: &mut Summary) -> R<()> {
    use rpki::xml::encode::Writer;
    use rpki::xml::decode::{Name, Reader};
    const EL: Name = Name::unqualified(b"e");
    let (mode, value, raw, expect) = (c["mode"].as_str().unwrap(), toks(&c["value"]), toks(&c["raw"]), toks(&c["expect"]));
    let mut buf = Vec::new();
    {
        let mut w = Writer::new(&mut buf);
        if mode == "attr" {
            w.element(EL).and_then(|x| x.attr("v", value.as_str())).map(|_| ()).map_err(|x| ("esc:io".to_string(), x.to_string()))?;
        } else {
            w.element(EL).and_then(|x| x.content(|ct| ct.pcdata(value.as_str()))).map(|_| ()).map_err(|x| ("esc:io".to_string(), x.to_string()))?;
        }
        w.done().map_err(|x| ("esc:io".to_string(), x.to_string()))?;
    }
    let doc = String::from_utf8_lossy(&buf).into_owned();
    let got_raw = if mode == "attr" {
        doc.strip_prefix("<e v=\"").and_then(|s| s.strip_suffix("\"/>")).map(|s| s.to_string())
    } else {
        doc.strip_prefix("<e>\n  ").and_then(|s| s.strip_suffix("\n</e>")).map(|s| s.to_string())
    };
    let got_raw = match got_raw {
        Some(r) => r,
        None => return e(format!("esc:{mode}:frame"), format!("unexpected document {doc:?}")),
    };
    if got_raw != raw {
        // another correct escaping (e.g. numeric references, no &apos; inside double quotes) is fine; what counts is reading back
        s.count("written_form_differs_from_reference_writer", 1);
    }
    // the independent reader agrees with the model's Read
    match scan(&buf) {
        Ok(n) => {
            let back = if mode == "attr" { n.attrs[0].2.clone() } else { n.text.clone() };
            if back != expect.trim() && !(mode == "attr" && back == expect) {
                return e(format!("esc:{mode}:scan"), format!("value {value:?} written as {doc:?} reads back as {back:?}, the specification says {expect:?}"));
            }
        }
        Err(m) => return e(format!("esc:{mode}:wellformed"), format!("value {value:?} written as {doc:?}: {m}")),
    }
    // the library's own reader
    if mode == "attr" {
        let mut r = Reader::new(&buf[..]);
        let mut got: Option<String> = None;
        let res = r.start(|el| el.attributes(|_, v| { got = Some(v.ascii_into::<String>()?); Ok::<(), rpki::xml::decode::Error>(()) }));
        if res.is_err() || got.as_deref() != Some(expect.as_str()) {
            return e("esc:attr:library-read", format!("value {value:?} written as {doc:?} is read by the library as {got:?} ({:?})", res.err().map(|x| x.to_string())));
        }
    }
    Ok(())
}

fn parts_of(c: &Value) -> Parts {
    Parts {
        variant: c["variant"].as_str().unwrap().to_string(),
        focus: c["focus"].as_str().unwrap().to_string(),
        val: toks(&c["value"]),
        shape: c["shape"].as_u64().unwrap() as usize,
        opt: c["opt"].as_bool().unwrap(),
        noise: None,
    }
}

/// checks on one written message; returns the scanned tree
fn check_written(p: &Parts, msg: &Msg, xml: &[u8], expect: &str, raw_expected: Option<&str>, s: &mut Summary) -> R<Node> {
    let v = &p.variant;
    let tree = match scan(xml) {
        Ok(t) => t,
        Err(m) => return e(format!("msg:{v}:wellformed:{}", p.focus), format!("not well-formed ({m}): {:?}", String::from_utf8_lossy(xml))),
    };
    if p.focus != "none" {
        if let Some((el, at)) = xml_place(v, &p.focus) {
            let a = if el == "*" { find_any(&tree, at) } else { find(&tree, el, at) };
            match a {
                None => {
                    if p.shape > 0 {
                        return e(format!("msg:{v}:missing-attr:{}", p.focus), format!("attribute {at} of <{el}> not written: {:?}", String::from_utf8_lossy(xml)));
                    }
                }
                Some((_, raw, val)) => {
                    if val != expect {
                        return e(format!("msg:{v}:attr-value:{}", p.focus), format!("field {:?} reads back from the document as {val:?} (raw {raw:?}), the specification says {expect:?}", p.val));
                    }
                    if let Some(x) = raw_expected {
                        if raw != x {
                            s.count("written_form_differs_from_reference_writer", 1);
                        }
                    }
                }
            }
        }
    }
    match msg.reparse(xml) {
        Ok(true) => Ok(tree),
        Ok(false) => e(format!("msg:{v}:roundtrip:{}", p.focus), format!("parses back to a different message; built {} ; document {:?}", msg.dbg(), String::from_utf8_lossy(xml))),
        Err(m) => e(format!("msg:{v}:reparse:{}", p.focus), format!("the library does not parse its own output ({m}); document {:?}", String::from_utf8_lossy(xml))),
    }
}

fn run_msg(ctx: &Ctx, c: &Value, s: &mut Summary) -> R<()> {
    let p = parts_of(c);
    if (p.focus == "tag" || p.focus == "class_name") && p.val.len() > 1024 {
        // longer than the schemas' maxLength: not a protocol-valid value, nothing is asked of it
        s.count("beyond_protocol_valid_length", 1);
        return Ok(());
    }
    let msg = match build(ctx, &p) {
        Ok(m) => m,
        Err(_) => {
            // the constructors refused the value: it is not a value the API admits
            s.count("refused_by_constructor", 1);
            return Ok(());
        }
    };
    let xml = msg.to_xml();
    let raw = toks(&c["raw"]);
    check_written(&p, &msg, &xml, &toks(&c["expect"]), if p.focus == "none" { None } else { Some(&raw) }, s)?;
    s.count("roundtrips", 1);
    Ok(())
}

// ---- fault plans
fn attr_sites(d: &[u8]) -> Vec<(usize, usize, usize)> {
    // (start of name, start of value, end of value) of every attribute
    let mut out = vec![];
    let mut i = 0;
    while i + 1 < d.len() {
        if d[i] == b'=' && d[i + 1] == b'"' {
            let vs = i + 2;
            let ve = vs + d[vs..].iter().position(|c| *c == b'"').unwrap_or(0);
            let mut ns = i;
            while ns > 0 && d[ns - 1] != b' ' {
                ns -= 1;
            }
            out.push((ns, vs, ve));
            i = ve;
        }
        i += 1;
    }
    out
}
fn text_sites(d: &[u8]) -> Vec<(usize, usize)> {
    let mut out = vec![];
    let mut i = 0;
    while i < d.len() {
        if d[i] == b'>' {
            let s = i + 1;
            let e = s + d[s..].iter().position(|c| *c == b'<').unwrap_or(d.len() - s);
            if d[s..e].iter().any(|c| !c.is_ascii_whitespace()) {
                out.push((s, e));
            }
            i = e;
        } else {
            i += 1;
        }
    }
    out
}
/// (start, end) of every child element (complete, including nested content) below the root
fn elem_sites(d: &[u8]) -> Vec<(usize, usize)> {
    let mut out = vec![];
    let mut stack: Vec<usize> = vec![];
    let mut i = 0;
    while i < d.len() {
        if d[i] == b'<' {
            let close = d[i..].iter().position(|c| *c == b'>').map(|k| i + k).unwrap_or(d.len() - 1);
            if d.get(i + 1) == Some(&b'/') {
                if let Some(s) = stack.pop() {
                    if !stack.is_empty() {
                        out.push((s, close + 1));
                    }
                }
            } else if d[close - 1] == b'/' {
                if !stack.is_empty() {
                    out.push((i, close + 1));
                }
            } else {
                stack.push(i);
            }
            i = close;
        }
        i += 1;
    }
    out
}
fn pick<T: Copy>(v: &[T], pos: usize) -> Option<T> {
    if v.is_empty() { None } else { Some(v[(v.len() - 1) * pos / 4]) }
}
fn splice(d: &[u8], s: usize, e: usize, with: &[u8]) -> Vec<u8> {
    let mut o = d[..s].to_vec();
    o.extend_from_slice(with);
    o.extend_from_slice(&d[e..]);
    o
}

pub fn mutate(d: &[u8], kind: &str, pos: usize) -> Vec<u8> {
    let at = (d.len() - 1) * pos / 4;
    let byte = |b: u8| { let mut o = d.to_vec(); o[at] = b; o };
    let a = pick(&attr_sites(d), pos);
    let t = pick(&text_sites(d), pos);
    let el = pick(&elem_sites(d), pos);
    match kind {
        "truncate" => d[..at.max(1)].to_vec(),
        "del-byte" => splice(d, at, at + 1, b""),
        "flip-lt" => byte(b'<'),
        "flip-gt" => byte(b'>'),
        "flip-quote" => byte(b'"'),
        "flip-amp" => byte(b'&'),
        "nul-byte" => byte(0),
        "high-byte" => byte(0xFF),
        "attr-empty" => a.map(|(_, s, e)| splice(d, s, e, b"")).unwrap_or(d.to_vec()),
        "attr-short" => a.map(|(_, s, e)| splice(d, s, e, [&b"h"[..], b"http:/", b"ab", b"http://", b"HTTP://"][pos])).unwrap_or(d.to_vec()),
        "attr-nonascii" => a.map(|(_, s, e)| splice(d, s, e, [&"é"[..], "http:/é", "hé", "ééé", "日本語日本"][pos].as_bytes())).unwrap_or(d.to_vec()),
        "attr-dup" => a.map(|(n, _, e)| { let mut x = d[n..e + 1].to_vec(); x.insert(0, b' '); splice(d, e + 1, e + 1, &x) }).unwrap_or(d.to_vec()),
        "attr-unknown" => a.map(|(_, _, e)| splice(d, e + 1, e + 1, b" zzz=\"1\"")).unwrap_or(d.to_vec()),
        "attr-drop" => a.map(|(n, _, e)| splice(d, n, e + 1, b"")).unwrap_or(d.to_vec()),
        "entity-unknown" => a.map(|(_, s, _)| splice(d, s, s, b"&zz;")).unwrap_or(d.to_vec()),
        "entity-numeric" => a.map(|(_, s, _)| splice(d, s, s, [&b"&#60;"[..], b"&#x26;", b"&#0;", b"&#x110000;", b"&#99999999999;"][pos])).unwrap_or(d.to_vec()),
        "entity-unterminated" => a.map(|(_, s, _)| splice(d, s, s, b"&amp")).unwrap_or(d.to_vec()),
        "text-amp" => t.map(|(s, _)| splice(d, s, s, b"&")).unwrap_or(d.to_vec()),
        "text-lt" => t.map(|(s, e)| splice(d, (s + e) / 2, (s + e) / 2, b"<")).unwrap_or(d.to_vec()),
        "text-junk" => t.map(|(s, e)| splice(d, (s + e) / 2, (s + e) / 2, b"!*&amp;&#65; \xc3\xa9")).unwrap_or(d.to_vec()),
        "text-empty" => t.map(|(s, e)| splice(d, s, e, b"")).unwrap_or(d.to_vec()),
        "swap-close" => {
            let ends: Vec<usize> = (0..d.len() - 1).filter(|i| &d[*i..*i + 2] == b"</").collect();
            pick(&ends, pos).map(|i| splice(d, i + 2, i + 3, b"q")).unwrap_or(d.to_vec())
        }
        "drop-close" => {
            let ends: Vec<usize> = (0..d.len() - 1).filter(|i| &d[*i..*i + 2] == b"</").collect();
            pick(&ends, pos).map(|i| { let e = i + d[i..].iter().position(|c| *c == b'>').unwrap(); splice(d, i, e + 1, b"") }).unwrap_or(d.to_vec())
        }
        "dup-elem" => el.map(|(s, e)| { let x = d[s..e].to_vec(); splice(d, e, e, &x) }).unwrap_or(d.to_vec()),
        "drop-elem" => el.map(|(s, e)| splice(d, s, e, b"")).unwrap_or(d.to_vec()),
        "rename-elem" => el.map(|(s, _)| splice(d, s + 1, s + 2, b"q")).unwrap_or(d.to_vec()),
        "insert-comment" => { let i = pick(&(0..d.len()).filter(|i| d[*i] == b'>').collect::<Vec<_>>(), pos).unwrap(); splice(d, i + 1, i + 1, b"<!-- a comment -- >-->") }
        "insert-cdata" => t.map(|(s, _)| splice(d, s, s, b"<![CDATA[x<&]]>")).unwrap_or(splice(d, d.len(), d.len(), b"<![CDATA[x]]>")),
        "insert-pi" => { let i = pick(&(0..d.len()).filter(|i| d[*i] == b'>').collect::<Vec<_>>(), pos).unwrap(); splice(d, i + 1, i + 1, b"<?pi x?>") }
        "insert-doctype" => splice(d, 0, 0, [&b"<!DOCTYPE x [<!ENTITY e \"v\">]>"[..], b"<?xml version=\"1.0\" encoding=\"UTF-8\"?>", b"<!DOCTYPE x [<!ENTITY a \"&b;&b;\"><!ENTITY b \"&a;\">]>",
                                         b"<?xml version=\"1.0\" encoding=\"UTF-16\"?>", b"<!DOCTYPE"][pos]),
        "deep-nest" => {
            let n = [10usize, 100, 1000, 5000, 20000][pos];
            let i = d.iter().position(|c| *c == b'>').unwrap();
            if d[i - 1] == b'/' { return d.to_vec(); }
            let mut x = Vec::new();
            for _ in 0..n { x.extend_from_slice(b"<a>"); }
            for _ in 0..n { x.extend_from_slice(b"</a>"); }
            splice(d, i + 1, i + 1, &x)
        }
        "ns-prefix" => {
            // qualify the root with a prefix bound to another namespace / the right one / unbound
            let i = d.iter().position(|c| *c == b' ' || *c == b'>' || *c == b'/').unwrap();
            let name = d[1..i].to_vec();
            let mut o = b"<x:".to_vec();
            o.extend_from_slice(&name);
            o.extend_from_slice([&b" xmlns:x=\"urn:other\""[..], b" xmlns:x=\"http://www.hactrn.net/uris/rpki/rpki-setup/\"", b"", b" xmlns:x=\"\"", b" xmlns:x=\"http://www.hactrn.net/uris/rpki/rpki-setup\""][pos]);
            o.extend_from_slice(&d[i..]);
            let s = String::from_utf8_lossy(&o).replace(&format!("</{}>", String::from_utf8_lossy(&name)), &format!("</x:{}>", String::from_utf8_lossy(&name)));
            s.into_bytes()
        }
        "ns-other" => {
            // the root element's namespace name replaced by another one: very short, a proper prefix of the right one, the right
            // one and a bit, empty, one of about the same length
            let text = String::from_utf8_lossy(d).into_owned();
            match text.find("xmlns=\"") {
                Some(i) => {
                    let start = i + 7;
                    let end = start + text[start..].find('"').unwrap_or(0);
                    let ns = &text[start..end];
                    let with = match pos { 0 => "urn:x".to_string(), 1 => ns[..ns.len() / 2].to_string(), 2 => format!("{ns}x"), 3 => String::new(), _ => "h".repeat(ns.len()) };
                    format!("{}{}{}", &text[..start], with, &text[end..]).into_bytes()
                }
                None => d.to_vec(),
            }
        }
        "bom" => splice(d, 0, 0, [&b"\xef\xbb\xbf"[..], b"\xff\xfe", b"\n\n  ", b"\xef\xbb", b"\x00"][pos]),
        "trailing-junk" => splice(d, d.len(), d.len(), [&b"<x/>"[..], b"junk", b"<!-- c -->", b"\n\n", b"&amp;"][pos]),
        _ => d.to_vec(),
    }
}

fn run_mutate(ctx: &Ctx, c: &Value, s: &mut Summary) -> R<()> {
    let p = parts_of(c);
    let (kind, pos) = (c["mut"].as_str().unwrap(), c["pos"].as_u64().unwrap() as usize);
    let msg = build(ctx, &p).map_err(|m| ("mutate:build".to_string(), m))?;
    let doc = mutate(&msg.to_xml(), kind, pos);
    for which in 0..6 {
        let d2 = doc.clone();
        match guarded(move || parse_as(which, &d2)) {
            Err(m) => return e(format!("mutate:panic:{kind}:parser{which}"), format!("parser {which} panicked ({m}) on {:?}", String::from_utf8_lossy(&doc).chars().take(400).collect::<String>())),
            Ok(Err(_)) => s.count("mutants_rejected", 1),
            Ok(Ok(v)) => {
                s.count("mutants_accepted", 1);
                // Whatever the parser accepts is a message value. The parsers are lenient (missing mandatory attributes, optional
                // elements), so the value may differ from the re-parsed one; but writing must stabilise after one step:
                // x1 = write(v), v2 = parse(x1), write(v2) = x1 and parse(write(v2)) = v2, all well-formed and without panics.
                let short = |b: &[u8]| String::from_utf8_lossy(b).chars().take(300).collect::<String>();
                let x1 = match guarded(|| v.to_xml()) {
                    Ok(x) => x,
                    Err(m) => return e(format!("mutate:write-panic:{kind}"), format!("writing the accepted message panicked ({m})")),
                };
                let v2 = match parse_as(which, &x1) {
                    Ok(v2) => v2,
                    Err(m) => return e(format!("mutate:fixpoint-reparse:{kind}:parser{which}"), format!("accepted {:?} but its own output {:?} is refused ({m})", short(&doc), short(&x1))),
                };
                let x2 = v2.to_xml();
                if x2 != x1 {
                    return e(format!("mutate:fixpoint:{kind}:parser{which}"), format!("accepted {:?}; written as {:?}; parsed and written again as {:?}", short(&doc), short(&x1), short(&x2)));
                }
                if !matches!(v2.reparse(&x2), Ok(true)) {
                    return e(format!("mutate:fixpoint2:{kind}:parser{which}"), format!("accepted {:?}; its stable form {:?} does not parse back to an equal message", short(&doc), short(&x2)));
                }
                if let Err(m) = scan_with(&x1, true) {
                    return e(format!("mutate:fixpoint-wellformed:{kind}:parser{which}"), format!("accepted message is written as non-well-formed XML ({m}) {:?}", short(&x1)));
                }
            }
        }
        s.evals(1);
    }
    Ok(())
}

pub fn replay(args: &[String]) {
    let cases = read_cases(&args[0]);
    let mut s = Summary::new();
    let ctx = Ctx::new();
    for c in &cases {
        let op = c["op"].as_str().unwrap();
        let r = guarded(|| match op {
            "esc" => run_esc(c, &mut s),
            "msg" => run_msg(&ctx, c, &mut s),
            _ => run_mutate(&ctx, c, &mut s),
        });
        match r {
            Ok(Ok(())) => {}
            Ok(Err((k, m))) => s.violation(&k, m, c.clone()),
            Err(m) => s.violation(&format!("{op}:panic:{}", c["variant"].as_str().unwrap_or("-")), format!("{m} (case {c})"), c.clone()),
        }
        s.eval(Some(&format!("{c}")));
        if s.samples.len() < 4 && s.evaluations % 1777 == 5 {
            s.sample(c.clone());
        }
    }
    s.set("short_write_sink_refused", json!(SHORT_WRITE_REFUSED.load(std::sync::atomic::Ordering::SeqCst)));
    s.print();
}

// ---- impl -> spec: random messages, every written attribute and the verdicts recorded
fn rand_string(rng: &mut Rng, specials: &[u8]) -> String {
    let n = rng.below(9) as usize;
    (0..n).map(|_| if rng.chance(1, 2) { *rng.pick(specials) as char } else { *rng.pick(b"abZ09-_ ./") as char }).collect()
}

pub fn drive(args: &[String]) {
    let seed = arg_u64(args, "--seed", 1);
    let n = arg_u64(args, "--n", 200);
    let mut out = TraceOut::create(&arg_val(args, "--out").unwrap());
    let mut rng = Rng::new(seed);
    let ctx = Ctx::new();
    let variants = ["child_request", "parent_response", "publisher_request", "repository_response", "prov_list", "prov_list_response", "prov_issue",
                    "prov_issue_response", "prov_revoke", "prov_revoke_response", "prov_error_response", "pub_list_query", "pub_list_reply",
                    "pub_delta", "pub_success", "pub_error_reply"];
    let mut s = Summary::new();
    let chars = |x: &str| -> Vec<String> { x.chars().map(|c| c.to_string()).collect() };
    for _ in 0..n {
        let variant = rng.pick(&variants).to_string();
        let noise: Vec<String> = (0..4).map(|_| rand_string(&mut rng, b"<>&\"';#")).collect();
        let (focus, val) = match rng.below(4) {
            0 => ("uri", format!("rsync://host.example/module/dir/{}", rand_string(&mut rng, b"&';=+"))),
            1 => ("cert_url", format!("rsync://host.example/module/dir/{}x.cer", rand_string(&mut rng, b"&';=+"))),
            2 => ("sia_base", format!("rsync://host.example/module/{}/", rand_string(&mut rng, b"&';=+").replace(['/', ' ', '.'], "a"))),
            _ => ("none", String::new()),
        };
        let val = val.replace(' ', "_").replace("//", "/_").replace("rsync:/_", "rsync://");
        let p = Parts { variant: variant.clone(), focus: focus.to_string(), val, shape: rng.below(4) as usize, opt: rng.chance(2, 3), noise: Some(noise) };
        let msg = match build(&ctx, &p) {
            Ok(m) => m,
            Err(_) => { s.count("refused_by_constructor", 1); continue; }
        };
        let xml = msg.to_xml();
        let tree = scan(&xml);
        let mut attrs = 0;
        if let Ok(t) = &tree {
            fn walk(n: &Node, out: &mut TraceOut, chars: &dyn Fn(&str) -> Vec<String>, cnt: &mut u64) {
                for (name, raw, val) in &n.attrs {
                    if ["tag", "class_name", "service_uri", "uri", "cert_url", "sia_base", "rrdp_notification_uri"].contains(&name.as_str()) {
                        out.ev(json!({"ev": "attr", "name": name, "value": chars(val), "raw": chars(raw)}));
                        *cnt += 1;
                    }
                }
                for c in &n.children { walk(c, out, chars, cnt); }
            }
            walk(t, &mut out, &chars, &mut attrs);
        }
        let rt = matches!(msg.reparse(&xml), Ok(true));
        out.ev(json!({"ev": "msg", "variant": variant, "wellformed": tree.is_ok(), "roundtrip": rt, "attrs": attrs}));
        s.eval(None);
        if !tree.is_ok() || !rt {
            s.count("bad_messages", 1);
        }
    }
    s.set("events", json!(out.finish()));
    s.print();
}

#[allow(dead_code)]
fn _unused(_: Bytes) {}
