//! C08 — binds spec/RtrServerConn.tla to the real rtr::server::Server connection task.
//!
//! The server runs on a paused single-threaded runtime over a socket whose reads deliver
//! exactly the chunks the script says; every poll_read result and every write is logged.
use crate::common::*;
use crate::rtrsession::{Source, SrcState, Version};
use rpki::rtr::server::{NotifySender, Server, Socket};
use serde_json::{json, Value};
use std::collections::VecDeque;
use std::pin::Pin;
use std::sync::{Arc, Mutex};
use std::task::{Context, Poll, Waker};
use tokio::io::{AsyncRead, AsyncWrite, ReadBuf};

#[derive(Default)]
pub struct Wire {
    pub inbox: VecDeque<u8>,
    pub eof: bool,
    pub waker: Option<Waker>,
    /// observable events: ("read", n) | ("write", bytes) | ("end")
    pub events: Vec<(String, Vec<u8>, usize)>,
    /// Some(n): the client is slow - the socket takes n more octets and then says "not now" until the harness makes room again
    pub room: Option<usize>,
    pub wwaker: Option<Waker>,
}
pub struct CtlSock(pub Arc<Mutex<Wire>>);

impl AsyncRead for CtlSock {
    fn poll_read(self: Pin<&mut Self>, cx: &mut Context<'_>, buf: &mut ReadBuf<'_>) -> Poll<std::io::Result<()>> {
        let mut w = self.0.lock().unwrap();
        if !w.inbox.is_empty() {
            let n = buf.remaining().min(w.inbox.len());
            for _ in 0..n {
                let b = w.inbox.pop_front().unwrap();
                buf.put_slice(&[b]);
            }
            w.events.push(("read".into(), vec![], n));
            Poll::Ready(Ok(()))
        } else if w.eof {
            w.events.push(("read".into(), vec![], 0));
            Poll::Ready(Ok(()))
        } else {
            w.waker = Some(cx.waker().clone());
            Poll::Pending
        }
    }
}
impl AsyncWrite for CtlSock {
    fn poll_write(self: Pin<&mut Self>, cx: &mut Context<'_>, buf: &[u8]) -> Poll<std::io::Result<usize>> {
        // a socket with little room: at most 5 bytes are taken per call (short writes are ordinary socket behaviour)
        let mut w = self.0.lock().unwrap();
        let mut n = buf.len().min(5);
        if let Some(room) = w.room {
            if room == 0 {
                w.wwaker = Some(cx.waker().clone());
                return Poll::Pending;
            }
            n = n.min(room);
            w.room = Some(room - n);
        }
        w.events.push(("write".into(), buf[..n].to_vec(), n));
        Poll::Ready(Ok(n))
    }
    fn poll_flush(self: Pin<&mut Self>, _: &mut Context<'_>) -> Poll<std::io::Result<()>> {
        Poll::Ready(Ok(()))
    }
    fn poll_shutdown(self: Pin<&mut Self>, _: &mut Context<'_>) -> Poll<std::io::Result<()>> {
        Poll::Ready(Ok(()))
    }
}
impl Socket for CtlSock {}
impl Drop for CtlSock {
    fn drop(&mut self) {
        self.0.lock().unwrap().events.push(("end".into(), vec![], 0));
    }
}

const SESSION: u16 = 101; // model session 1
// the room a slow client leaves in the socket between two refills (None: all the room in the world)
thread_local! { pub static ROOM: std::cell::Cell<Option<usize>> = const { std::cell::Cell::new(None) }; }
const N_ITEMS: usize = 3;

fn query_bytes(q: &Value) -> Vec<u8> {
    let v = q["ver"].as_u64().unwrap() as u8;
    let s = SESSION.to_be_bytes();
    match q["kind"].as_str().unwrap() {
        "reset" => vec![v, 2, 0, 0, 0, 0, 0, 8],
        "serial_ok" => vec![v, 1, s[0], s[1], 0, 0, 0, 12, 0, 0, 0, 4],
        "serial_unknown" => vec![v, 1, s[0], s[1], 0, 0, 0, 12, 0, 0, 0x30, 0x39],
        "badlen_reset" => vec![v, 2, 0, 0, 0, 0, 0, 12],
        "badlen_serial" => vec![v, 1, s[0], s[1], 0, 0, 0, 8],
        "unktype" => vec![v, 7, 0, 0, 0, 0, 0, 8],
        "errpdu" => vec![v, 10, 0, 2, 0, 0, 0, 8],
        k => panic!("unknown query kind {k}"),
    }
}

/// The PDUs the server wrote, grouped into response entries.
#[derive(Debug, Clone, PartialEq)]
pub enum Entry {
    /// Serial Notify with the version octet it carries
    Notify(u8),
    Full(u8),
    Diff(u8),
    CReset(u8),
    Err(u8, u16),
    Malformed(String),
}

pub fn parse_out(bytes: &[u8]) -> Vec<Entry> {
    let mut res = Vec::new();
    let mut i = 0;
    let mut open: Option<(u8, usize)> = None; // (version, payload PDUs seen)
    while i < bytes.len() {
        if bytes.len() - i < 8 {
            res.push(Entry::Malformed("truncated header".into()));
            break;
        }
        let (ver, typ) = (bytes[i], bytes[i + 1]);
        let sess = u16::from_be_bytes([bytes[i + 2], bytes[i + 3]]);
        let len = u32::from_be_bytes([bytes[i + 4], bytes[i + 5], bytes[i + 6], bytes[i + 7]]) as usize;
        if len < 8 || i + len > bytes.len() {
            res.push(Entry::Malformed(format!("PDU type {typ} announces {len} bytes, {} left", bytes.len() - i)));
            break;
        }
        match (typ, &mut open) {
            (3, None) => {
                if sess != SESSION { res.push(Entry::Malformed(format!("cache response for session {sess}, the source's is {SESSION}"))); }
                open = Some((ver, 0))
            }
            (4 | 6 | 9 | 11, Some((v, n))) => {
                // one response speaks one protocol version from its Cache Response to its End of Data
                if ver != *v { res.push(Entry::Malformed(format!("payload PDU type {typ} with version {ver} inside a version {v} response"))); }
                *n += 1
            }
            (7, Some((v, n))) => {
                if ver != *v { res.push(Entry::Malformed(format!("end of data with version {ver} closes a version {v} response"))); }
                // RFC 6810 / RFC 8210: twelve octets in version 0, twenty-four (with the three timers) from version 1 on
                let want_len = if *v == 0 { 12 } else { 24 };
                if len != want_len { res.push(Entry::Malformed(format!("end of data of {len} octets in a version {v} response (the format has {want_len})"))); }
                // the End of Data names the source's current state (session, serial 5), whatever the client asked with
                let serial = u32::from_be_bytes([bytes[i + 8], bytes[i + 9], bytes[i + 10], bytes[i + 11]]);
                if sess != SESSION || serial != 5 {
                    res.push(Entry::Malformed(format!("end of data names session {sess} serial {serial}, the source is at session {SESSION} serial 5")));
                }
                res.push(if *n == 1 { Entry::Diff(*v) } else if *n == N_ITEMS_FOR(*v) { Entry::Full(*v) } else { Entry::Malformed(format!("response with {n} items")) });
                open = None;
            }
            (0, None) => {
                let serial = u32::from_be_bytes([bytes[i + 8], bytes[i + 9], bytes[i + 10], bytes[i + 11]]);
                if sess != SESSION || serial != 5 {
                    res.push(Entry::Malformed(format!("serial notify names session {sess} serial {serial}, the source is at session {SESSION} serial 5")));
                }
                res.push(Entry::Notify(ver))
            }
            (8, None) => res.push(Entry::CReset(ver)),
            (10, None) => res.push(Entry::Err(ver, sess)),
            (t, Some(_)) => {
                res.push(Entry::Malformed(format!("PDU type {t} inside a cache response")));
                open = None;
            }
            (t, None) => res.push(Entry::Malformed(format!("unexpected PDU type {t}"))),
        }
        i += len;
    }
    if open.is_some() {
        res.push(Entry::Malformed("cache response without end of data".into()));
    }
    res
}
#[allow(non_snake_case)]
fn N_ITEMS_FOR(v: u8) -> usize {
    // items the version carries: 2 origins (v0), + router key (v1), + ASPA (v2)
    match v { 0 => 2, 1 => 3, _ => 4 }
}

fn expected(answers: &Value) -> Vec<Entry> {
    answers
        .as_array()
        .unwrap()
        .iter()
        .map(|a| {
            let v = a[a.as_array().unwrap().len() - 1].as_u64().unwrap() as u8;
            match a[0].as_str().unwrap() {
                "full" => Entry::Full(v),
                "diff" => Entry::Diff(v),
                "creset" => Entry::CReset(v),
                "err" => Entry::Err(v, a[2].as_u64().unwrap() as u16),
                k => Entry::Malformed(format!("spec entry {k}")),
            }
        })
        .collect()
}

struct RunResult {
    out: Vec<Entry>,
    events: Vec<Value>,
    ended: bool,
}

/// Run one script against the real server; returns what it wrote and the event log (spec vocabulary).
fn run_script(queries: &Value, script: &[(String, usize)], flush_rest: bool, order_desc: bool) -> RunResult {
    let stream: Vec<u8> = queries.as_array().unwrap().iter().flat_map(query_bytes).collect();
    let _ = N_ITEMS;
    let src = Source(Arc::new(Mutex::new(SrcState {
        evlog: None,
        // serial 4 lacks the IPv6 origin, so a serial query for 4 gets a diff of exactly one announcement (carried by every version)
        hist: vec![Version { session: 1, serial: 4, data: vec![(0, "o4".into(), 0), (1, "k1".into(), 0), (2, "c1".into(), 2)] },
                   Version { session: 1, serial: 5, data: vec![(0, "o4".into(), 0), (0, "o6".into(), 0), (1, "k1".into(), 0), (2, "c1".into(), 2)] }],
        timing: 1, window: 1, serial_base: 0, calls: 0, pending: vec![], ready: true, cut_at: None, dead: Default::default(), order_desc,
    })));
    let wire = Arc::new(Mutex::new(Wire::default()));
    let rt = tokio::runtime::Builder::new_current_thread().enable_time().start_paused(true).build().unwrap();
    let w2 = wire.clone();
    let mut events: Vec<Value> = vec![json!({"ev": "reset"})];
    let mut all_out: Vec<u8> = Vec::new();
    rt.block_on(async {
        let mut notify = NotifySender::new();
        let listener = Box::pin(futures_util::stream::iter(vec![Ok::<CtlSock, std::io::Error>(CtlSock(w2.clone()))]));
        let server = Server::new(listener, notify.clone(), src.clone());
        let h = tokio::spawn(async move { let _ = server.run().await; });
        let mut pos = 0usize;
        let mut qi_seen = 0usize; // answers matched so far (for q numbering in out events)
        // drain what the server did since the last environment action into spec-vocabulary events
        let mut drain = |events: &mut Vec<Value>, all_out: &mut Vec<u8>, qi_seen: &mut usize| {
            let evs: Vec<(String, Vec<u8>, usize)> = std::mem::take(&mut w2.lock().unwrap().events);
            let mut pending_out: Vec<u8> = Vec::new();
            let flush_out = |pending_out: &mut Vec<u8>, events: &mut Vec<Value>, all_out: &mut Vec<u8>, qi_seen: &mut usize| {
                if pending_out.is_empty() { return; }
                for e in parse_out(pending_out) {
                    events.push(match e {
                        Entry::Notify(v) => json!({"ev": "out", "kind": "notify", "q": 0, "ver": v, "code": 0}),
                        Entry::Full(v) => { *qi_seen += 1; json!({"ev": "out", "kind": "full", "q": *qi_seen, "ver": v, "code": 0}) }
                        Entry::Diff(v) => { *qi_seen += 1; json!({"ev": "out", "kind": "diff", "q": *qi_seen, "ver": v, "code": 0}) }
                        Entry::CReset(v) => { *qi_seen += 1; json!({"ev": "out", "kind": "creset", "q": *qi_seen, "ver": v, "code": 0}) }
                        Entry::Err(v, c) => { *qi_seen += 1; json!({"ev": "out", "kind": "err", "q": *qi_seen, "ver": v, "code": c}) }
                        Entry::Malformed(m) => json!({"ev": "out", "kind": "malformed", "q": 0, "ver": 0, "code": 0, "what": m}),
                    });
                }
                all_out.extend_from_slice(pending_out);
                pending_out.clear();
            };
            for (k, b, n) in evs {
                match k.as_str() {
                    "write" => pending_out.extend_from_slice(&b),
                    "read" => { flush_out(&mut pending_out, events, all_out, qi_seen); events.push(json!({"ev": "read", "n": n})); }
                    _ => { flush_out(&mut pending_out, events, all_out, qi_seen); events.push(json!({"ev": "end"})); }
                }
            }
            flush_out(&mut pending_out, events, all_out, qi_seen);
        };
        let room = ROOM.with(|r| r.get());
        w2.lock().unwrap().room = room;
        // let the server run until it rests; a slow client's socket is given room again (the same small amount) as long as the
        // server makes use of it
        let settle = || async {
            for _ in 0..12 { tokio::task::yield_now().await; }
            if let Some(r) = room {
                for _ in 0..6000 {
                    let waiting = { let mut w = w2.lock().unwrap(); let blocked = w.wwaker.is_some(); w.room = Some(r); if let Some(wk) = w.wwaker.take() { wk.wake(); } blocked };
                    if !waiting { break; }
                    for _ in 0..12 { tokio::task::yield_now().await; }
                }
            }
        };
        settle().await;
        for (act, n) in script {
            match act.as_str() {
                "deliver" => {
                    let n = (*n).min(stream.len() - pos);
                    let mut w = w2.lock().unwrap();
                    w.inbox.extend(&stream[pos..pos + n]);
                    pos += n;
                    if let Some(wk) = w.waker.take() { wk.wake(); }
                    drop(w);
                    events.push(json!({"ev": "deliver", "n": n}));
                }
                "notify" => { notify.notify(); events.push(json!({"ev": "notify"})); }
                _ => {
                    let mut w = w2.lock().unwrap();
                    w.eof = true;
                    if let Some(wk) = w.waker.take() { wk.wake(); }
                    drop(w);
                    events.push(json!({"ev": "close"}));
                }
            }
            settle().await;
            drain(&mut events, &mut all_out, &mut qi_seen);
        }
        if flush_rest && pos < stream.len() && !w2.lock().unwrap().eof {
            let n = stream.len() - pos;
            let mut w = w2.lock().unwrap();
            w.inbox.extend(&stream[pos..]);
            if let Some(wk) = w.waker.take() { wk.wake(); }
            drop(w);
            events.push(json!({"ev": "deliver", "n": n}));
            settle().await;
            drain(&mut events, &mut all_out, &mut qi_seen);
        }
        h.abort();
    });
    let ended = events.iter().any(|e| e["ev"] == "end");
    RunResult { out: parse_out(&all_out), events, ended }
}

pub fn replay(args: &[String]) {
    let cases = read_cases(&args[0]);
    let trace_every = arg_u64(args, "--trace-every", 10);
    let mut trace = arg_val(args, "--trace-out").map(|p| TraceOut::create(&p));
    let mut s = Summary::new();
    let mut pre_versions: std::collections::BTreeMap<u8, Value> = Default::default();
    for (ci, c) in cases.iter().enumerate() {
        let script: Vec<(String, usize)> = c["script"].as_array().unwrap().iter().map(|a| (a[0].as_str().unwrap().to_string(), a[1].as_u64().unwrap() as usize)).collect();
        let closes = script.iter().any(|a| a.0 == "close");
        let n_notify = script.iter().filter(|a| a.0 == "notify").count();
        // every third case the client is slow: the socket has room for 1..11 octets at a time (less than a Serial Notify)
        ROOM.with(|r| r.set(if ci % 3 == 2 { Some(1 + (ci / 3) % 11) } else { None }));
        // the source's router key has key information of the lengths from 1 to 1300 octets in turn
        crate::rtrsession::KEYINFO_LEN.store(1 + (ci * 13) % 1300, std::sync::atomic::Ordering::SeqCst);
        // the source hands out its items in either order (every other case: the items version 0 and 1 cannot carry come first)
        match guarded(|| run_script(&c["queries"], &script, true, ci % 2 == 1)) {
            Err(m) => s.violation("panic", m, c.clone()),
            Ok(r) => {
                let want = expected(&c["answers"]);
                let got: Vec<Entry> = r.out.iter().filter(|e| !matches!(e, Entry::Notify(_))).cloned().collect();
                let notifies = r.out.iter().filter(|e| matches!(e, Entry::Notify(_))).count();
                notify_versions(&r.out, &mut pre_versions, &mut s, c);
                if let Some(Entry::Malformed(m)) = r.out.iter().find(|e| matches!(e, Entry::Malformed(_))) {
                    s.violation("out:malformed", format!("server output is not a sequence of whole responses: {m}"), c.clone());
                } else {
                    // the statement asks for "an Error PDU" for malformed / unsupported queries; which error code it carries is
                    // RFC 8210 detail beyond the statement, so a differing code is a beyond-property note
                    let blur = |v: &[Entry]| -> Vec<Entry> { v.iter().map(|e| if let Entry::Err(_, _) = e { Entry::Err(0, 0) } else { e.clone() }).collect() };
                    let (g, w) = (blur(&got), blur(&want));
                    if !closes && g != w {
                        s.violation("out:answers", format!("responses {got:?}, specification {want:?} (script {script:?})"), c.clone());
                    } else if closes && (g.len() > w.len() || g[..] != w[..g.len()]) {
                        s.violation("out:answers", format!("responses {got:?} are not a prefix of {want:?}"), c.clone());
                    } else if (!closes && got != want) || (closes && got[..] != want[..got.len()]) {
                        s.violation("beyond:out:error-code", format!("responses {got:?}, specification {want:?}: same shape, different error PDU version/code"), c.clone());
                    }
                }
                // A notification issued while the connection is open and its version is known (a data response has been written)
                // must show up as a Serial Notify once the server is idle; a burst may collapse into one, never into none.
                {
                    let mut version_known = false;
                    let mut owed = false;
                    for e in &r.events {
                        match (e["ev"].as_str().unwrap_or(""), e["kind"].as_str().unwrap_or("")) {
                            ("out", "full") | ("out", "diff") | ("out", "creset") => version_known = true,
                            ("out", "notify") => owed = false,
                            ("notify", _) => if version_known { owed = true },
                            _ => {}
                        }
                    }
                    if owed && !r.ended && !closes && c["closed"] == false {
                        s.violation("out:notify-lost", format!("a notification was issued on an open, idle connection and no Serial Notify followed (script {script:?})"), c.clone());
                    }
                }
                if notifies > n_notify {
                    s.violation("out:notify-count", format!("{notifies} Serial Notify PDUs for {n_notify} notifications"), c.clone());
                }
                if let Some(t) = trace.as_mut() {
                    if ci as u64 % trace_every == 0 {
                        for e in r.events { t.ev(e); }
                        s.count("scripts_traced", 1);
                    }
                }
                let _ = r.ended;
            }
        }
        s.eval_if(script.len() >= 2, &format!("{}|{}", c["stream"], c["script"]));
        if s.samples.len() < 3 && ci % 1500 == 7 { s.sample(c.clone()); }
    }
    notify_versions_verdict(&pre_versions, &mut s);
    if let Some(t) = trace { s.set("trace_events", json!(t.finish())); }
    s.print();
}

/// The version octet of every Serial Notify.  Once the connection has a version (a data response or a Cache Reset has been
/// written in it) a Serial Notify must speak it.  Before that the statement only says that what the server writes depends on
/// the client's bytes and the source, not on how the bytes arrive: the octet must be the same in every run.
fn notify_versions(out: &[Entry], pre: &mut std::collections::BTreeMap<u8, Value>, s: &mut Summary, c: &Value) {
    let mut conn: Option<u8> = None;
    // after an Error PDU as the first thing written the connection may or may not have settled on a version (a query of
    // the wrong length does, one with an unsupported version does not): nothing is demanded until a data response says so
    let mut unsure = false;
    for e in out {
        match e {
            Entry::Full(v) | Entry::Diff(v) | Entry::CReset(v) => { if conn.is_none() { conn = Some(*v) } }
            Entry::Err(_, _) | Entry::Malformed(_) => { if conn.is_none() { unsure = true } }
            Entry::Notify(v) => match conn {
                Some(cv) => if *v != cv { s.violation("out:notify-version", format!("Serial Notify with version {v} on a connection that speaks version {cv}"), c.clone()) },
                None => if !unsure { pre.entry(*v).or_insert_with(|| c.clone()); }
            },
        }
    }
}
fn notify_versions_verdict(pre: &std::collections::BTreeMap<u8, Value>, s: &mut Summary) {
    s.set("pre_negotiation_notify_versions", json!(pre.keys().collect::<Vec<_>>()));
    if pre.len() > 1 {
        let (v, c) = pre.iter().last().unwrap();
        s.violation("out:notify-version-varies", format!("Serial Notify before any version is negotiated carries version octets {:?} depending on how the client's bytes arrive", pre.keys().collect::<Vec<_>>()), json!({"version": v, "case": c}));
    }
}

/// impl -> spec with random chunkings and notify storms over one of the model's streams.
pub fn drive(args: &[String]) {
    let seed = arg_u64(args, "--seed", 1);
    let n = arg_u64(args, "--n", 300);
    let out = arg_val(args, "--out").expect("--out");
    let queries: Value = serde_json::from_str(&arg_val(args, "--queries").expect("--queries")).unwrap();
    let total: usize = queries.as_array().unwrap().iter().map(|q| query_bytes(q).len()).sum();
    let mut rng = Rng::new(seed);
    let mut t = TraceOut::create(&out);
    let mut s = Summary::new();
    let mut pre_versions: std::collections::BTreeMap<u8, Value> = Default::default();
    for i in 0..n {
        let mut script = Vec::new();
        let mut left = total;
        while left > 0 {
            match rng.below(10) {
                0..=5 => { let k = (rng.range(1, 13) as usize).min(left); script.push(("deliver".to_string(), k)); left -= k; }
                6..=8 => script.push(("notify".to_string(), 0)),
                _ => { if rng.chance(1, 6) { script.push(("close".to_string(), 0)); break; } }
            }
        }
        match guarded(|| run_script(&queries, &script, false, false)) {
            Ok(r) => {
                notify_versions(&r.out, &mut pre_versions, &mut s, &json!({"seed": seed, "i": i, "script": script.iter().map(|a| format!("{}:{}", a.0, a.1)).collect::<Vec<_>>()}));
                for e in r.events { t.ev(e); } s.eval(Some(&format!("{i}"))); }
            Err(m) => s.violation("trace:panic", m, json!({"seed": seed, "i": i})),
        }
        if i == 0 { s.sample(json!({"script": script.iter().map(|a| format!("{}:{}", a.0, a.1)).collect::<Vec<_>>()})); }
    }
    notify_versions_verdict(&pre_versions, &mut s);
    s.set("events", json!(t.finish()));
    s.print();
}
