//! C12 — binds spec/UriAlgebra.tla to rpki::uri::{Rsync, Https}.
use crate::common::*;
use rpki::uri::{Https, Rsync};
use serde_json::{json, Value};
use std::hash::{Hash, Hasher};
use std::str::FromStr;

fn hh<T: Hash>(t: &T) -> u64 {
    let mut s = std::collections::hash_map::DefaultHasher::new();
    t.hash(&mut s);
    s.finish()
}

/// Two renderings of the model alphabet; the second maps letters to multi-character
/// tokens (upper/lower case consistent), so the same cases exercise longer URIs.
const MAPS: [(&str, [(&str, &str); 6]); 4] = [
    ("plain", [("a", "a"), ("A", "A"), ("b", "b"), ("/", "/"), (".", "."), (" ", " ")]),
    ("tokens", [("a", "ex-ample.org"), ("A", "EX-AMPLE.ORG"), ("b", "b~1"), ("/", "/"), (".", "."), (" ", "\u{7f}")]),
    // the forbidden character is one beyond ASCII (two octets in a str; offered as the single octet 0xE9 through the byte parsers)
    ("beyond-ascii", [("a", "a"), ("A", "A"), ("b", "b"), ("/", "/"), (".", "."), (" ", "\u{e9}")]),
    // labels of thirty-odd octets: three of them reach past any fixed-size buffer (64, 96 octets) a shortcut might use
    ("long", [("a", "a-label-of-thirty-three-octets.xyz"), ("A", "A-LABEL-OF-THIRTY-THREE-OCTETS.XYZ"), ("b", "b_another-label-just-as-long-as-a"), ("/", "/"), (".", "."), (" ", " ")]),
];
const NONE: &str = "<none>";

fn render(v: &Value, map: usize) -> Option<String> {
    let arr = v.as_array()?;
    if arr.len() == 1 && arr[0] == NONE {
        return None;
    }
    let mut out = String::new();
    for c in arr {
        let c = c.as_str().unwrap();
        out.push_str(MAPS[map].1.iter().find(|(k, _)| *k == c).map(|(_, t)| *t).unwrap_or(c));
    }
    Some(out)
}

const RSCHEMES: [&str; 3] = ["rsync://", "RSYNC://", "rSyNc://"];
const HSCHEMES: [&str; 3] = ["https://", "HTTPS://", "hTtPs://"];

fn replay_string(s: &mut Summary, c: &Value) {
    for map in 0..4 {
        let body = render(&c["s"], map).unwrap();
        // octets beyond ASCII through the parsers that take octets: every one of them is a forbidden character
        if map == 2 && body.contains('\u{e9}') {
            for (sch, hs) in RSCHEMES.iter().zip(HSCHEMES.iter()) {
                for high in [0xE9u8, 0xA1, 0xC1, 0xFE, 0x80, 0xFF] {
                    let raw = |scheme: &str| -> Vec<u8> { let mut v = scheme.as_bytes().to_vec(); for ch in body.chars() { if ch == '\u{e9}' { v.push(high) } else { v.push(ch as u8) } } v };
                    let (r, h) = (raw(sch), raw(hs));
                    if matches!(guarded(|| Rsync::from_slice(&r).is_ok() || Rsync::from_bytes(bytes::Bytes::from(r.clone())).is_ok()), Ok(true) | Err(_)) {
                        s.violation("rsync:accepts-malformed", format!("octets {r:02x?} accepted (or a panic) although {high:#x} is no URI character"), json!({"case": c, "octets": r}));
                    }
                    if matches!(guarded(|| Https::from_slice(&h).is_ok() || Https::from_bytes(bytes::Bytes::from(h.clone())).is_ok()), Ok(true) | Err(_)) {
                        s.violation("https:accepts-malformed", format!("octets {h:02x?} accepted (or a panic) although {high:#x} is no URI character"), json!({"case": c, "octets": h}));
                    }
                }
            }
        }
        // ---- rsync
        for sch in RSCHEMES {
            let text = format!("{sch}{body}");
            let case = json!({"case": c, "map": MAPS[map].0, "text": text});
            let r = guarded(|| Rsync::from_str(&text));
            match r {
                Err(m) => s.violation("rsync:parse-panic", m, case.clone()),
                Ok(Err(_)) => {}
                Ok(Ok(u)) => {
                    s.count("rsync_accepted", 1);
                    if !c["rsync_wf"].as_bool().unwrap() {
                        s.violation("rsync:accepts-malformed", format!("'{text}' accepted but is not a well-formed rsync URI"), case.clone());
                        continue;
                    }
                    let chk = guarded(|| -> Result<(), String> {
                        if u.as_str() != text || u.to_string() != text || u.as_slice() != text.as_bytes() {
                            return Err(format!("text changed: '{}'", u.as_str()));
                        }
                        let (ea, em, ep) = (render(&c["rauth"], map).unwrap(), render(&c["rmod"], map).unwrap(), render(&c["rpath"], map).unwrap());
                        if u.authority() != ea || u.module_name() != em || u.path() != ep {
                            return Err(format!("components ({},{},{}) vs specification ({ea},{em},{ep})", u.authority(), u.module_name(), u.path()));
                        }
                        if format!("{sch}{}/{}/{}", u.authority(), u.module_name(), u.path()) != text || format!("{}{}", u.module(), u.path()) != text {
                            return Err("components do not recompose to the text".into());
                        }
                        if u.path_is_dir() != (ep.is_empty() || ep.ends_with('/')) {
                            return Err("path_is_dir wrong".into());
                        }
                        if Rsync::from_slice(text.as_bytes()).ok().as_ref() != Some(&u) || Rsync::from_string(text.clone()).ok().as_ref() != Some(&u) {
                            return Err("from_slice/from_string disagree with from_str".into());
                        }
                        // every parser entry point keeps the text byte for byte (== compares scheme and authority without case)
                        let routes: Vec<(&str, Result<Rsync, rpki::uri::Error>)> = vec![
                            ("from_slice", Rsync::from_slice(text.as_bytes())), ("from_string", Rsync::from_string(text.clone())),
                            ("from_bytes", Rsync::from_bytes(bytes::Bytes::copy_from_slice(text.as_bytes()))),
                            ("try_from", Rsync::try_from(text.clone())), ("parse", text.parse::<Rsync>()),
                            ("serde", serde_json::from_value::<Rsync>(Value::String(text.clone())).map_err(|_| rpki::uri::Error::BadUri)),
                        ];
                        for (name, r) in routes {
                            match r {
                                Ok(v) => {
                                    if v.as_str() != text || v.to_bytes().as_ref() != text.as_bytes() || v.path_bytes() != ep.as_bytes() || v.authority() != ea || v.module_name() != em {
                                        return Err(format!("{name}: text or components changed: '{}'", v.as_str()));
                                    }
                                }
                                Err(_) => return Err(format!("{name} refuses what from_str accepts")),
                            }
                        }
                        for ext in [".cer", "/", "a", ""] {
                            if u.ends_with(ext) != ep.ends_with(ext) {
                                return Err(format!("ends_with({ext:?}) = {}", u.ends_with(ext)));
                            }
                        }
                        // path_into_dir: the same URI with one slash appended unless the path is empty or ends in one
                        let mut d = u.clone();
                        d.path_into_dir();
                        let want_dir = if ep.is_empty() || ep.ends_with('/') { text.clone() } else { format!("{text}/") };
                        if d.as_str() != want_dir || !d.path_is_dir() || d.authority() != ea || d.module_name() != em {
                            return Err(format!("path_into_dir gives '{}', expected '{want_dir}'", d.as_str()));
                        }
                        if Rsync::from_str(d.as_str()).ok().as_ref() != Some(&d) {
                            return Err(format!("path_into_dir result '{}' does not re-parse to an equal value", d.as_str()));
                        }
                        let j = serde_json::to_string(&u).map_err(|e| e.to_string())?;
                        let back: Rsync = serde_json::from_str(&j).map_err(|e| e.to_string())?;
                        if back != u || back.as_str() != text {
                            return Err("serde round trip changed the URI".into());
                        }
                        match (u.parent(), render(&c["rparent"], map)) {
                            (None, None) => {}
                            (Some(p), Some(e)) => {
                                let want = format!("{sch}{e}");
                                if p.as_str() != want {
                                    return Err(format!("parent = '{}', specification '{want}'", p.as_str()));
                                }
                                let re = Rsync::from_str(p.as_str()).map_err(|e| format!("parent does not re-parse: {e}"))?;
                                if re != p || re.authority() != u.authority() || !p.is_parent_of(&u) {
                                    return Err("parent is not a valid parent of its child".into());
                                }
                            }
                            (g, e) => return Err(format!("parent = {:?}, specification {e:?}", g.map(|x| x.to_string()))),
                        }
                        Ok(())
                    });
                    match chk {
                        Ok(Ok(())) => {}
                        Ok(Err(m)) => s.violation("rsync:accessors", format!("'{text}': {m}"), case.clone()),
                        Err(m) => s.violation("rsync:accessor-panic", format!("'{text}': {m}"), case.clone()),
                    }
                }
            }
            s.eval(if body.len() > 3 { Some(&text) } else { None });
        }
        // ---- https
        for sch in HSCHEMES {
            let text = format!("{sch}{body}");
            let case = json!({"case": c, "map": MAPS[map].0, "text": text});
            match guarded(|| Https::from_str(&text)) {
                Err(m) => s.violation("https:parse-panic", m, case.clone()),
                Ok(Err(_)) => {}
                Ok(Ok(u)) => {
                    s.count("https_accepted", 1);
                    if !c["https_wf"].as_bool().unwrap() {
                        s.violation("https:accepts-malformed", format!("'{text}' accepted but contains forbidden characters"), case.clone());
                        continue;
                    }
                    let chk = guarded(|| -> Result<(), String> {
                        if u.as_str() != text || u.to_string() != text {
                            return Err("text changed".into());
                        }
                        let (ea, ep) = (render(&c["hauth"], map).unwrap(), render(&c["hpath"], map).unwrap());
                        if u.authority() != ea || u.path() != ep || format!("{sch}{}{}", u.authority(), u.path()) != text {
                            return Err(format!("components ({},{}) vs specification ({ea},{ep})", u.authority(), u.path()));
                        }
                        let routes: Vec<(&str, Result<Https, rpki::uri::Error>)> = vec![
                            ("from_slice", Https::from_slice(text.as_bytes())), ("from_string", Https::from_string(text.clone())),
                            ("from_bytes", Https::from_bytes(bytes::Bytes::copy_from_slice(text.as_bytes()))),
                            ("try_from", Https::try_from(text.clone())), ("parse", text.parse::<Https>()),
                            ("serde", serde_json::from_value::<Https>(Value::String(text.clone())).map_err(|_| rpki::uri::Error::BadUri)),
                        ];
                        for (name, r) in routes {
                            match r {
                                Ok(v) => {
                                    if v.as_str() != text || v.as_slice() != text.as_bytes() || v.authority() != ea || v.path() != ep || v != u {
                                        return Err(format!("{name}: text or components changed: '{}'", v.as_str()));
                                    }
                                }
                                Err(_) => return Err(format!("{name} refuses what from_str accepts")),
                            }
                        }
                        if !u.scheme().as_str().eq_ignore_ascii_case("https") {
                            return Err(format!("scheme() = {}", u.scheme().as_str()));
                        }
                        // (path_is_dir / path_into_dir of an HTTPS URI treat a path-less URI as no directory; the statement does not
                        // speak about them - observed under a `beyond:` key only)
                        let mut d = u.clone();
                        d.path_into_dir();
                        if d.authority() != ea || Https::from_str(d.as_str()).ok().as_ref() != Some(&d) {
                            return Err(format!("beyond:path_into_dir gives '{}', which does not re-parse to an equal value with the same authority", d.as_str()));
                        }
                        let j = serde_json::to_string(&u).map_err(|e| e.to_string())?;
                        let back: Https = serde_json::from_str(&j).map_err(|e| e.to_string())?;
                        if back != u || back.as_str() != text {
                            return Err("serde round trip changed the URI".into());
                        }
                        match (u.parent(), render(&c["hparent"], map)) {
                            (None, None) => {}
                            (Some(p), Some(e)) => {
                                let want = format!("{sch}{e}");
                                if p.as_str() != want {
                                    return Err(format!("parent = '{}', specification '{want}'", p.as_str()));
                                }
                                let re = Https::from_str(p.as_str()).map_err(|e| format!("parent does not re-parse: {e}"))?;
                                if re != p || re.authority() != u.authority() {
                                    return Err("parent re-parses differently".into());
                                }
                            }
                            (g, e) => return Err(format!("parent = {:?}, specification {e:?}", g.map(|x| x.to_string()))),
                        }
                        Ok(())
                    });
                    match chk {
                        Ok(Ok(())) => {}
                        Ok(Err(m)) if m.starts_with("beyond:") => s.violation("beyond:https:path_into_dir", format!("'{text}': {m}"), case.clone()),
                        Ok(Err(m)) => s.violation("https:accessors", format!("'{text}': {m}"), case.clone()),
                        Err(m) => s.violation("https:accessor-panic", format!("'{text}': {m}"), case.clone()),
                    }
                }
            }
            s.eval(if body.len() > 3 { Some(&text) } else { None });
        }
    }
}

fn replay_pair(s: &mut Summary, c: &Value) {
    let rsync = c["kind"] == "rsync";
    let exp_eq = c["eq"].as_bool().unwrap();
    for map in [0usize, 1, 3] {
        let (bx, by) = (render(&c["x"], map).unwrap(), render(&c["y"], map).unwrap());
        // scheme spellings: same / different case
        for (sx, sy) in [(0, 0), (0, 1), (2, 1)] {
            if rsync {
                let (tx, ty) = (format!("{}{bx}", RSCHEMES[sx]), format!("{}{by}", RSCHEMES[sy]));
                let case = json!({"case": c, "map": MAPS[map].0, "x": tx, "y": ty});
                let (Ok(x), Ok(y)) = (Rsync::from_str(&tx), Rsync::from_str(&ty)) else {
                    s.count("pairs_skipped_not_accepted", 1);
                    continue;
                };
                let r = guarded(|| -> Result<(), String> {
                    if (x == y) != exp_eq || (y == x) != exp_eq {
                        return Err(format!("eq: x == y is {}, specification {exp_eq}", x == y));
                    }
                    if exp_eq && hh(&x) != hh(&y) {
                        return Err("hash: equal URIs hash differently".into());
                    }
                    let exp_rel = render(&c["rel"], map);
                    if x.relative_to(&y).map(str::to_string) != exp_rel {
                        return Err(format!("relative_to: {:?}, specification {exp_rel:?}", x.relative_to(&y)));
                    }
                    if let Some(p) = x.relative_to(&y) {
                        if !p.is_empty() {
                            let j = y.join(p.as_bytes()).map_err(|e| format!("relative_to: join of the reported path fails: {e}"))?;
                            if j != x {
                                return Err(format!("relative_to: join(y, '{p}') = '{j}' differs from x"));
                            }
                        }
                    }
                    if x.is_parent_of(&y) != c["parent_of"].as_bool().unwrap() {
                        return Err(format!("is_parent_of: {}, specification {}", x.is_parent_of(&y), c["parent_of"]));
                    }
                    Ok(())
                });
                match r {
                    Ok(Ok(())) => {}
                    Ok(Err(m)) => {
                        let key = format!("rsync:{}", m.split(':').next().unwrap());
                        s.violation(&key, format!("x='{tx}' y='{ty}': {m}"), case.clone())
                    }
                    Err(m) => s.violation("rsync:pair-panic", m, case.clone()),
                }
                if (sx, sy) == (0, 0) {
                    for jp in c["joins"].as_array().unwrap() {
                        let p = render(&jp[0], map).unwrap();
                        let exp = render(&jp[1], map).map(|e| format!("{}{e}", RSCHEMES[sx]));
                        let r = guarded(|| -> Result<(), String> {
                            match (x.join(p.as_bytes()), &exp) {
                                (Err(_), None) => Ok(()),
                                (Err(_), Some(_)) => Ok(()), // refusing more is not a violation
                                (Ok(j), None) => Err(format!("join('{p}') accepted as '{j}', specification refuses it")),
                                (Ok(j), Some(e)) => {
                                    if j.as_str() != e {
                                        return Err(format!("join('{p}') = '{j}', specification '{e}'"));
                                    }
                                    let re = Rsync::from_str(j.as_str()).map_err(|e| format!("join result does not re-parse: {e}"))?;
                                    if re != j || j.authority() != x.authority() || j.module_name() != x.module_name() {
                                        return Err("join result re-parses differently / changes authority".into());
                                    }
                                    if !p.is_empty() && (!x.is_parent_of(&j) || j.relative_to(&x) != Some(p.as_str())) {
                                        return Err(format!("join('{p}') does not lie beneath the base"));
                                    }
                                    Ok(())
                                }
                            }
                        });
                        match r {
                            Ok(Ok(())) => {}
                            Ok(Err(m)) => s.violation("rsync:join", format!("x='{tx}': {m}"), case.clone()),
                            Err(m) => s.violation("rsync:join-panic", m, case.clone()),
                        }
                    }
                }
                s.eval_if(bx != by, &format!("{tx}|{ty}"));
            } else {
                let (tx, ty) = (format!("{}{bx}", HSCHEMES[sx]), format!("{}{by}", HSCHEMES[sy]));
                let case = json!({"case": c, "map": MAPS[map].0, "x": tx, "y": ty});
                let (Ok(x), Ok(y)) = (Https::from_str(&tx), Https::from_str(&ty)) else {
                    s.count("pairs_skipped_not_accepted", 1);
                    continue;
                };
                let r = guarded(|| -> Result<(), String> {
                    if (x == y) != exp_eq || (y == x) != exp_eq {
                        return Err(format!("eq: x == y is {}, specification {exp_eq}", x == y));
                    }
                    if exp_eq && hh(&x) != hh(&y) {
                        return Err("hash: equal URIs hash differently".into());
                    }
                    if x.eq_authority(&y) != (x.authority().to_ascii_lowercase() == y.authority().to_ascii_lowercase()) {
                        return Err("eq_authority: wrong".into());
                    }
                    Ok(())
                });
                match r {
                    Ok(Ok(())) => {}
                    Ok(Err(m)) => {
                        let key = format!("https:{}", m.split(':').next().unwrap());
                        s.violation(&key, format!("x='{tx}' y='{ty}': {m}"), case.clone())
                    }
                    Err(m) => s.violation("https:pair-panic", m, case.clone()),
                }
                if (sx, sy) == (0, 0) {
                    for jp in c["joins"].as_array().unwrap() {
                        let p = render(&jp[0], map).unwrap();
                        let exp = render(&jp[1], map).map(|e| format!("{}{e}", HSCHEMES[sx]));
                        let r = guarded(|| -> Result<(), String> {
                            match (x.join(p.as_bytes()), &exp) {
                                (Err(_), _) => Ok(()),
                                (Ok(j), None) => Err(format!("join('{p}') accepted as '{j}', specification refuses it")),
                                (Ok(j), Some(e)) => {
                                    if j.as_str() != e {
                                        return Err(format!("join('{p}') = '{j}', specification '{e}'"));
                                    }
                                    let re = Https::from_str(j.as_str()).map_err(|e| format!("join result does not re-parse: {e}"))?;
                                    if re != j || re.authority() != x.authority() {
                                        return Err(format!("join('{p}') = '{j}' re-parses with authority '{}'", re.authority()));
                                    }
                                    Ok(())
                                }
                            }
                        });
                        match r {
                            Ok(Ok(())) => {}
                            Ok(Err(m)) => s.violation("https:join", format!("x='{tx}': {m}"), case.clone()),
                            Err(m) => s.violation("https:join-panic", m, case.clone()),
                        }
                    }
                }
                s.eval_if(bx != by, &format!("{tx}|{ty}"));
            }
        }
    }
}

pub fn replay(args: &[String]) {
    let cases = read_cases(&args[0]);
    let mut s = Summary::new();
    for c in &cases {
        match c["op"].as_str().unwrap_or("") {
            "string" => replay_string(&mut s, c),
            "pair" => replay_pair(&mut s, c),
            o => {
                eprintln!("unknown op {o}");
                std::process::exit(2)
            }
        }
        if s.samples.len() < 3 && s.evaluations % 4001 < 12 {
            s.sample(c.clone());
        }
    }
    s.print();
}

// --------------------------------------------------------------------------
// impl -> spec: random long URIs
// --------------------------------------------------------------------------
fn chars(s: &str) -> Value {
    Value::Array(
        s.chars()
            .map(|c| {
                if c.is_ascii_control() {
                    json!("<ctl>")
                } else if !c.is_ascii() {
                    json!("<hi>")
                } else {
                    json!(c.to_string())
                }
            })
            .collect(),
    )
}
fn after_scheme(s: &str) -> &str {
    &s[8..]
}

fn rand_seg(rng: &mut Rng) -> String {
    const POOL: [&str; 14] = ["a", "A", "repo", "Repo", "x~1", "%41", "ta", "0", "b-c", "d_e", "f.g", "..a", "a..", "$"];
    const ODD: [&str; 10] = [".", "..", "", " ", "#", "?q", "é", "\u{1}", "[", "a b"];
    if rng.chance(1, 14) { (*rng.pick(&ODD)).to_string() } else { (*rng.pick(&POOL)).to_string() }
}

fn rand_uri(rng: &mut Rng, rsync: bool, base: Option<&str>) -> String {
    const AUTH: [&str; 8] = ["rpki.example.org", "RPKI.Example.ORG", "h", "H", "host:873", "[::1]", "1.2.3.4", "Host:873"];
    let scheme = if rsync { *rng.pick(&["rsync://", "RSYNC://", "Rsync://"]) } else { *rng.pick(&["https://", "HTTPS://", "Https://"]) };
    if let Some(b) = base {
        if rng.chance(2, 3) {
            // a relative of an existing URI: extend, cut or re-case it
            let mut t = b.to_string();
            match rng.below(5) {
                0 => {
                    if !t.ends_with('/') { t.push('/'); }
                    t.push_str(&rand_seg(rng));
                }
                1 => { t.push('/'); }
                2 => { if let Some(i) = t.rfind('/') { if i > 9 { t.truncate(i + rng.below(2) as usize); } } }
                3 => { t = format!("{}{}", scheme, &t[8..]); let n = (8 + rng.below(12) as usize).min(t.len()); t = format!("{}{}", t[..n].to_ascii_uppercase(), &t[n..]); }
                _ => { t = t.replacen("repo", "Repo", 1); }
            }
            return t;
        }
    }
    let mut t = format!("{scheme}{}", rng.pick(&AUTH));
    let nseg = rng.below(5);
    for _ in 0..nseg {
        t.push('/');
        t.push_str(&rand_seg(rng));
    }
    if rng.chance(1, 2) { t.push('/'); }
    t
}

pub fn drive(args: &[String]) {
    let seed = arg_u64(args, "--seed", 1);
    let n = arg_u64(args, "--n", 1500);
    let out = arg_val(args, "--out").expect("--out");
    let mut rng = Rng::new(seed);
    let mut t = TraceOut::create(&out);
    let mut s = Summary::new();
    let mut pool_r: Vec<Rsync> = Vec::new();
    let mut pool_h: Vec<Https> = Vec::new();
    let opt = |o: Option<String>| -> Value { o.map(|x| chars(&x)).unwrap_or(json!([])) };
    for i in 0..n {
        let rsync = rng.chance(3, 5);
        let r = guarded(|| {
            if rsync {
                let base = if pool_r.is_empty() { None } else { Some(rng.pick(&pool_r).as_str().to_string()) };
                let text = rand_uri(&mut rng, true, base.as_deref());
                if let Ok(u) = Rsync::from_str(&text) {
                    t.ev(json!({"ev": "parse", "kind": "rsync", "s": chars(after_scheme(u.as_str())), "auth": chars(u.authority()),
                        "module": chars(u.module_name()), "path": chars(u.path()), "text_kept": u.as_str() == text}));
                    t.ev(json!({"ev": "parent", "kind": "rsync", "x": chars(after_scheme(u.as_str())),
                        "res_none": u.parent().is_none(), "res": opt(u.parent().map(|p| after_scheme(p.as_str()).to_string()))}));
                    if !pool_r.is_empty() {
                        let y = rng.pick(&pool_r).clone();
                        t.ev(json!({"ev": "pair", "kind": "rsync", "x": chars(after_scheme(u.as_str())), "y": chars(after_scheme(y.as_str())),
                            "eq": u == y, "hash_eq": hh(&u) == hh(&y), "rel_none": u.relative_to(&y).is_none(), "rel": opt(u.relative_to(&y).map(str::to_string)), "parent_of": u.is_parent_of(&y)}));
                    }
                    let p = match rng.below(5) { 0 => String::new(), 1 => format!("{}/", rand_seg(&mut rng)), 2 => format!("{}/{}", rand_seg(&mut rng), rand_seg(&mut rng)), _ => rand_seg(&mut rng) };
                    match u.join(p.as_bytes()) {
                        Ok(j) => t.ev(json!({"ev": "join", "kind": "rsync", "x": chars(after_scheme(u.as_str())), "p": chars(&p), "ok": true,
                            "res": chars(after_scheme(j.as_str())), "reparse_ok": Rsync::from_str(j.as_str()).map(|r| r == j && r.authority() == u.authority()).unwrap_or(false)})),
                        Err(_) => t.ev(json!({"ev": "join", "kind": "rsync", "x": chars(after_scheme(u.as_str())), "p": chars(&p), "ok": false, "res": [], "reparse_ok": true})),
                    }
                    if pool_r.len() < 40 { pool_r.push(u); } else { let k = rng.below(40) as usize; pool_r[k] = u; }
                    return true;
                }
                false
            } else {
                let base = if pool_h.is_empty() { None } else { Some(rng.pick(&pool_h).as_str().to_string()) };
                let text = rand_uri(&mut rng, false, base.as_deref());
                if let Ok(u) = Https::from_str(&text) {
                    t.ev(json!({"ev": "parse", "kind": "https", "s": chars(after_scheme(u.as_str())), "auth": chars(u.authority()),
                        "module": [], "path": chars(u.path()), "text_kept": u.as_str() == text}));
                    t.ev(json!({"ev": "parent", "kind": "https", "x": chars(after_scheme(u.as_str())),
                        "res_none": u.parent().is_none(), "res": opt(u.parent().map(|p| after_scheme(p.as_str()).to_string()))}));
                    if !pool_h.is_empty() {
                        let y = rng.pick(&pool_h).clone();
                        t.ev(json!({"ev": "pair", "kind": "https", "x": chars(after_scheme(u.as_str())), "y": chars(after_scheme(y.as_str())),
                            "eq": u == y, "hash_eq": hh(&u) == hh(&y), "rel_none": true, "rel": [], "parent_of": false}));
                    }
                    let p = match rng.below(4) { 0 => String::new(), 1 => format!("{}/", rand_seg(&mut rng)), _ => rand_seg(&mut rng) };
                    match u.join(p.as_bytes()) {
                        Ok(j) => t.ev(json!({"ev": "join", "kind": "https", "x": chars(after_scheme(u.as_str())), "p": chars(&p), "ok": true,
                            "res": chars(after_scheme(j.as_str())), "reparse_ok": Https::from_str(j.as_str()).map(|r| r == j && r.authority() == u.authority()).unwrap_or(false)})),
                        Err(_) => t.ev(json!({"ev": "join", "kind": "https", "x": chars(after_scheme(u.as_str())), "p": chars(&p), "ok": false, "res": [], "reparse_ok": true})),
                    }
                    if pool_h.len() < 40 { pool_h.push(u); } else { let k = rng.below(40) as usize; pool_h[k] = u; }
                    return true;
                }
                false
            }
        });
        match r {
            Ok(acc) => { s.eval_if(acc, &format!("{i}")); if acc { s.count("accepted", 1); } }
            Err(m) => s.violation("trace:panic", m, json!({"seed": seed, "i": i})),
        }
    }
    if let Some(u) = pool_r.first() { s.sample(json!({"rsync": u.as_str()})); }
    if let Some(u) = pool_h.last() { s.sample(json!({"https": u.as_str()})); }
    let nev = t.finish();
    s.set("events", json!(nev));
    s.print();
}
