//! Beyond the listed properties — binds spec/TalText.tla to rpki::repository::tal::Tal (RFC 8630 files).
use crate::common::*;
use crate::pki::*;
use bcder::encode::Values;
use bcder::Mode;
use rpki::repository::tal::Tal;
use serde_json::Value;

fn uri_of(tok: &str) -> &'static str {
    match tok {
        "r1" => "rsync://a.example/module/ta.cer",
        "r2" => "rsync://b.example/module/dir/ta.cer",
        "h1" => "https://a.example/ta/ta.cer",
        _ => "https://b.example/ta.cer",
    }
}

pub fn replay(args: &[String]) {
    let cases = read_cases(&args[0]);
    let mut s = Summary::new();
    let pki = Pki::new(1);
    let key = pki.pubkey("k0");
    let der = key.encode_ref().to_captured(Mode::Der).into_bytes();
    let b64 = base64::Engine::encode(&base64::engine::general_purpose::STANDARD, &der);
    for c in &cases {
        let r = guarded(|| -> Result<(), (String, String)> {
            let nl = if c["ending"] == "crlf" { "\r\n" } else { "\n" };
            let uris: Vec<&str> = c["uris"].as_array().unwrap().iter().map(|u| uri_of(u.as_str().unwrap())).collect();
            let chunks = c["chunks"].as_u64().unwrap() as usize;
            let mut text = String::new();
            for i in 0..c["comments"].as_u64().unwrap() {
                text.push_str(&format!("# comment {i}{nl}"));
            }
            for u in &uris {
                text.push_str(u);
                text.push_str(nl);
            }
            text.push_str(nl);
            // the key's base64 split into `chunks` lines of (nearly) equal length
            if chunks > 0 {
                let per = b64.len().div_ceil(chunks);
                let parts: Vec<&str> = b64.as_bytes().chunks(per).map(|x| std::str::from_utf8(x).unwrap()).collect();
                for (i, p) in parts.iter().enumerate() {
                    text.push_str(p);
                    if i + 1 < parts.len() {
                        text.push_str(nl);
                    } else {
                        match c["lastEnding"].as_str().unwrap() { "lf" => text.push('\n'), "crlf" => text.push_str("\r\n"), _ => {} }
                    }
                }
            }
            let res = Tal::read_named("model".into(), &mut text.as_bytes());
            let want_ok = c["ok"].as_bool().unwrap();
            let mut tal = match (res, want_ok) {
                (Ok(t), true) => t,
                (Err(_), false) => return Ok(()),
                (Ok(_), false) => return Err(("tal:accepted".into(), format!("file {text:?} is read although the specification's reader refuses it"))),
                (Err(e), true) => return Err(("tal:refused".into(), format!("file {text:?} is refused ({e}) although it is rendered from valid parts"))),
            };
            let got: Vec<String> = tal.uris().map(|u| u.as_str().to_string()).collect();
            if got != uris {
                return Err(("tal:uris".into(), format!("URIs read {got:?}, rendered {uris:?}")));
            }
            if tal.key_info() != &key {
                return Err(("tal:key".into(), "the key read differs from the key rendered".into()));
            }
            for (u, tok) in tal.uris().zip(c["uris"].as_array().unwrap()) {
                let https = tok.as_str().unwrap().starts_with('h');
                if u.is_https() != https || u.is_rsync() == https {
                    return Err(("tal:scheme".into(), format!("{} classified wrongly", u.as_str())));
                }
            }
            tal.prefer_https();
            let got: Vec<String> = tal.uris().map(|u| u.as_str().to_string()).collect();
            let want: Vec<&str> = c["preferred"].as_array().unwrap().iter().map(|u| uri_of(u.as_str().unwrap())).collect();
            if got != want {
                return Err(("tal:prefer_https".into(), format!("prefer_https gives {got:?}, specification {want:?}")));
            }
            Ok(())
        });
        match r {
            Ok(Ok(())) => {}
            Ok(Err((k, m))) => s.violation(&k, m, c.clone()),
            Err(m) => s.violation("tal:panic", m, c.clone()),
        }
        s.eval(Some(&format!("{c}")));
        if s.samples.len() < 3 && s.evaluations % 977 == 1 {
            s.sample(c.clone());
        }
    }
    let _: Option<Value> = None;
    s.print();
}
