//! C16 — binds spec/Rfc1982.tla to rpki::rtr::state::Serial.
use crate::common::*;
use rpki::rtr::state::Serial;
use serde_json::{json, Value};
use std::cmp::Ordering;

fn ord_name(o: Option<Ordering>) -> &'static str {
    match o {
        Some(Ordering::Equal) => "eq",
        Some(Ordering::Less) => "lt",
        Some(Ordering::Greater) => "gt",
        None => "none",
    }
}

/// The comparison as a caller sees it: `partial_cmp` and the four operators must tell the same story
/// ("ops-disagree" otherwise: e.g. `<` and `>` both true).
fn cmp_obs(a: u32, b: u32) -> Result<&'static str, String> {
    guarded(|| {
        let (x, y) = (Serial(a), Serial(b));
        let got = ord_name(x.partial_cmp(&y));
        #[allow(clippy::neg_cmp_op_on_partial_ord)]
        let ops = (x < y, x > y, x <= y, x >= y);
        let want = match got {
            "lt" => (true, false, true, false),
            "gt" => (false, true, false, true),
            "eq" => (false, false, true, true),
            _ => (false, false, false, false),
        };
        if ops == want { got } else { "ops-disagree" }
    })
}

/// Every width-W case is replayed under the exact embedding x -> x * 2^(32-W)
/// (a group homomorphism Z/2^W -> Z/2^32 that preserves the classification of
/// the difference) and, shifted by every offset in OFFS, still as the same
/// difference (the property says only the difference matters).
pub fn replay(args: &[String]) {
    let cases = read_cases(&args[0]);
    let mut s = Summary::new();
    for c in &cases {
        let w = c["w"].as_u64().unwrap() as u32;
        let sh = 32 - w;
        let a = (c["a"].as_u64().unwrap() as u32) << sh;
        let b = (c["b"].as_u64().unwrap() as u32) << sh;
        let exp = c["cmp"].as_str().unwrap();
        let rexp = c["rcmp"].as_str().unwrap();
        for off in [0u32, 1, 0x7FFF_FFFF, 0x8000_0000, 0xFFFF_FFFF, 0x1234_5678] {
            let (x, y) = (a.wrapping_add(off), b.wrapping_add(off));
            let key = format!("{w}:{}:{}:{off}", c["a"], c["b"]);
            s.eval(if a != b { Some(&key) } else { None });
            for (p, q, e, dir) in [(x, y, exp, "cmp"), (y, x, rexp, "rcmp")] {
                match cmp_obs(p, q) {
                    Ok(got) if got == e => {}
                    Ok(got) => s.violation(
                        &format!("cmp:{e}->{got}"),
                        format!("Serial({p}).partial_cmp(Serial({q})) = {got}, spec says {e}"),
                        json!({"case": c, "off": off, "dir": dir, "a": p, "b": q, "got": got, "exp": e}),
                    ),
                    Err(m) => s.violation("cmp:panic", m, json!({"case": c, "a": p, "b": q})),
                }
            }
            // equality must agree with "eq"
            if (Serial(x) == Serial(y)) != (exp == "eq") {
                s.violation("eq", format!("Serial({x}) == Serial({y}) disagrees with spec {exp}"), c.clone());
            }
        }
        // additions: spec gives Add(a, n) for n in {1, Half-1}
        if let Some(adds) = c["adds"].as_object() {
            for (n, r) in adds {
                let n: u32 = n.parse().unwrap();
                let (n32, r32) = (n << sh, (r.as_u64().unwrap() as u32) << sh);
                match guarded(|| Serial(a).add(n32)) {
                    Ok(got) if got.0 == r32 => {}
                    Ok(got) => s.violation("add:value", format!("Serial({a}).add({n32}) = {}, spec {r32}", got.0), c.clone()),
                    Err(m) => s.violation("add:panic", m, c.clone()),
                }
                s.eval(None);
            }
        }
        // State::inc is "add 1" on the state's serial, across the wrap as well, and leaves the session alone
        for base in [a, b, 0xFFFF_FFFF, 0xFFFF_FFFE, 0x7FFF_FFFF] {
            let r = guarded(|| {
                let mut st = rpki::rtr::state::State::from_parts(0x1234, Serial(base));
                st.inc();
                (st.session(), st.serial().0)
            });
            match r {
                Ok((0x1234, n)) if n == base.wrapping_add(1) && cmp_obs(base, n) == Ok("lt") => {}
                Ok((sess, n)) => s.violation("inc:value", format!("State(session 0x1234, serial {base}).inc() gives session {sess:#x} serial {n}"), c.clone()),
                Err(m) => s.violation("inc:panic", format!("State::inc at serial {base} panicked: {m}"), c.clone()),
            }
        }
        // wire conversion where it happens: every PDU that carries a serial number puts it on the wire big-endian (octets 8..12) and
        // hands the same number back through each of its accessors
        for base in [a, b, a ^ 0x00FF_00FF] {
            use rpki::rtr::pdu;
            use rpki::rtr::payload::Timing;
            let st = rpki::rtr::state::State::from_parts(0x4321, Serial(base));
            let r = guarded(|| -> Vec<(&'static str, Vec<u8>, Vec<u32>)> {
                let sn = pdu::SerialNotify::new(1, st);
                let sq = pdu::SerialQuery::new(2, st);
                let e0 = pdu::EndOfDataV0::new(st);
                let e1 = pdu::EndOfDataV1::new(1, st, Timing::default());
                let g0 = pdu::EndOfData::new(0, st, Timing::default());
                let g2 = pdu::EndOfData::new(2, st, Timing::default());
                let bytes = |x: &dyn AsRef<[u8]>| x.as_ref().to_vec();
                vec![
                    ("SerialNotify", bytes(&sn), vec![]),
                    ("SerialQuery", bytes(&sq), vec![]),
                    ("SerialQueryPayload", { let mut v = vec![0u8; 8]; v.extend_from_slice(pdu::SerialQueryPayload::new(Serial(base)).as_ref()); v }, vec![pdu::SerialQueryPayload::new(Serial(base)).serial().0]),
                    ("EndOfDataV0", bytes(&e0), vec![e0.serial().0]),
                    ("EndOfDataV1", bytes(&e1), vec![e1.serial().0]),
                    ("EndOfData(v0)", bytes(&g0), vec![g0.serial().0, g0.state().serial().0]),
                    ("EndOfData(v2)", bytes(&g2), vec![g2.serial().0, g2.state().serial().0]),
                ]
            });
            match r {
                Err(m) => s.violation("wire:pdu:panic", m, c.clone()),
                Ok(v) => for (name, bytes, got) in v {
                    if bytes.len() < 12 || bytes[8..12] != base.to_be_bytes() {
                        s.violation("wire:pdu:bytes", format!("{name} with serial {base:#010x} has octets 8..12 = {:02x?}", &bytes[8..12.min(bytes.len())]), c.clone());
                    }
                    if got.iter().any(|x| *x != base) {
                        s.violation("wire:pdu:accessor", format!("{name} with serial {base:#010x} hands back {got:x?}"), c.clone());
                    }
                    // ... onto the wire through the PDU's own writer, into a sink that takes five or eleven octets per call
                    for k in [5usize, 11] {
                        crate::rtrwire::DRIBBLE.with(|d| d.set(k));
                        let st2 = rpki::rtr::state::State::from_parts(0x4321, Serial(base));
                        let written = guarded(|| match name {
                            "SerialNotify" => Some(crate::rtrwire::write_bytes(|w| async move { pdu::SerialNotify::new(1, st2).write(w).await })),
                            "SerialQuery" => Some(crate::rtrwire::write_bytes(|w| async move { pdu::SerialQuery::new(2, st2).write(w).await })),
                            "EndOfDataV0" => Some(crate::rtrwire::write_bytes(|w| async move { pdu::EndOfDataV0::new(st2).write(w).await })),
                            "EndOfDataV1" => Some(crate::rtrwire::write_bytes(|w| async move { pdu::EndOfDataV1::new(1, st2, Timing::default()).write(w).await })),
                            "EndOfData(v0)" => Some(crate::rtrwire::write_bytes(|w| async move { pdu::EndOfData::new(0, st2, Timing::default()).write(w).await })),
                            "EndOfData(v2)" => Some(crate::rtrwire::write_bytes(|w| async move { pdu::EndOfData::new(2, st2, Timing::default()).write(w).await })),
                            _ => None,
                        });
                        crate::rtrwire::DRIBBLE.with(|d| d.set(usize::MAX));
                        match written {
                            Ok(Some(w)) => if w != bytes { s.violation("wire:pdu:write", format!("{name} with serial {base:#010x} written {k} octets at a time puts {:02x?} on the wire, its octets are {:02x?}", w, bytes), c.clone()); },
                            Ok(None) => {}
                            Err(m) => s.violation("wire:pdu:panic", m, c.clone()),
                        }
                    }
                    // ... and back from the wire, however the octets arrive: whole, in threes, one at a time
                    for chunk in [64usize, 3, 1] {
                        match guarded(|| read_serial_back(name, &bytes, chunk)) {
                            Ok(Ok((serial, used))) => if serial != base || used != bytes.len() {
                                s.violation("wire:pdu:read", format!("{name} with serial {base:#010x} delivered {chunk} octets at a time reads back as {serial:#010x} after {used} of {} octets", bytes.len()), c.clone());
                            },
                            Ok(Err(m)) => s.violation("wire:pdu:read", format!("{name} with serial {base:#010x} delivered {chunk} octets at a time is not read back: {m}"), c.clone()),
                            Err(m) => s.violation("wire:pdu:panic", m, c.clone()),
                        }
                    }
                },
            }
            s.evals(1);
        }
        // the largest permitted increment, natively (2^31-1 is not a multiple of 2^(32-W))
        for base in [a, b] {
            match guarded(|| Serial(base).add(0x7FFF_FFFF)) {
                Ok(got) if got.0 == base.wrapping_add(0x7FFF_FFFF) && cmp_obs(base, got.0) == Ok("lt") => {}
                Ok(got) => s.violation("add:max-increment", format!("Serial({base}).add(2^31-1) = {}", got.0), c.clone()),
                Err(m) => s.violation("add:panic", format!("Serial({base}).add(2^31-1) panicked: {m}"), c.clone()),
            }
        }
        if s.samples.len() < 3 && a != b {
            s.sample(json!({"case": c, "a32": a, "b32": b, "impl": cmp_obs(a, b).unwrap_or("panic")}));
        }
    }
    s.print();
}

/// Poll a future whose stream is always ready (crate::rtrwire::Counting) to its end.
fn run_now<F: std::future::Future>(f: F) -> Option<F::Output> {
    let mut f = std::pin::pin!(f);
    let mut cx = std::task::Context::from_waker(std::task::Waker::noop());
    for _ in 0..200 {
        if let std::task::Poll::Ready(v) = f.as_mut().poll(&mut cx) { return Some(v); }
    }
    None
}
/// The serial number a PDU's own reader takes from the wire, and the octets it consumed.
fn read_serial_back(name: &str, bytes: &[u8], chunk: usize) -> Result<(u32, usize), String> {
    use rpki::rtr::pdu;
    let mut rd = crate::rtrwire::Counting::new(bytes.to_vec(), chunk);
    let e = |x: std::io::Error| x.to_string();
    let serial = run_now(async {
        Ok::<u32, String>(match name {
            "SerialNotify" => { let p = pdu::SerialNotify::read(&mut rd).await.map_err(e)?; let b: &[u8] = p.as_ref(); u32::from_be_bytes([b[8], b[9], b[10], b[11]]) }
            "SerialQuery" => { let p = pdu::SerialQuery::read(&mut rd).await.map_err(e)?; let b: &[u8] = p.as_ref(); u32::from_be_bytes([b[8], b[9], b[10], b[11]]) }
            "SerialQueryPayload" => { let _h = pdu::Header::read(&mut rd).await.map_err(e)?; pdu::SerialQueryPayload::read(&mut rd).await.map_err(e)?.serial().0 }
            "EndOfDataV0" => pdu::EndOfDataV0::read(&mut rd).await.map_err(e)?.serial().0,
            "EndOfDataV1" => pdu::EndOfDataV1::read(&mut rd).await.map_err(e)?.serial().0,
            _ => match pdu::Payload::read(&mut rd).await.map_err(e)? { Err(eod) => eod.serial().0, Ok(_) => return Err("read as a payload PDU".into()) },
        })
    }).ok_or("the reader waits although the stream has ended")??;
    Ok((serial, rd.consumed()))
}

fn halves(x: u32) -> Value {
    json!([x >> 16, x & 0xFFFF])
}

/// Record full-width operations for Trace_Rfc1982 (values as 16-bit halves,
/// since TLC integers are 32-bit signed).
pub fn drive(args: &[String]) {
    let seed = arg_u64(args, "--seed", 1);
    let n = arg_u64(args, "--n", 2000);
    let out = arg_val(args, "--out").expect("--out");
    let mut rng = Rng::new(seed);
    let mut t = TraceOut::create(&out);
    let mut s = Summary::new();
    let interesting: [u32; 10] = [0, 1, 2, 0x7FFF_FFFE, 0x7FFF_FFFF, 0x8000_0000, 0x8000_0001, 0xFFFF_FFFE, 0xFFFF_FFFF, 0x0001_0000];
    for i in 0..n {
        let a = if rng.chance(1, 3) { *rng.pick(&interesting) } else { rng.next() as u32 };
        let b = match rng.below(4) {
            0 => a.wrapping_add(*rng.pick(&interesting)),
            1 => a.wrapping_sub(*rng.pick(&interesting)),
            2 => *rng.pick(&interesting),
            _ => rng.next() as u32,
        };
        match i % 3 {
            0 => {
                let res = cmp_obs(a, b).unwrap_or("panic");
                t.ev(json!({"ev": "cmp", "a": halves(a), "b": halves(b), "res": res}));
                s.eval(Some(&format!("cmp{a}:{b}")));
            }
            1 => {
                let nn = if rng.chance(1, 8) { 0x7FFF_FFFF } else { (b & 0x7FFF_FFFF).max(1) };
                match guarded(|| Serial(a).add(nn)) {
                    Ok(r) => {
                        let after = cmp_obs(a, r.0).unwrap_or("panic");
                        t.ev(json!({"ev": "add", "a": halves(a), "n": halves(nn), "res": halves(r.0), "cmp": after}));
                    }
                    Err(m) => s.violation("add:panic", format!("Serial({a}).add({nn}) panicked: {m}"), json!({"a": a, "n": nn})),
                }
                s.eval(Some(&format!("add{a}:{nn}")));
            }
            _ => {
                // wire form: to_be gives the value whose in-memory bytes are big-endian
                let wire = Serial(a).to_be().to_ne_bytes();
                let back = Serial::from_be(u32::from_ne_bytes(wire)).0;
                t.ev(json!({"ev": "wire", "a": halves(a), "bytes": wire.to_vec(), "back": halves(back)}));
                s.eval(Some(&format!("wire{a}")));
            }
        }
    }
    let n = t.finish();
    s.set("events", json!(n));
    s.print();
}

/// Native exhaustive loop: all 2^32 differences from several bases against a
/// Rust transcription of the spec's Cmp (which `replay` validates against TLC).
pub fn native(args: &[String]) {
    let step = arg_u64(args, "--stride", 1) as u32; // 1 = all differences
    let bases: [u32; 6] = [0, 1, 0x7FFF_FFFF, 0x8000_0000, 0xFFFF_FFFF, 0xDEAD_BEEF];
    let mut s = Summary::new();
    fn spec_cmp(a: u32, b: u32) -> &'static str {
        let d = b.wrapping_sub(a);
        if d == 0 { "eq" } else if d < 0x8000_0000 { "lt" } else if d > 0x8000_0000 { "gt" } else { "none" }
    }
    let handles: Vec<_> = bases
        .iter()
        .map(|&base| {
            std::thread::spawn(move || {
                let mut bad: Vec<(u32, u32, &'static str, &'static str)> = Vec::new();
                let mut n = 0u64;
                let mut d: u64 = 0;
                while d <= 0xFFFF_FFFF {
                    let b = base.wrapping_add(d as u32);
                    let got = ord_name(Serial(base).partial_cmp(&Serial(b)));
                    let exp = spec_cmp(base, b);
                    if got != exp && bad.len() < 4 {
                        bad.push((base, b, got, exp));
                    }
                    if d >= 1 && d < 0x8000_0000 {
                        let r = Serial(base).add(d as u32);
                        if r.0 != b && bad.len() < 4 {
                            bad.push((base, b, "add", "add"));
                        }
                    }
                    n += 1;
                    d += step as u64;
                }
                (n, bad)
            })
        })
        .collect();
    for h in handles {
        let (n, bad) = h.join().unwrap();
        s.evals(n);
        for (a, b, got, exp) in bad {
            s.violation(&format!("native:{exp}->{got}"), format!("Serial({a}) vs Serial({b}): {got}, spec {exp}"), json!({"a": a, "b": b}));
        }
    }
    for b in bases {
        s.nontrivial(&format!("{b}"));
    }
    s.sample(json!({"bases": bases, "stride": step}));
    s.print();
}
