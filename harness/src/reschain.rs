//! C03 — binds spec/ResChain.tla (+ IntervalSet, IpCanon) to the resource-set
//! types of rpki::repository::resources through their public API only.
use crate::common::*;
use crate::der;
use rpki::repository::cert::Overclaim;
use rpki::repository::resources::{
    Addr, AddressRange, AsBlock, AsBlocks, AsResources, Asn, IpBlock, IpBlocks, IpResources, Ipv4Blocks,
    Ipv6Blocks, Prefix, ResourceSet,
};
use serde_json::{json, Value};
use std::str::FromStr;

type Raw = (u128, u128);

// --------------------------------------------------------------------------
// embeddings of the model line 0..=top into the real number spaces
// --------------------------------------------------------------------------
#[derive(Clone, Copy, Debug, PartialEq)]
pub enum Fam {
    As,
    V4,
    V6,
}

#[derive(Clone, Copy, Debug)]
pub struct Emb {
    pub name: &'static str,
    pub fam: Fam,
    base: u128,  // value of lo(0) in "units"
    scale: u128, // width of one model point in units
    /// Some(top): cell 0 starts at 0 and cell `top` ends at the maximum of the unit space
    full: Option<u64>,
}

const M96: u128 = (1u128 << 96) - 1;

impl Emb {
    /// units -> concrete (AS: u32 as u128; v4: the 32-bit value; v6: u128)
    fn lo_u(&self, p: u64) -> u128 {
        if self.full.is_some() && p == 0 { return 0; }
        self.base + p as u128 * self.scale
    }
    fn hi_u(&self, p: u64) -> u128 {
        if self.full == Some(p) {
            return match self.fam { Fam::V6 => u128::MAX, _ => u32::MAX as u128 };
        }
        self.base + p as u128 * self.scale + (self.scale - 1)
    }
    pub fn lo(&self, p: u64) -> u128 {
        match self.fam {
            Fam::V4 => self.lo_u(p) << 96,
            _ => self.lo_u(p),
        }
    }
    pub fn hi(&self, p: u64) -> u128 {
        match self.fam {
            Fam::V4 => (self.hi_u(p) << 96) | M96,
            _ => self.hi_u(p),
        }
    }
    pub fn block(&self, b: (u64, u64)) -> Raw {
        (self.lo(b.0), self.hi(b.1))
    }
    /// inverse on block bounds; None if the bound is not on the grid
    fn inv_lo(&self, v: u128, top: u64) -> Option<u64> {
        (0..=top).find(|&p| self.lo(p) == v)
    }
    fn inv_hi(&self, v: u128, top: u64) -> Option<u64> {
        (0..=top).find(|&p| self.hi(p) == v)
    }
}

/// Embeddings are tilings of a stretch of the number space by `top + 1` contiguous cells. The `*_full` ones stretch the first cell
/// down to 0 and the last cell up to the maximum, so that the model block [0, top] is the whole space.
pub fn embeddings(top: u64) -> Vec<Emb> {
    let n = top as u128 + 1;
    let w = (64 - (top).leading_zeros()) as u32; // bits needed for 0..=top
    let w = w.max(1);
    let slots = 1u128 << w;
    vec![
        Emb { name: "as_lo", fam: Fam::As, base: 0, scale: 1, full: None },
        Emb { name: "as_hi", fam: Fam::As, base: (1u128 << 32) - n, scale: 1, full: None },
        Emb { name: "as_scaled", fam: Fam::As, base: 64496, scale: 1000, full: None },
        Emb { name: "as_scaled_hi", fam: Fam::As, base: (1u128 << 32) - n * 65536, scale: 65536, full: None },
        Emb { name: "v4_top", fam: Fam::V4, base: 0, scale: 1u128 << (32 - w), full: None },
        Emb { name: "v4_top_hi", fam: Fam::V4, base: (slots - n) << (32 - w), scale: 1u128 << (32 - w), full: None },
        Emb { name: "v4_bot", fam: Fam::V4, base: 0x0A00_0000, scale: 1, full: None },
        Emb { name: "v4_bot_hi", fam: Fam::V4, base: (1u128 << 32) - n, scale: 1, full: None },
        Emb { name: "v4_mid", fam: Fam::V4, base: 0xC000_0200, scale: 16, full: None },
        Emb { name: "v6_top", fam: Fam::V6, base: 0, scale: 1u128 << (128 - w), full: None },
        Emb { name: "v6_top_hi", fam: Fam::V6, base: (slots - n) << (128 - w), scale: 1u128 << (128 - w), full: None },
        Emb { name: "v6_bot", fam: Fam::V6, base: 0x2001_0db8u128 << 96, scale: 1, full: None },
        Emb { name: "v6_bot_hi", fam: Fam::V6, base: u128::MAX - (n - 1), scale: 1, full: None },
        Emb { name: "v6_mid", fam: Fam::V6, base: 0x2001_0db8u128 << 96, scale: 1u128 << 64, full: None },
        // IPv4-mapped addresses: the text form of these ends in a dotted quad
        Emb { name: "v6_mapped", fam: Fam::V6, base: 0xffff_0a00_0000u128, scale: 1, full: None },
        Emb { name: "as_full", fam: Fam::As, base: 0x8000_0000, scale: 1, full: Some(top) },
        Emb { name: "v4_full", fam: Fam::V4, base: 0x8000_0000, scale: 2, full: Some(top) },
        Emb { name: "v6_full", fam: Fam::V6, base: 1u128 << 127, scale: 1u128 << 64, full: Some(top) },
    ]
}

// --------------------------------------------------------------------------
// a uniform view of AsBlocks / IpBlocks
// --------------------------------------------------------------------------
#[derive(Clone, Debug)]
pub enum Set {
    As(AsBlocks),
    Ip(IpBlocks, Fam),
}

/// independent definition of "this range is expressible as a prefix"
fn is_prefix_range(min: u128, max: u128) -> bool {
    if min > max {
        return false;
    }
    let size_m1 = max - min;
    // size power of two <=> size_m1 + 1 has one bit <=> size_m1 is all ones below
    let pow2 = size_m1 & size_m1.wrapping_add(1) == 0;
    pow2 && (min & size_m1) == 0
}

fn as_block(r: Raw, force_range: bool) -> AsBlock {
    let (a, b) = (Asn::from_u32(r.0 as u32), Asn::from_u32(r.1 as u32));
    if force_range || r.0 != r.1 {
        AsBlock::from((a, b))
    } else {
        AsBlock::Id(a)
    }
}

fn ip_block(r: Raw, force_range: bool) -> IpBlock {
    let (a, b) = (Addr::from_bits(r.0), Addr::from_bits(r.1));
    if force_range {
        IpBlock::Range(AddressRange::new(a, b))
    } else {
        IpBlock::from((a, b))
    }
}

impl Set {
    /// the same blocks collected another way: 1 = pushed one by one into the family's builder, 2 = written as text and parsed
    pub fn build_via(fam: Fam, blocks: &[Raw], force_range: bool, route: u64) -> Set {
        use rpki::repository::resources::{AsBlocksBuilder, IpBlocksBuilder};
        match (route % 3, fam) {
            (1, Fam::As) => { let mut b = AsBlocksBuilder::new(); for &r in blocks { b.push(as_block(r, force_range)); } Set::As(b.finalize()) }
            (1, f) => { let mut b = IpBlocksBuilder::new(); for &r in blocks { b.push(ip_block(r, force_range)); } Set::Ip(b.finalize(), f) }
            (2, f) if !blocks.is_empty() => Set::parse(f, &raw_text(f, blocks)).unwrap_or_else(|m| panic!("own text form of blocks refused: {m}")),
            _ => Set::build(fam, blocks, force_range),
        }
    }
    pub fn build(fam: Fam, blocks: &[Raw], force_range: bool) -> Set {
        match fam {
            Fam::As => Set::As(blocks.iter().map(|&r| as_block(r, force_range)).collect()),
            f => Set::Ip(blocks.iter().map(|&r| ip_block(r, force_range)).collect(), f),
        }
    }
    /// (min, max, kind) with kind = Id / Prefix variant
    pub fn blocks(&self) -> Vec<(u128, u128, bool)> {
        match self {
            Set::As(s) => s
                .iter()
                .map(|b| (b.min().into_u32() as u128, b.max().into_u32() as u128, matches!(b, AsBlock::Id(_))))
                .collect(),
            Set::Ip(s, _) => s
                .iter()
                .map(|b| (b.min().to_bits(), b.max().to_bits(), matches!(b, IpBlock::Prefix(_))))
                .collect(),
        }
    }
    fn expected_kind(&self, min: u128, max: u128) -> bool {
        match self {
            Set::As(_) => min == max,
            Set::Ip(..) => is_prefix_range(min, max),
        }
    }
    pub fn inter(&self, o: &Set) -> Set {
        match (self, o) {
            (Set::As(a), Set::As(b)) => Set::As(a.intersection(b)),
            (Set::Ip(a, f), Set::Ip(b, _)) => Set::Ip(a.intersection(b), *f),
            _ => unreachable!(),
        }
    }
    pub fn inter_assign(&self, o: &Set) -> Set {
        match (self, o) {
            (Set::As(a), Set::As(b)) => { let mut x = a.clone(); x.intersection_assign(b); Set::As(x) }
            (Set::Ip(a, f), Set::Ip(b, _)) => { let mut x = a.clone(); x.intersection_assign(b); Set::Ip(x, *f) }
            _ => unreachable!(),
        }
    }
    /// self.verify_covered(issuer): issuer Some(blocks) or None = the extension is missing
    pub fn verify_covered(&self, issuer: Option<&Set>) -> bool {
        match (self, issuer) {
            (Set::As(a), Some(Set::As(b))) => a.verify_covered(&AsResources::blocks(b.clone())).is_ok(),
            (Set::As(a), None) => a.verify_covered(&AsResources::missing()).is_ok(),
            (Set::Ip(a, _), Some(Set::Ip(b, _))) => a.verify_covered(&IpResources::blocks(b.clone())).is_ok(),
            (Set::Ip(a, _), None) => a.verify_covered(&IpResources::missing()).is_ok(),
            _ => unreachable!(),
        }
    }
    pub fn covered_by_inherit(&self) -> bool {
        match self {
            Set::As(a) => a.verify_covered(&AsResources::inherit()).is_ok(),
            Set::Ip(a, _) => a.verify_covered(&IpResources::inherit()).is_ok(),
        }
    }
    pub fn diff(&self, o: &Set) -> Set {
        match (self, o) {
            (Set::As(a), Set::As(b)) => Set::As(a.difference(b)),
            (Set::Ip(a, f), Set::Ip(b, _)) => Set::Ip(a.difference(b), *f),
            _ => unreachable!(),
        }
    }
    pub fn union(&self, o: &Set) -> Set {
        match (self, o) {
            (Set::As(a), Set::As(b)) => Set::As(a.union(b)),
            (Set::Ip(a, f), Set::Ip(b, _)) => Set::Ip(a.union(b), *f),
            _ => unreachable!(),
        }
    }
    /// self.contains(o)
    pub fn contains(&self, o: &Set) -> bool {
        match (self, o) {
            (Set::As(a), Set::As(b)) => a.contains(b),
            (Set::Ip(a, _), Set::Ip(b, _)) => a.contains(b),
            _ => unreachable!(),
        }
    }
    pub fn equals(&self, o: &Set) -> bool {
        match (self, o) {
            (Set::As(a), Set::As(b)) => a == b,
            (Set::Ip(a, _), Set::Ip(b, _)) => a == b,
            _ => unreachable!(),
        }
    }
    pub fn contains_range(&self, r: Raw) -> bool {
        match self {
            Set::As(a) => {
                if r.0 == r.1 {
                    a.contains_asn(Asn::from_u32(r.0 as u32))
                } else {
                    a.contains(&[as_block(r, false)].into_iter().collect())
                }
            }
            Set::Ip(a, _) => a.contains_block(ip_block(r, false)),
        }
    }
    pub fn intersects_range(&self, r: Raw) -> Option<bool> {
        match self {
            Set::As(_) => None,
            Set::Ip(a, _) => Some(a.intersects_block(ip_block(r, false))),
        }
    }
    /// issuer.verify_issued(claimed = self): Ok(eff) / Err
    pub fn verify_issued(&self, issuer: &Set, mode: Overclaim) -> Option<Set> {
        match (issuer, self) {
            (Set::As(i), Set::As(c)) => i.verify_issued(&AsResources::blocks(c.clone()), mode).ok().map(Set::As),
            (Set::Ip(i, f), Set::Ip(c, _)) => {
                i.verify_issued(&IpResources::blocks(c.clone()), mode).ok().map(|s| Set::Ip(s, *f))
            }
            _ => unreachable!(),
        }
    }
    pub fn text(&self) -> String {
        match self {
            Set::As(a) => a.to_string(),
            Set::Ip(a, Fam::V4) => a.as_v4().to_string(),
            Set::Ip(a, _) => a.as_v6().to_string(),
        }
    }
    pub fn parse(fam: Fam, s: &str) -> Result<Set, String> {
        match fam {
            Fam::As => AsBlocks::from_str(s).map(Set::As).map_err(|e| e.to_string()),
            Fam::V4 => Ipv4Blocks::from_str(s).map(|b| Set::Ip((*b).clone(), fam)).map_err(|e| e.to_string()),
            Fam::V6 => Ipv6Blocks::from_str(s).map(|b| Set::Ip((*b).clone(), fam)).map_err(|e| e.to_string()),
        }
    }
    pub fn serde_roundtrip(&self) -> Result<Set, String> {
        match self {
            Set::As(a) => {
                let j = serde_json::to_string(a).map_err(|e| e.to_string())?;
                serde_json::from_str::<AsBlocks>(&j).map(Set::As).map_err(|e| format!("{e} on {j}"))
            }
            Set::Ip(a, Fam::V4) => {
                let j = serde_json::to_string(&Ipv4Blocks::from(a.clone())).map_err(|e| e.to_string())?;
                serde_json::from_str::<Ipv4Blocks>(&j).map(|b| Set::Ip((*b).clone(), Fam::V4)).map_err(|e| format!("{e} on {j}"))
            }
            Set::Ip(a, f) => {
                let j = serde_json::to_string(&Ipv6Blocks::from(a.clone())).map_err(|e| e.to_string())?;
                serde_json::from_str::<Ipv6Blocks>(&j).map(|b| Set::Ip((*b).clone(), *f)).map_err(|e| format!("{e} on {j}"))
            }
        }
    }
    pub fn der_roundtrip(&self) -> Result<Set, String> {
        use bcder::encode::Values;
        use bcder::Mode;
        match self {
            Set::As(a) => {
                let bytes = bcder::encode::sequence(a.encode_ref()).to_captured(Mode::Der).into_bytes();
                Mode::Der.decode(bytes.as_ref(), AsBlocks::take_from).map(Set::As).map_err(|e| e.to_string())
            }
            Set::Ip(a, f) => {
                let bytes = a.encode_ref().to_captured(Mode::Der).into_bytes();
                let fam = if *f == Fam::V4 {
                    rpki::repository::resources::AddressFamily::Ipv4
                } else {
                    rpki::repository::resources::AddressFamily::Ipv6
                };
                Mode::Der
                    .decode(bytes.as_ref(), |c| IpBlocks::take_from_with_family(c, fam))
                    .map(|s| Set::Ip(s, *f))
                    .map_err(|e| e.to_string())
            }
        }
    }
    pub fn asn_count(&self) -> Option<u32> {
        match self {
            Set::As(a) => Some(a.asn_count()),
            _ => None,
        }
    }
}

/// Hand-assembled RFC 3779 DER of the raw (possibly unsorted, overlapping) blocks.
fn raw_der(fam: Fam, blocks: &[Raw]) -> Vec<u8> {
    let items: Vec<Vec<u8>> = blocks
        .iter()
        .map(|&(lo, hi)| match fam {
            Fam::As => {
                if lo == hi {
                    der::uint(lo)
                } else {
                    der::seq(&[der::uint(lo), der::uint(hi)])
                }
            }
            _ => {
                if is_prefix_range(lo, hi) {
                    let len = 128 - (lo ^ hi).count_ones();
                    der::bits128(lo, len as u8)
                } else {
                    let lz = if lo == 0 { 0 } else { 128 - lo.trailing_zeros() };
                    let lo_b = der::bits128(lo, lz as u8);
                    let hi_b = der::bits128(hi, (128 - hi.trailing_ones()) as u8);
                    der::seq(&[lo_b, hi_b])
                }
            }
        })
        .collect();
    der::seq(&items)
}

fn decode_raw_der(fam: Fam, bytes: &[u8]) -> Result<Set, String> {
    use bcder::Mode;
    match fam {
        Fam::As => Mode::Der.decode(bytes, AsBlocks::take_from).map(Set::As).map_err(|e| e.to_string()),
        f => {
            let af = if f == Fam::V4 {
                rpki::repository::resources::AddressFamily::Ipv4
            } else {
                rpki::repository::resources::AddressFamily::Ipv6
            };
            Mode::Der
                .decode(bytes, |c| IpBlocks::take_from_with_family(c, af))
                .map(|s| Set::Ip(s, f))
                .map_err(|e| e.to_string())
        }
    }
}

fn raw_text(fam: Fam, blocks: &[Raw]) -> String {
    blocks
        .iter()
        .map(|&(lo, hi)| match fam {
            Fam::As => {
                if lo == hi {
                    format!("AS{lo}")
                } else {
                    format!("AS{lo}-AS{hi}")
                }
            }
            Fam::V4 => {
                let (a, b) = ((lo >> 96) as u32, (hi >> 96) as u32);
                format!("{}-{}", std::net::Ipv4Addr::from(a), std::net::Ipv4Addr::from(b))
            }
            Fam::V6 => format!("{}-{}", std::net::Ipv6Addr::from(lo), std::net::Ipv6Addr::from(hi)),
        })
        .collect::<Vec<_>>()
        .join(", ")
}

// --------------------------------------------------------------------------
// projection back to the model and comparison
// --------------------------------------------------------------------------
fn model_blocks(v: &Value) -> Vec<(u64, u64)> {
    v.as_array()
        .map(|a| a.iter().map(|b| (b[0].as_u64().unwrap(), b[1].as_u64().unwrap())).collect())
        .unwrap_or_default()
}

/// Compare a concrete set with the model chain `exp`; returns a mismatch description.
fn check_set(set: &Set, exp: &[(u64, u64)], e: &Emb, top: u64) -> Result<(), String> {
    let got = set.blocks();
    let mut proj = Vec::new();
    for &(lo, hi, kind) in &got {
        let (Some(a), Some(b)) = (e.inv_lo(lo, top), e.inv_hi(hi, top)) else {
            return Err(format!("block {lo:#x}-{hi:#x} is not on the embedding grid"));
        };
        if kind != set.expected_kind(lo, hi) {
            return Err(format!(
                "block {lo:#x}-{hi:#x} stored as {} but canonical form is {}",
                if kind { "Id/Prefix" } else { "Range" },
                if set.expected_kind(lo, hi) { "Id/Prefix" } else { "Range" }
            ));
        }
        proj.push((a, b));
    }
    if proj != exp {
        return Err(format!("blocks {proj:?}, specification says {exp:?}"));
    }
    Ok(())
}

fn den(c: &[(u64, u64)], p: u64) -> bool {
    c.iter().any(|&(a, b)| a <= p && p <= b)
}

struct Ctx<'a> {
    s: &'a mut Summary,
    case: &'a Value,
    emb: &'a Emb,
    top: u64,
}

impl Ctx<'_> {
    fn bad(&mut self, key: &str, what: String) {
        let k = format!("{key}:{}", match self.emb.fam { Fam::As => "as", Fam::V4 => "v4", Fam::V6 => "v6" });
        self.s.violation(&k, format!("[{}] {what}", self.emb.name), json!({"case": self.case, "emb": self.emb.name}));
    }
    fn expect_set(&mut self, key: &str, got: Result<Set, String>, exp: &[(u64, u64)]) -> Option<Set> {
        match got {
            Ok(set) => match check_set(&set, exp, self.emb, self.top) {
                Ok(()) => Some(set),
                Err(m) => {
                    self.bad(key, m);
                    None
                }
            },
            Err(m) => {
                self.bad(&format!("{key}:panic-or-error"), m);
                None
            }
        }
    }
}

fn g<T>(f: impl FnOnce() -> T) -> Result<T, String> {
    guarded(f).map_err(|m| format!("panic: {m}"))
}

/// Round trips and per-item queries every obtained set must satisfy.
fn check_obtained(cx: &mut Ctx, key: &str, set: &Set, exp: &[(u64, u64)]) {
    let fam = cx.emb.fam;
    // text and serde forms parse back to an equal set
    match g(|| Set::parse(fam, &set.text())) {
        Ok(Ok(back)) => {
            if !g(|| back.equals(set)).unwrap_or(false) || check_set(&back, exp, cx.emb, cx.top).is_err() {
                cx.bad(&format!("{key}:text-roundtrip"), format!("'{}' parses back to a different set", set.text()));
            }
        }
        Ok(Err(m)) => cx.bad(&format!("{key}:text-roundtrip"), format!("own text form '{}' does not parse: {m}", set.text())),
        Err(m) => cx.bad(&format!("{key}:text-roundtrip"), m),
    }
    match g(|| set.serde_roundtrip()) {
        Ok(Ok(back)) => {
            if check_set(&back, exp, cx.emb, cx.top).is_err() {
                cx.bad(&format!("{key}:serde-roundtrip"), "serde form parses back to a different set".into());
            }
        }
        Ok(Err(m)) | Err(m) => cx.bad(&format!("{key}:serde-roundtrip"), m),
    }
    match g(|| set.der_roundtrip()) {
        Ok(Ok(back)) => {
            if check_set(&back, exp, cx.emb, cx.top).is_err() {
                cx.bad(&format!("{key}:der-roundtrip"), "DER form decodes to a different set".into());
            }
        }
        Ok(Err(m)) | Err(m) => cx.bad(&format!("{key}:der-roundtrip"), m),
    }
    // membership of every model point, and of every model block
    for p in 0..=cx.top {
        let r = cx.emb.block((p, p));
        match g(|| set.contains_range(r)) {
            Ok(b) if b == den(exp, p) => {}
            Ok(b) => cx.bad(&format!("{key}:member"), format!("point {p}: contains = {b}, specification {}", den(exp, p))),
            Err(m) => cx.bad(&format!("{key}:member"), m),
        }
        // single item at the low and high end of the embedded point
        if cx.emb.scale > 1 {
            for v in [cx.emb.lo(p), cx.emb.hi(p)] {
                let single = match fam {
                    Fam::V4 => (v & !M96, v | M96),
                    _ => (v, v),
                };
                match g(|| set.contains_range(single)) {
                    Ok(b) if b == den(exp, p) => {}
                    Ok(b) => cx.bad(&format!("{key}:member-item"), format!("item {v:#x}: contains = {b}")),
                    Err(m) => cx.bad(&format!("{key}:member-item"), m),
                }
            }
        }
        if let Ok(Some(b)) = g(|| set.intersects_range(r)) {
            if b != den(exp, p) {
                cx.bad(&format!("{key}:intersects"), format!("point {p}: intersects_block = {b}"));
            }
        }
    }
    // ---- the rest of the public surface that yields or inspects a set (every one of these is "obtainable through the public API")
    api_sweep(cx, key, set, exp);
    // item count where representable
    if let Set::As(_) = set {
        let want: u128 = exp.iter().map(|&(a, b)| cx.emb.hi(b) - cx.emb.lo(a) + 1).sum();
        match g(|| set.asn_count()) {
            Ok(Some(n)) => {
                if want <= u32::MAX as u128 && n as u128 != want {
                    cx.bad(&format!("{key}:count"), format!("asn_count = {n}, specification {want}"));
                }
            }
            Ok(None) => {}
            Err(m) => cx.bad(&format!("{key}:count-panic"), m),
        }
    }
}

/// the blocks of the specification's expected set, as concrete bounds
fn exp_raw(cx: &Ctx, exp: &[(u64, u64)]) -> Vec<Raw> {
    exp.iter().map(|&b| cx.emb.block(b)).collect()
}

/// Other routes to and views of the same set: the family-agnostic text parser, per-block text forms, builders fed through
/// `Extend`, the `all()` constants, per-ASN iteration.
fn api_sweep(cx: &mut Ctx, key: &str, set: &Set, exp: &[(u64, u64)]) {
    use rpki::repository::resources::{AsBlocksBuilder, IpBlocksBuilder};
    let fam = cx.emb.fam;
    let want = exp_raw(cx, exp);
    let whole = match fam { Fam::As => (0u128, u32::MAX as u128), Fam::V4 => (0u128, ((u32::MAX as u128) << 96) | M96), Fam::V6 => (0u128, u128::MAX) };
    let is_whole = want.len() == 1 && want[0] == whole;
    let same = |got: &Set| -> bool { got.blocks().iter().map(|b| (b.0, b.1)).collect::<Vec<_>>() == want };
    match set {
        Set::Ip(blocks, _) => {
            // IpBlocks::from_str: one parser for both families, guessing the family from the text
            let text = set.text();
            match g(|| IpBlocks::from_str(&text)) {
                Ok(Ok(b)) => { if !same(&Set::Ip(b, fam)) { cx.bad(&format!("{key}:ipblocks-from-str"), format!("IpBlocks::from_str('{text}') is a different set")); } }
                Ok(Err(e)) => cx.bad(&format!("{key}:ipblocks-from-str"), format!("IpBlocks::from_str('{text}') rejected: {e}")),
                Err(m) => cx.bad(&format!("{key}:ipblocks-from-str"), m),
            }
            // every block on its own: display_v4 / display_v6 -> IpBlock::from_str, from_v4_str / from_v6_str
            let mut rebuilt = IpBlocksBuilder::new();
            let mut ok = true;
            for b in blocks.iter() {
                let t = if fam == Fam::V4 { b.display_v4().to_string() } else { b.display_v6().to_string() };
                let r1 = g(|| IpBlock::from_str(&t));
                let r2 = g(|| if fam == Fam::V4 { IpBlock::from_v4_str(&t) } else { IpBlock::from_v6_str(&t) });
                for (name, r) in [("from_str", r1), ("from_vN_str", r2)] {
                    match r {
                        Ok(Ok(x)) => {
                            if (x.min().to_bits(), x.max().to_bits()) != (b.min().to_bits(), b.max().to_bits()) {
                                ok = false;
                                cx.bad(&format!("{key}:ipblock-{name}"), format!("block '{t}' parses back as {:#x}-{:#x}", x.min().to_bits(), x.max().to_bits()));
                            } else if name == "from_str" { rebuilt.push(x); }
                        }
                        Ok(Err(e)) => { ok = false; cx.bad(&format!("{key}:ipblock-{name}"), format!("block '{t}' rejected: {e}")) }
                        Err(m) => { ok = false; cx.bad(&format!("{key}:ipblock-{name}"), m) }
                    }
                }
            }
            if ok {
                // the builder, fed once through push and once through Extend
                let a = Set::Ip(rebuilt.finalize(), fam);
                let mut b2 = IpBlocksBuilder::default();
                b2.extend(blocks.iter());
                let b = Set::Ip(b2.finalize(), fam);
                if !same(&a) || !same(&b) { cx.bad(&format!("{key}:ipblocks-builder"), "IpBlocksBuilder (push / extend) gives a different set".into()); }
            }
            // the whole space
            let all = Set::Ip(IpBlocks::all(), fam);
            if fam == Fam::V6 || true {
                // IpBlocks::all() is ::/0 in the shared 128-bit space; for IPv4 sets the typed constant is Ipv4Blocks::all()
                let typed = match fam { Fam::V4 => Set::Ip((*Ipv4Blocks::all()).clone(), fam), _ => Set::Ip((*Ipv6Blocks::all()).clone(), fam) };
                match g(|| (typed.contains(set), set.contains(&typed), set.equals(&typed))) {
                    Ok((sub, sup, eq)) => {
                        if !sub || sup != is_whole || eq != is_whole {
                            cx.bad(&format!("{key}:all"), format!("against all(): all ⊇ set {sub}, set ⊇ all {sup}, equal {eq}; the set is{} the whole space", if is_whole { "" } else { " not" }));
                        }
                    }
                    Err(m) => cx.bad(&format!("{key}:all"), m),
                }
                if fam == Fam::V6 {
                    if let Ok(sub) = g(|| all.contains(set)) { if !sub { cx.bad(&format!("{key}:all"), "IpBlocks::all() does not contain the set".into()); } }
                }
            }
        }
        Set::As(blocks) => {
            let mut rebuilt = AsBlocksBuilder::new();
            let mut ok = true;
            for b in blocks.iter() {
                let t = b.to_string();
                match g(|| AsBlock::from_str(&t)) {
                    Ok(Ok(x)) => {
                        if (x.min(), x.max()) != (b.min(), b.max()) { ok = false; cx.bad(&format!("{key}:asblock-from-str"), format!("block '{t}' parses back as {x}")); } else { rebuilt.push(x); }
                    }
                    Ok(Err(e)) => { ok = false; cx.bad(&format!("{key}:asblock-from-str"), format!("block '{t}' rejected: {e}")) }
                    Err(m) => { ok = false; cx.bad(&format!("{key}:asblock-from-str"), m) }
                }
            }
            if ok {
                let a = Set::As(rebuilt.finalize());
                let mut b2 = AsBlocksBuilder::default();
                b2.extend(blocks.iter());
                let b = Set::As(b2.finalize());
                if !same(&a) || !same(&b) { cx.bad(&format!("{key}:asblocks-builder"), "AsBlocksBuilder (push / extend) gives a different set".into()); }
            }
            let all = Set::As(AsBlocks::all());
            match g(|| (all.contains(set), set.contains(&all), set.equals(&all))) {
                Ok((sub, sup, eq)) => {
                    if !sub || sup != is_whole || eq != is_whole {
                        cx.bad(&format!("{key}:all"), format!("against AsBlocks::all(): all ⊇ set {sub}, set ⊇ all {sup}, equal {eq}; the set is{} the whole space", if is_whole { "" } else { " not" }));
                    }
                }
                Err(m) => cx.bad(&format!("{key}:all"), m),
            }
            // the individual AS numbers, in order: all of them when there are few, otherwise the first ones of every block
            let total: u128 = want.iter().map(|r| r.1 - r.0 + 1).sum();
            if total <= 4096 {
                let exp_items: Vec<u32> = want.iter().flat_map(|r| (r.0 as u32)..=(r.1 as u32)).collect();
                match g(|| blocks.iter_asns().map(|a| a.into_u32()).collect::<Vec<_>>()) {
                    Ok(got) => { if got != exp_items { cx.bad(&format!("{key}:iter-asns"), format!("iter_asns yields {} items, specification {}", got.len(), exp_items.len())); } }
                    Err(m) => cx.bad(&format!("{key}:iter-asns"), m),
                }
            }
            for (b, r) in blocks.iter().zip(want.iter()) {
                let n = (r.1 - r.0 + 1).min(3) as usize;
                let exp_items: Vec<u32> = (0..n as u32).map(|i| r.0 as u32 + i).collect();
                match g(|| b.iter().take(n).map(|a| a.into_u32()).collect::<Vec<_>>()) {
                    Ok(got) => { if got != exp_items { cx.bad(&format!("{key}:asblock-iter"), format!("AsBlock::iter starts {got:?}, specification {exp_items:?}")); } }
                    Err(m) => cx.bad(&format!("{key}:asblock-iter"), m),
                }
                if b.is_whole_range() != (*r == whole) { cx.bad(&format!("{key}:is-whole-range"), format!("is_whole_range = {}", b.is_whole_range())); }
            }
        }
    }
}

fn replay_from_iter(s: &mut Summary, c: &Value, embs: &[Emb]) {
    let top = c["top"].as_u64().unwrap();
    let inp = model_blocks(&c["in"]);
    let exp = model_blocks(&c["exp"]);
    let nontrivial = inp.len() >= 2;
    for e in embs {
        let raw: Vec<Raw> = inp.iter().map(|&b| e.block(b)).collect();
        let mut cx = Ctx { s, case: c, emb: e, top };
        for force in [false, true] {
            let set = cx.expect_set("from_iter", g(|| Set::build(e.fam, &raw, force)), &exp);
            if let (Some(set), false) = (set, force) {
                check_obtained(&mut cx, "from_iter", &set, &exp);
            }
        }
        // the same blocks offered as text
        let text = raw_text(e.fam, &raw);
        match g(|| Set::parse(e.fam, &text)) {
            Ok(Ok(set)) => {
                cx.expect_set("from_str", Ok(set), &exp);
            }
            Ok(Err(m)) => cx.bad("from_str:rejected", format!("'{text}' rejected: {m}")),
            Err(m) => cx.bad("from_str:panic", m),
        }
        // and as hand-assembled RFC 3779 DER (unsorted / overlapping as given)
        let bytes = raw_der(e.fam, &raw);
        match g(|| decode_raw_der(e.fam, &bytes)) {
            Ok(Ok(set)) => {
                cx.expect_set("from_der", Ok(set), &exp);
            }
            Ok(Err(m)) => cx.bad("from_der:rejected", format!("DER of {raw:x?} rejected: {m}")),
            Err(m) => cx.bad("from_der:panic", m),
        }
        let key = format!("fi:{}:{}", c["in"], e.name);
        cx.s.eval(if nontrivial { Some(&key) } else { None });
    }
}

/// spec/ResBuilder.tla: a resource builder driven through a sequence of inherit() / blocks() calls, then finalized - the
/// bare builders, and the ones inside a certificate under construction (TbsCert::build_*_resource_blocks, set_*_inherit).
fn replay_builder(s: &mut Summary, c: &Value, embs: &[Emb]) {
    use rpki::repository::resources::{AsResourcesBuilder, IpResourcesBuilder};
    let top = c["top"].as_u64().unwrap();
    let calls: Vec<Option<Vec<(u64, u64)>>> = c["calls"].as_array().unwrap().iter()
        .map(|x| if x[0] == "inherit" { None } else { Some(model_blocks(&x[1])) }).collect();
    let want = [(c["exp"]["c"] == "inherit", model_blocks(&c["exp"]["blocks"])), (c["exp_tbs"]["c"] == "inherit", model_blocks(&c["exp_tbs"]["blocks"]))];
    for e in embs {
        let mut cx = Ctx { s, case: c, emb: e, top };
        // Ok(None): inherited; Ok(Some(set)): blocks
        let bare = g(|| -> Option<Set> {
            match e.fam {
                Fam::As => {
                    let mut b = AsResourcesBuilder::new();
                    for call in &calls {
                        match call {
                            None => b.inherit(),
                            Some(bs) => b.blocks(|x| for &m in bs { x.push(as_block(e.block(m), false)) }),
                        }
                    }
                    let r = b.finalize();
                    if r.is_inherited() { None } else { Some(Set::As(r.to_blocks().unwrap())) }
                }
                fam => {
                    let mut b = IpResourcesBuilder::new();
                    for call in &calls {
                        match call {
                            None => b.inherit(),
                            Some(bs) => b.blocks(|x| for &m in bs { x.push(ip_block(e.block(m), false)) }),
                        }
                    }
                    let r = b.finalize();
                    if r.is_inherited() { None } else { Some(Set::Ip(r.to_blocks().unwrap(), fam)) }
                }
            }
        });
        let in_cert = g(|| -> Option<Set> {
            let mut t = crate::pki::blank_tbs();
            for call in &calls {
                match (e.fam, call) {
                    (Fam::As, None) => t.set_as_resources_inherit(),
                    (Fam::V4, None) => t.set_v4_resources_inherit(),
                    (Fam::V6, None) => t.set_v6_resources_inherit(),
                    (Fam::As, Some(bs)) => t.build_as_resource_blocks(|x| for &m in bs { x.push(as_block(e.block(m), false)) }),
                    (Fam::V4, Some(bs)) => t.build_v4_resource_blocks(|x| for &m in bs { x.push(ip_block(e.block(m), false)) }),
                    (Fam::V6, Some(bs)) => t.build_v6_resource_blocks(|x| for &m in bs { x.push(ip_block(e.block(m), false)) }),
                }
            }
            match e.fam {
                Fam::As => if t.as_resources().is_inherited() { None } else { Some(Set::As(t.as_resources().to_blocks().unwrap())) },
                Fam::V4 => if t.v4_resources().is_inherited() { None } else { Some(Set::Ip(t.v4_resources().to_blocks().unwrap(), Fam::V4)) },
                Fam::V6 => if t.v6_resources().is_inherited() { None } else { Some(Set::Ip(t.v6_resources().to_blocks().unwrap(), Fam::V6)) },
            }
        });
        for (k, (route, got)) in [("builder", bare), ("builder:tbs", in_cert)].into_iter().enumerate() {
            let (want_inherit, exp) = (want[k].0, want[k].1.clone());
            match got {
                Err(m) => cx.bad(&format!("{route}:panic"), m),
                Ok(None) => if !want_inherit { cx.bad(&format!("{route}:inherit"), format!("finished as inherited, specification says blocks {exp:?}")) },
                Ok(Some(set)) => {
                    if want_inherit {
                        cx.bad(&format!("{route}:inherit"), "finished with blocks, specification says inherited".into());
                    } else if route == "builder" || !calls.is_empty() {
                        cx.expect_set(route, Ok(set), &exp);
                    }
                }
            }
        }
        let key = format!("bld:{}:{}", c["calls"], e.name);
        cx.s.eval(if calls.len() >= 2 { Some(&key) } else { None });
    }
}

fn replay_pair(s: &mut Summary, c: &Value, embs: &[Emb]) {
    let top = c["top"].as_u64().unwrap();
    let a = model_blocks(&c["a"]);
    let b = model_blocks(&c["b"]);
    let inter = model_blocks(&c["inter"]);
    let diff = model_blocks(&c["diff"]);
    let uni = model_blocks(&c["union"]);
    let a_in_b = c["a_in_b"].as_bool().unwrap();
    let eq = c["eq"].as_bool().unwrap();
    // (b inside a: every point of b's blocks lies in a - read off the model's own results: b \ a is what is left of the union minus a)
    let b_in_a = (0..=top).all(|p| !den(&b, p) || den(&a, p));
    resource_set_crossed(s, c, embs, &a, &b, &inter, &uni, a_in_b, b_in_a);
    for e in embs {
        let mut cx = Ctx { s, case: c, emb: e, top };
        let ra: Vec<Raw> = a.iter().map(|&x| e.block(x)).collect();
        let rb: Vec<Raw> = b.iter().map(|&x| e.block(x)).collect();
        let (Some(sa), Some(sb)) = (
            cx.expect_set("pair:build", g(|| Set::build(e.fam, &ra, false)), &a),
            cx.expect_set("pair:build", g(|| Set::build(e.fam, &rb, false)), &b),
        ) else {
            continue;
        };
        if let Some(x) = cx.expect_set("intersection", g(|| sa.inter(&sb)), &inter) {
            check_obtained(&mut cx, "intersection", &x, &inter);
        }
        if let Some(x) = cx.expect_set("difference", g(|| sa.diff(&sb)), &diff) {
            check_obtained(&mut cx, "difference", &x, &diff);
        }
        if let Some(x) = cx.expect_set("union", g(|| sa.union(&sb)), &uni) {
            check_obtained(&mut cx, "union", &x, &uni);
        }
        match g(|| sb.contains(&sa)) {
            Ok(r) if r == a_in_b => {}
            Ok(r) => cx.bad("contains", format!("b.contains(a) = {r}, specification {a_in_b}")),
            Err(m) => cx.bad("contains:panic", m),
        }
        match g(|| sa.equals(&sb)) {
            Ok(r) if r == eq => {}
            Ok(r) => cx.bad("eq", format!("a == b is {r}, specification {eq}")),
            Err(m) => cx.bad("eq:panic", m),
        }
        // issuance: issuer = b, claimed = a
        match g(|| sa.verify_issued(&sb, Overclaim::Refuse)) {
            Ok(Some(eff)) => {
                if !a_in_b {
                    cx.bad("verify_issued:refuse", "overclaiming resources accepted under Refuse".into());
                } else if let Err(m) = check_set(&eff, &a, e, top) {
                    cx.bad("verify_issued:refuse", m);
                }
            }
            Ok(None) => {
                if a_in_b {
                    cx.bad("verify_issued:refuse", "covered resources refused".into());
                }
            }
            Err(m) => cx.bad("verify_issued:panic", m),
        }
        match g(|| sa.verify_issued(&sb, Overclaim::Trim)) {
            Ok(Some(eff)) => {
                if let Err(m) = check_set(&eff, &inter, e, top) {
                    cx.bad("verify_issued:trim", m);
                }
            }
            Ok(None) => cx.bad("verify_issued:trim", "Trim policy returned an error".into()),
            Err(m) => cx.bad("verify_issued:panic", m),
        }
        // in-place intersection; bottom-up coverage (claimed = a, issuer = b / missing / inherit)
        match g(|| sa.inter_assign(&sb)) {
            Ok(x) => { if let Err(m) = check_set(&x, &inter, e, top) { cx.bad("intersection_assign", m); } }
            Err(m) => cx.bad("intersection_assign:panic", m),
        }
        match g(|| (sa.verify_covered(Some(&sb)), sa.verify_covered(None), sa.covered_by_inherit())) {
            Ok((by_b, by_missing, by_inherit)) => {
                if by_b != a_in_b { cx.bad("verify_covered", format!("a.verify_covered(blocks b) = {by_b}, specification {a_in_b}")); }
                if by_missing != a.is_empty() { cx.bad("verify_covered", format!("a.verify_covered(missing) = {by_missing}, a is{} empty", if a.is_empty() { "" } else { " not" })); }
                if !by_inherit { cx.bad("verify_covered", "a.verify_covered(inherit) failed".into()); }
            }
            Err(m) => cx.bad("verify_covered:panic", m),
        }
        // ResourceSet and resource limits (the family under test filled, others empty)
        let rdiff = model_diff(&b, &a, top);
        if let Err(m) = g(|| resource_set_more(&mut cx, &sa, &sb, &a, &diff, &rdiff)) {
            cx.bad("resource_set:panic", m);
        }
        if let Err(m) = g(|| resource_set_ops(&mut cx, &sa, &sb, &inter, &uni, a_in_b)) {
            cx.bad("resource_set:panic", m);
        }
        let key = format!("pair:{}:{}:{}", c["a"], c["b"], e.name);
        let nontrivial = !a.is_empty() && !b.is_empty() && !eq;
        cx.s.eval(if nontrivial { Some(&key) } else { None });
    }
}

fn to_resource_set(s: &Set) -> ResourceSet {
    match s {
        Set::As(a) => ResourceSet::new(a.clone(), Ipv4Blocks::empty(), Ipv6Blocks::empty()),
        Set::Ip(a, Fam::V4) => ResourceSet::new(AsBlocks::empty(), a.clone().into(), Ipv6Blocks::empty()),
        Set::Ip(a, _) => ResourceSet::new(AsBlocks::empty(), Ipv4Blocks::empty(), a.clone().into()),
    }
}

fn from_resource_set(r: &ResourceSet, like: &Set) -> Set {
    match like {
        Set::As(_) => Set::As(r.asn().clone()),
        Set::Ip(_, Fam::V4) => Set::Ip((**r.ipv4()).clone(), Fam::V4),
        Set::Ip(_, f) => Set::Ip((**r.ipv6()).clone(), *f),
    }
}

/// canonical blocks of den(x) \ den(y) on the model line
fn model_diff(x: &[(u64, u64)], y: &[(u64, u64)], top: u64) -> Vec<(u64, u64)> {
    let mut out: Vec<(u64, u64)> = Vec::new();
    for p in 0..=top {
        if den(x, p) && !den(y, p) {
            match out.last_mut() {
                Some(l) if l.1 + 1 == p => l.1 = p,
                _ => out.push((p, p)),
            }
        }
    }
    out
}

/// ResourceSet: difference (both directions), per-ASN membership, text and serde forms, emptiness
fn resource_set_more(cx: &mut Ctx, sa: &Set, sb: &Set, a: &[(u64, u64)], diff: &[(u64, u64)], rdiff: &[(u64, u64)]) {
    let (ra, rb) = (to_resource_set(sa), to_resource_set(sb));
    let d = ra.difference(&rb);
    // ResourceDiff keeps its two sets private; its serde form shows them
    let v = serde_json::to_value(&d).expect("ResourceDiff serialises");
    for (field, exp) in [("added", diff), ("removed", rdiff)] {
        match serde_json::from_value::<ResourceSet>(v[field].clone()) {
            Ok(r) => {
                if let Err(m) = check_set(&from_resource_set(&r, sa), exp, cx.emb, cx.top) { cx.bad(&format!("resource_set:difference:{field}"), m); }
            }
            Err(e) => cx.bad(&format!("resource_set:difference:{field}"), format!("serde form of the difference does not parse back: {e}")),
        }
    }
    if d.is_empty() != (diff.is_empty() && rdiff.is_empty()) { cx.bad("resource_set:difference:is_empty", format!("ResourceDiff::is_empty = {}", d.is_empty())); }
    if ra.is_empty() != a.is_empty() { cx.bad("resource_set:is_empty", format!("ResourceSet::is_empty = {}", ra.is_empty())); }
    if let Set::As(_) = sa {
        for p in 0..=cx.top {
            for v in [cx.emb.lo(p), cx.emb.hi(p)] {
                let got = ra.contains_asn(Asn::from_u32(v as u32));
                if got != den(a, p) { cx.bad("resource_set:contains_asn", format!("AS{v}: contains_asn = {got}")); }
            }
        }
    }
    // text: the three Display strings through from_strs; serde
    let back = ResourceSet::from_strs(&ra.asn().to_string(), &ra.ipv4().to_string(), &ra.ipv6().to_string());
    match back {
        Ok(r) => { if r != ra { cx.bad("resource_set:from_strs", "from_strs of the three text forms is a different set".into()); } }
        Err(e) => cx.bad("resource_set:from_strs", format!("own text forms rejected: {e}")),
    }
    match serde_json::to_string(&ra).map_err(|e| e.to_string()).and_then(|j| serde_json::from_str::<ResourceSet>(&j).map_err(|e| format!("{e} on {j}"))) {
        Ok(r) => { if r != ra { cx.bad("resource_set:serde", "serde form parses back to a different set".into()); } }
        Err(m) => cx.bad("resource_set:serde", m),
    }
    // the whole space contains everything; nothing but the whole space contains it
    let all = ResourceSet::all();
    if !all.contains(&ra) { cx.bad("resource_set:all", "ResourceSet::all() does not contain the set".into()); }
    if ra.contains(&all) { cx.bad("resource_set:all", "a one-family set contains ResourceSet::all()".into()); }
}

/// The three families of one ResourceSet are three sets, not one: A holds a in its AS numbers and IPv6 addresses and b in its
/// IPv4 addresses, B the other way round, and the IPv4 and IPv6 embeddings are chosen so that the same model block is the same
/// number in both (the top bits of the 128-bit space) - whatever one family is compared with by mistake looks plausible.
fn resource_set_crossed(s: &mut Summary, c: &Value, embs: &[Emb], a: &[(u64, u64)], b: &[(u64, u64)], inter: &[(u64, u64)], uni: &[(u64, u64)], a_in_b: bool, b_in_a: bool) {
    let top = c["top"].as_u64().unwrap();
    let e = |n: &str| embs.iter().find(|e| e.name == n).unwrap();
    let (ea, e4, e6) = (e("as_lo"), e("v4_top"), e("v6_top"));
    let mk = |e: &Emb, m: &[(u64, u64)]| Set::build(e.fam, &m.iter().map(|&x| e.block(x)).collect::<Vec<Raw>>(), false);
    let r = g(|| -> Result<(), (String, String)> {
        let part = |s: Set| -> (AsBlocks, IpBlocks) { match s { Set::As(x) => (x, IpBlocks::empty()), Set::Ip(x, _) => (AsBlocks::empty(), x) } };
        let ra = ResourceSet::new(part(mk(ea, a)).0, part(mk(e4, b)).1.into(), part(mk(e6, a)).1.into());
        let rb = ResourceSet::new(part(mk(ea, b)).0, part(mk(e4, a)).1.into(), part(mk(e6, b)).1.into());
        for (name, got, want) in [("union", ra.union(&rb), uni), ("intersection", ra.intersection(&rb), inter)] {
            for (fam, emb, set) in [("as", ea, Set::As(got.asn().clone())), ("v4", e4, Set::Ip((**got.ipv4()).clone(), Fam::V4)), ("v6", e6, Set::Ip((**got.ipv6()).clone(), Fam::V6))] {
                if let Err(m) = check_set(&set, want, emb, top) {
                    return Err((format!("resource_set:crossed:{name}:{fam}"), m));
                }
            }
        }
        // B contains A iff it does so family by family: as and v6 need a inside b, v4 needs b inside a
        if rb.contains(&ra) != (a_in_b && b_in_a) {
            return Err(("resource_set:crossed:contains".into(), format!("contains = {}, specification {}", !(a_in_b && b_in_a), a_in_b && b_in_a)));
        }
        Ok(())
    });
    match r {
        Ok(Ok(())) => {}
        Ok(Err((k, m))) => s.violation(&k, m, c.clone()),
        Err(m) => s.violation("resource_set:crossed:panic", m, c.clone()),
    }
    s.evals(1);
}

fn resource_set_ops(cx: &mut Ctx, sa: &Set, sb: &Set, inter: &[(u64, u64)], uni: &[(u64, u64)], a_in_b: bool) {
    use rpki::ca::provisioning::RequestResourceLimit;
    let (ra, rb) = (to_resource_set(sa), to_resource_set(sb));
    let x = from_resource_set(&ra.intersection(&rb), sa);
    if let Err(m) = check_set(&x, inter, cx.emb, cx.top) {
        cx.bad("resource_set:intersection", m);
    }
    let x = from_resource_set(&ra.union(&rb), sa);
    if let Err(m) = check_set(&x, uni, cx.emb, cx.top) {
        cx.bad("resource_set:union", m);
    }
    if rb.contains(&ra) != a_in_b {
        cx.bad("resource_set:contains", format!("ResourceSet::contains = {}", !a_in_b));
    }
    // limit = a applied to set = b: Ok(a) iff a is inside b
    let mut limit = RequestResourceLimit::new();
    match sa {
        Set::As(a) => limit.with_asn(a.clone()),
        Set::Ip(a, Fam::V4) => limit.with_ipv4(a.clone().into()),
        Set::Ip(a, _) => limit.with_ipv6(a.clone().into()),
    }
    match limit.apply_to(&rb) {
        Ok(res) => {
            let got = from_resource_set(&res, sa);
            if !a_in_b {
                cx.bad("limit:accepted", "a limit exceeding the set was applied".into());
            } else if !got.equals(sa) {
                cx.bad("limit:value", "limited set differs from the limit".into());
            }
        }
        Err(_) => {
            if a_in_b {
                cx.bad("limit:refused", "a limit inside the set was refused".into());
            }
        }
    }
}

// --------------------------------------------------------------------------
// range -> prefix decomposition (spec/IpCanon.tla)
// --------------------------------------------------------------------------
fn replay_prefixes(s: &mut Summary, c: &Value) {
    let w = c["w"].as_u64().unwrap() as u32;
    let (lo, hi) = (c["lo"].as_u64().unwrap() as u128, c["hi"].as_u64().unwrap() as u128);
    let exp: Vec<(u128, u32)> = c["exp"].as_array().unwrap().iter().map(|p| (p[0].as_u64().unwrap() as u128, p[1].as_u64().unwrap() as u32)).collect();
    let is_pfx = c["is_prefix"].as_bool().unwrap();
    // (name, v4?, shift of the model value, extra prefix length)
    for (name, v4, sh, base) in [
        ("v4_top", true, 32 - w, 0u128),
        ("v4_bot", true, 0, 0xC000_0200u128 & !((1u128 << w) - 1)),
        ("v4_bot_hi", true, 0, (1u128 << 32) - (1u128 << w)),
        ("v6_top", false, 128 - w, 0u128),
        ("v6_bot", false, 0, (0x2001_0db8u128 << 96)),
        ("v6_bot_hi", false, 0, u128::MAX - ((1u128 << w) - 1)),
        ("v6_mid", false, 60, 0x2001_0db8u128 << 96),
    ] {
        let n: u32 = if v4 { 32 } else { 128 };
        let unit = 1u128 << sh;
        let (clo, chi) = (base + lo * unit, base + hi * unit + (unit - 1));
        let (min, max) = if v4 { (clo << 96, (chi << 96) | M96) } else { (clo, chi) };
        let range = AddressRange::new(Addr::from_bits(min), Addr::from_bits(max));
        let got = g(|| {
            let it: Vec<Prefix> = if v4 { range.to_v4_prefixes().collect() } else { range.to_v6_prefixes().collect() };
            it.iter().map(|p| (p.addr().to_bits(), p.addr_len() as u32)).collect::<Vec<_>>()
        });
        let want: Vec<(u128, u32)> = exp
            .iter()
            .map(|&(a, l)| {
                let addr = base + a * unit;
                (if v4 { addr << 96 } else { addr }, n - sh - (w - l))
            })
            .collect();
        let case = json!({"case": c, "emb": name});
        match got {
            Ok(gv) if gv == want => {}
            Ok(gv) => s.violation(
                &format!("to_prefixes:{}", if v4 { "v4" } else { "v6" }),
                format!("[{name}] decomposition {gv:x?}, specification {want:x?}"),
                case.clone(),
            ),
            Err(m) => s.violation("to_prefixes:panic", m, case.clone()),
        }
        // kind chosen for the block built from the bounds
        match g(|| matches!(IpBlock::from((Addr::from_bits(min), Addr::from_bits(max))), IpBlock::Prefix(_))) {
            Ok(k) if k == is_pfx => {}
            Ok(k) => s.violation("block_kind", format!("[{name}] IpBlock::from(({min:#x},{max:#x})) prefix={k}, specification {is_pfx}"), case.clone()),
            Err(m) => s.violation("block_kind:panic", m, case),
        }
        let key = format!("px:{w}:{lo}:{hi}:{name}");
        s.eval(if lo != hi { Some(&key) } else { None });
    }
}

/// An inverted range (lower bound above upper bound) offered as text or DER must be
/// refused, or at least never be stored as it is.
fn replay_inverted(s: &mut Summary, c: &Value, embs: &[Emb]) {
    let top = c["top"].as_u64().unwrap();
    let b = (c["b"][0].as_u64().unwrap(), c["b"][1].as_u64().unwrap());
    for e in embs {
        let raw = vec![(e.lo(b.0), e.hi(b.1))]; // lo(b0) > hi(b1)
        let mut cx = Ctx { s, case: c, emb: e, top };
        let text = raw_text(e.fam, &raw);
        let bytes = raw_der(e.fam, &raw);
        for (how, got) in [("from_str", g(|| Set::parse(e.fam, &text))), ("from_der", g(|| decode_raw_der(e.fam, &bytes)))] {
            match got {
                Ok(Ok(set)) => {
                    if set.blocks().iter().any(|&(lo, hi, _)| lo > hi) {
                        cx.bad(&format!("{how}:inverted-range"), format!("inverted range '{text}' accepted and stored with min > max"));
                    }
                }
                Ok(Err(_)) => {}
                Err(m) => cx.bad(&format!("{how}:inverted-range:panic"), m),
            }
        }
        let key = format!("inv:{}:{}", c["b"], e.name);
        cx.s.eval(Some(&key));
    }
}

pub fn replay(args: &[String]) {
    let cases = read_cases(&args[0]);
    let mut s = Summary::new();
    let mut embs_cache: std::collections::HashMap<u64, Vec<Emb>> = Default::default();
    for c in &cases {
        match c["op"].as_str().unwrap_or("") {
            "from_iter" => {
                let top = c["top"].as_u64().unwrap();
                let embs = embs_cache.entry(top).or_insert_with(|| embeddings(top)).clone();
                replay_from_iter(&mut s, c, &embs);
            }
            "pair" => {
                let top = c["top"].as_u64().unwrap();
                let embs = embs_cache.entry(top).or_insert_with(|| embeddings(top)).clone();
                replay_pair(&mut s, c, &embs);
            }
            "builder" => {
                let top = c["top"].as_u64().unwrap();
                let embs = embs_cache.entry(top).or_insert_with(|| embeddings(top)).clone();
                replay_builder(&mut s, c, &embs);
            }
            "prefixes" => replay_prefixes(&mut s, c),
            "inverted" => {
                let top = c["top"].as_u64().unwrap();
                let embs = embs_cache.entry(top).or_insert_with(|| embeddings(top)).clone();
                replay_inverted(&mut s, c, &embs);
            }
            other => {
                eprintln!("unknown op {other}");
                std::process::exit(2);
            }
        }
        if s.samples.len() < 3 && s.evaluations % 997 == 1 {
            s.sample(c.clone());
        }
    }
    if s.samples.is_empty() {
        if let Some(c) = cases.first() {
            s.sample(c.clone());
        }
    }
    s.print();
}

// --------------------------------------------------------------------------
// impl -> spec: random full-width scenarios, coordinate-compressed
// --------------------------------------------------------------------------
const TRACE_TOP: u64 = 400;

fn dom(fam: Fam) -> (u128, u128) {
    match fam {
        Fam::As | Fam::V4 => (0, u32::MAX as u128),
        Fam::V6 => (0, u128::MAX),
    }
}

/// units <-> stored bounds (v4 lives in the upper 32 bits, upper bounds padded with ones)
fn to_raw(fam: Fam, b: (u128, u128)) -> Raw {
    match fam {
        Fam::V4 => (b.0 << 96, (b.1 << 96) | M96),
        _ => b,
    }
}
fn to_units(fam: Fam, set: &Set) -> Result<Vec<(u128, u128)>, String> {
    set.blocks()
        .iter()
        .map(|&(lo, hi, kind)| {
            if kind != set.expected_kind(lo, hi) {
                return Err(format!("block {lo:#x}-{hi:#x} not stored in canonical kind"));
            }
            match fam {
                Fam::V4 => {
                    if lo & M96 != 0 || hi & M96 != M96 {
                        Err(format!("IPv4 block {lo:#x}-{hi:#x} has malformed low bits"))
                    } else {
                        Ok((lo >> 96, hi >> 96))
                    }
                }
                _ => Ok((lo, hi)),
            }
        })
        .collect()
}

enum Op {
    From { dst: usize, inp: Vec<(u128, u128)>, res: Vec<(u128, u128)> },
    Bin { ev: &'static str, dst: usize, a: usize, b: usize, res: Vec<(u128, u128)> },
    Contains { a: usize, b: usize, res: bool },
    Item { a: usize, x: u128, res: bool },
    Eq { a: usize, b: usize, res: bool },
    Issue { a: usize, b: usize, dst: usize, mode: &'static str, ok: bool, res: Vec<(u128, u128)> },
}

pub fn drive(args: &[String]) {
    let seed = arg_u64(args, "--seed", 1);
    let n = arg_u64(args, "--n", 50);
    let out = arg_val(args, "--out").expect("--out");
    let mut rng = Rng::new(seed);
    let mut t = TraceOut::create(&out);
    let mut s = Summary::new();
    let mut skipped = 0u64;
    for sc in 0..n {
        let fam = *rng.pick(&[Fam::As, Fam::V4, Fam::V6]);
        let (dmin, dmax) = dom(fam);
        // value pool: a few anchors (incl. both ends of the space) +- small offsets
        let mut anchors = vec![dmin, dmax];
        for _ in 0..rng.range(2, 4) {
            let v = match fam {
                Fam::V6 => rng.u128(),
                _ => rng.next() as u32 as u128,
            };
            anchors.push(v);
            if rng.chance(1, 2) {
                // aligned anchor: makes prefix-expressible ranges likely
                let k = rng.range(1, if fam == Fam::V6 { 100 } else { 24 });
                anchors.push(v >> k << k);
            }
        }
        let mut pool: Vec<u128> = Vec::new();
        for &a in &anchors {
            for d in 0..7u128 {
                if let Some(v) = a.checked_add(d) {
                    if v <= dmax {
                        pool.push(v);
                    }
                }
                if let Some(v) = a.checked_sub(d) {
                    pool.push(v);
                }
            }
            for k in [3u32, 4, 8] {
                // ends of aligned power-of-two blocks around the anchor
                let size = 1u128 << k;
                let lo = a & !(size - 1);
                pool.push(lo);
                if let Some(hi) = lo.checked_add(size - 1) {
                    if hi <= dmax {
                        pool.push(hi);
                    }
                }
            }
        }
        pool.sort();
        pool.dedup();
        let mut regs: Vec<Set> = (0..6).map(|_| Set::build(fam, &[], false)).collect();
        let mut ops: Vec<Op> = Vec::new();
        let mut failed = false;
        let nops = rng.range(12, 30);
        // membership probes owed after a long set was built: (register, item)
        let mut probes: Vec<(usize, u128)> = Vec::new();
        for _ in 0..nops {
            let (a, b, dst) = (rng.below(6) as usize, rng.below(6) as usize, rng.below(6) as usize);
            if let Some((pa, x)) = probes.pop() {
                match g(|| regs[pa].contains_range(to_raw(fam, (x, x)))) {
                    Ok(res) => ops.push(Op::Item { a: pa, x, res }),
                    Err(_) => { failed = true; break; }
                }
                continue;
            }
            let r = g(|| -> Result<Op, String> {
                Ok(match rng.below(10) {
                    0..=2 => {
                        // now and then a long list of short blocks, so that the canonical form has well over eight blocks
                        let long = rng.chance(1, 4);
                        // ... and once in a while a list past any plausible size threshold (65 to 140 blocks of every shape, so
                        // that blocks share a start, nest and repeat), collected through each of the three routes in turn
                        let huge = !long && rng.chance(1, 10);
                        let k = if huge { rng.range(65, 140) } else if long { rng.range(9, 18) } else { rng.range(0, 6) };
                        let mut inp = Vec::new();
                        for _ in 0..k {
                            let x = *rng.pick(&pool);
                            let y = *rng.pick(&pool);
                            let (lo, hi) = if long || rng.chance(1, 3) { (x, x) } else { (x.min(y), x.max(y)) };
                            inp.push((lo, hi));
                        }
                        if long {
                            probes = inp.iter().map(|b| (dst, b.0)).collect();
                        }
                        let raw: Vec<Raw> = inp.iter().map(|&bk| to_raw(fam, bk)).collect();
                        let route = rng.below(3);
                        let set = Set::build_via(fam, &raw, rng.chance(1, 2), route);
                        let res = to_units(fam, &set)?;
                        regs[dst] = set;
                        Op::From { dst, inp, res }
                    }
                    3 => {
                        let set = regs[a].union(&regs[b]);
                        let res = to_units(fam, &set)?;
                        regs[dst] = set;
                        Op::Bin { ev: "union", dst, a, b, res }
                    }
                    4 => {
                        let set = regs[a].inter(&regs[b]);
                        let res = to_units(fam, &set)?;
                        regs[dst] = set;
                        Op::Bin { ev: "inter", dst, a, b, res }
                    }
                    5 => {
                        let set = regs[a].diff(&regs[b]);
                        let res = to_units(fam, &set)?;
                        regs[dst] = set;
                        Op::Bin { ev: "diff", dst, a, b, res }
                    }
                    6 => Op::Contains { a, b, res: regs[a].contains(&regs[b]) },
                    7 => {
                        let x = *rng.pick(&pool);
                        Op::Item { a, x, res: regs[a].contains_range(to_raw(fam, (x, x))) }
                    }
                    8 => Op::Eq { a, b, res: regs[a].equals(&regs[b]) },
                    _ => {
                        let mode = if rng.chance(1, 2) { Overclaim::Refuse } else { Overclaim::Trim };
                        let ms = if mode == Overclaim::Refuse { "refuse" } else { "trim" };
                        match regs[b].verify_issued(&regs[a], mode) {
                            Some(eff) => {
                                let res = to_units(fam, &eff)?;
                                regs[dst] = eff;
                                Op::Issue { a, b, dst, mode: ms, ok: true, res }
                            }
                            None => Op::Issue { a, b, dst, mode: ms, ok: false, res: vec![] },
                        }
                    }
                })
            });
            match r {
                Ok(Ok(op)) => ops.push(op),
                Ok(Err(m)) | Err(m) => {
                    s.violation("trace:op-failed", m, json!({"seed": seed, "scenario": sc}));
                    failed = true;
                    break;
                }
            }
        }
        if failed {
            continue;
        }
        // coordinate compression over everything that appeared (+ neighbours)
        let mut vals: Vec<u128> = vec![dmin, dmax];
        let mut add = |v: u128| {
            vals.push(v);
            if v > dmin {
                vals.push(v - 1);
            }
            if v < dmax {
                vals.push(v + 1);
            }
        };
        for op in &ops {
            match op {
                Op::From { inp, res, .. } => inp.iter().chain(res.iter()).for_each(|&(x, y)| {
                    add(x);
                    add(y)
                }),
                Op::Bin { res, .. } | Op::Issue { res, .. } => res.iter().for_each(|&(x, y)| {
                    add(x);
                    add(y)
                }),
                Op::Item { x, .. } => add(*x),
                _ => {}
            }
        }
        vals.sort();
        vals.dedup();
        let mut ranks: Vec<u64> = Vec::with_capacity(vals.len());
        let mut first_gap = None;
        for i in 0..vals.len() {
            if i == 0 {
                ranks.push(0);
            } else if vals[i] == vals[i - 1] + 1 {
                ranks.push(ranks[i - 1] + 1);
            } else {
                if first_gap.is_none() {
                    first_gap = Some(i);
                }
                ranks.push(ranks[i - 1] + 2);
            }
        }
        let last = *ranks.last().unwrap();
        if last > TRACE_TOP || first_gap.is_none() {
            skipped += 1;
            continue;
        }
        let extra = TRACE_TOP - last;
        for r in ranks.iter_mut().skip(first_gap.unwrap()) {
            *r += extra;
        }
        let rk = |v: u128| -> u64 { ranks[vals.binary_search(&v).unwrap()] };
        let ch = |c: &Vec<(u128, u128)>| -> Value { Value::Array(c.iter().map(|&(x, y)| json!([rk(x), rk(y)])).collect()) };
        t.ev(json!({"ev": "reset", "fam": format!("{fam:?}"), "scenario": sc}));
        for op in &ops {
            t.ev(match op {
                Op::From { dst, inp, res } => json!({"ev": "from", "dst": dst, "inp": ch(inp), "res": ch(res)}),
                Op::Bin { ev, dst, a, b, res } => json!({"ev": ev, "dst": dst, "a": a, "b": b, "res": ch(res)}),
                Op::Contains { a, b, res } => json!({"ev": "contains", "a": a, "b": b, "res": res}),
                Op::Item { a, x, res } => json!({"ev": "item", "a": a, "x": rk(*x), "res": res}),
                Op::Eq { a, b, res } => json!({"ev": "eq", "a": a, "b": b, "res": res}),
                Op::Issue { a, b, dst, mode, ok, res } => {
                    json!({"ev": "issue", "a": a, "b": b, "dst": dst, "mode": mode, "ok": ok, "res": ch(res)})
                }
            });
            s.eval(None);
        }
        s.nontrivial(&format!("sc{seed}:{sc}"));
        if s.samples.len() < 2 {
            if let Some(Op::From { inp, res, .. }) = ops.iter().find(|o| matches!(o, Op::From { inp, .. } if inp.len() > 2)) {
                s.sample(json!({"fam": format!("{fam:?}"), "from_blocks": inp.iter().map(|b| format!("{:#x}-{:#x}", b.0, b.1)).collect::<Vec<_>>(),
                                "result": res.iter().map(|b| format!("{:#x}-{:#x}", b.0, b.1)).collect::<Vec<_>>()}));
            }
        }
    }
    let nev = t.finish();
    s.set("events", json!(nev));
    s.set("scenarios_skipped", json!(skipped));
    s.print();
}


/// Coordinate compression shared with other modules: sorted distinct values (with neighbours and both
/// domain ends) and their ranks; consecutive values get consecutive ranks, others are 2 apart; the
/// domain maximum gets rank TRACE_TOP.  None if there are too many values.
pub fn rank_map(dmin: u128, dmax: u128, used: Vec<u128>) -> Option<(Vec<u128>, Vec<u64>)> {
    let mut vals = vec![dmin, dmax];
    for v in used {
        vals.push(v);
        if v > dmin { vals.push(v - 1); }
        if v < dmax { vals.push(v + 1); }
    }
    vals.sort();
    vals.dedup();
    let mut ranks: Vec<u64> = Vec::with_capacity(vals.len());
    let mut first_gap = None;
    for i in 0..vals.len() {
        if i == 0 { ranks.push(0); }
        else if vals[i] == vals[i - 1] + 1 { ranks.push(ranks[i - 1] + 1); }
        else { if first_gap.is_none() { first_gap = Some(i); } ranks.push(ranks[i - 1] + 2); }
    }
    let last = *ranks.last().unwrap();
    let fg = first_gap?;
    if last > TRACE_TOP { return None; }
    let extra = TRACE_TOP - last;
    for r in ranks.iter_mut().skip(fg) { *r += extra; }
    Some((vals, ranks))
}
