//! Independent minimal DER writer (not derived from bcder): used to assemble
//! inputs the library's own encoders cannot produce.
pub fn len_bytes(n: usize) -> Vec<u8> {
    if n < 128 {
        vec![n as u8]
    } else if n < 256 {
        vec![0x81, n as u8]
    } else if n < 65536 {
        vec![0x82, (n >> 8) as u8, n as u8]
    } else {
        vec![0x83, (n >> 16) as u8, (n >> 8) as u8, n as u8]
    }
}
pub fn tlv(tag: u8, content: &[u8]) -> Vec<u8> {
    let mut v = vec![tag];
    v.extend(len_bytes(content.len()));
    v.extend_from_slice(content);
    v
}
pub fn seq(children: &[Vec<u8>]) -> Vec<u8> {
    tlv(0x30, &children.concat())
}
pub fn set(children: &[Vec<u8>]) -> Vec<u8> {
    tlv(0x31, &children.concat())
}
pub fn ctx(n: u8, constructed: bool, content: &[u8]) -> Vec<u8> {
    tlv(0x80 | if constructed { 0x20 } else { 0 } | n, content)
}
/// Non-negative INTEGER, minimal encoding.
pub fn uint(x: u128) -> Vec<u8> {
    let b = x.to_be_bytes();
    let mut i = 0;
    while i < 15 && b[i] == 0 {
        i += 1;
    }
    let mut c = Vec::new();
    if b[i] & 0x80 != 0 {
        c.push(0);
    }
    c.extend_from_slice(&b[i..]);
    tlv(0x02, &c)
}
/// INTEGER from raw big-endian magnitude bytes (minimal, non-negative).
pub fn uint_bytes(mag: &[u8]) -> Vec<u8> {
    let mut i = 0;
    while i + 1 < mag.len() && mag[i] == 0 {
        i += 1;
    }
    let mut c = Vec::new();
    if mag.is_empty() {
        c.push(0);
    } else {
        if mag[i] & 0x80 != 0 {
            c.push(0);
        }
        c.extend_from_slice(&mag[i..]);
    }
    tlv(0x02, &c)
}
/// BIT STRING holding the first `bits` bits of the 128-bit value `v` (MSB first).
pub fn bits128(v: u128, bits: u8) -> Vec<u8> {
    let nbytes = (bits as usize + 7) / 8;
    let unused = (nbytes * 8 - bits as usize) as u8;
    let mut c = vec![unused];
    let be = v.to_be_bytes();
    c.extend_from_slice(&be[..nbytes]);
    if unused > 0 {
        let last = c.len() - 1;
        c[last] &= 0xFFu8 << unused;
    }
    tlv(0x03, &c)
}
pub fn bitstring(unused: u8, bytes: &[u8]) -> Vec<u8> {
    let mut c = vec![unused];
    c.extend_from_slice(bytes);
    tlv(0x03, &c)
}
pub fn octets(bytes: &[u8]) -> Vec<u8> {
    tlv(0x04, bytes)
}
pub fn ia5(bytes: &[u8]) -> Vec<u8> {
    tlv(0x16, bytes)
}
pub fn null() -> Vec<u8> {
    vec![0x05, 0x00]
}
pub fn boolean(b: bool) -> Vec<u8> {
    vec![0x01, 0x01, if b { 0xFF } else { 0 }]
}
/// OID from its dotted components.
pub fn oid(arcs: &[u64]) -> Vec<u8> {
    let mut c = vec![(arcs[0] * 40 + arcs[1]) as u8];
    for &a in &arcs[2..] {
        let mut tmp = vec![(a & 0x7F) as u8];
        let mut a = a >> 7;
        while a > 0 {
            tmp.push(0x80 | (a & 0x7F) as u8);
            a >>= 7;
        }
        tmp.reverse();
        c.extend(tmp);
    }
    tlv(0x06, &c)
}
pub fn utctime(s: &str) -> Vec<u8> {
    tlv(0x17, s.as_bytes())
}
pub fn gentime(s: &str) -> Vec<u8> {
    tlv(0x18, s.as_bytes())
}
pub fn printable(s: &str) -> Vec<u8> {
    tlv(0x13, s.as_bytes())
}
