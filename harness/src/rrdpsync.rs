//! (extra) — binds spec/RrdpSync.tla to the documents and checks rpki::rrdp offers a relying party: NotificationFile / Snapshot /
//! Delta (new, write_xml, parse), sort_and_verify_deltas, the ProcessSnapshot / ProcessDelta callbacks, Hash::from_data / matches.
//! A behaviour of the model (the server publishes, starts a new session, serves a notification with a flaw; the relying party
//! synchronises) is realised with documents the library writes; the relying party's loop (written here, every decision taken on
//! what the library says) must end with the copy the model names, reached the way the model names (deltas, snapshot, nothing).
use crate::common::*;
use bytes::Bytes;
use rpki::rrdp::{Delta, DeltaElement, DeltaInfo, Hash, NotificationFile, ObjectReader, ProcessDelta, ProcessError, ProcessSnapshot,
                 PublishElement, Snapshot, UpdateElement, UriAndHash, WithdrawElement};
use rpki::uri;
use serde_json::{json, Value};
use std::collections::BTreeMap;
use std::io::Read;
use std::str::FromStr;
use uuid::Uuid;

type Repo = BTreeMap<String, Vec<u8>>;       // model URI name -> content

fn rsync_of(u: &str) -> uri::Rsync {
    // (the second name has an ampersand: it has to survive the attribute escaping of three kinds of document)
    let file = match u { "u1" => "a.cer".to_string(), "u2" => "b&c.roa".to_string(), other => format!("{other}.mft") };
    uri::Rsync::from_str(&format!("rsync://rpki.example/repo/{file}")).unwrap()
}
fn name_of(u: &uri::Rsync) -> String {
    match u.path() { "a.cer" => "u1".into(), "b&c.roa" => "u2".into(), p => p.trim_end_matches(".mft").to_string() }
}
fn data_of(d: &str) -> Vec<u8> {
    match d { "d1" => b"object one".to_vec(), "d2" => (0u8..=255).collect(), other => other.as_bytes().to_vec() }
}
fn repo_of(v: &Value) -> Repo {
    v.as_object().unwrap().iter().filter(|(_, d)| *d != "none").map(|(u, d)| (u.clone(), data_of(d.as_str().unwrap()))).collect()
}
fn session_of(n: u64) -> Uuid {
    Uuid::from_u128(0x9df4b597_af9e_4dca_bdda_719cce2c4e00 + n as u128)
}
fn https(path: &str) -> uri::Https {
    uri::Https::from_str(&format!("https://rrdp.example/{path}")).unwrap()
}

/// the delta that turns `old` into `new`, as the model's Elem says
fn delta_elements(old: &Repo, new: &Repo) -> Vec<DeltaElement> {
    let mut out: Vec<DeltaElement> = Vec::new();
    let names: std::collections::BTreeSet<&String> = old.keys().chain(new.keys()).collect();
    for u in names {
        match (old.get(u), new.get(u)) {
            (None, Some(d)) => out.push(PublishElement::new(rsync_of(u), Bytes::from(d.clone())).into()),
            (Some(o), None) => out.push(WithdrawElement::new(rsync_of(u), Hash::from_data(o)).into()),
            (Some(o), Some(d)) if o != d => out.push(UpdateElement::new(rsync_of(u), Hash::from_data(o), Bytes::from(d.clone())).into()),
            _ => {}
        }
    }
    out
}

fn xml<F: FnOnce(&mut Vec<u8>) -> std::io::Result<()>>(f: F) -> Vec<u8> {
    let mut v = Vec::new();
    f(&mut v).expect("writing to a vector");
    v
}

/// what the server serves at one moment: the notification and the files it points to
struct Served {
    notification: Vec<u8>,
    files: BTreeMap<String, Vec<u8>>,
}

fn serve(session: u64, hist: &[Repo], listed: &[u64], flaw: &str) -> Served {
    let serial = hist.len() as u64;
    let sid = session_of(session);
    let mut files = BTreeMap::new();
    let cur = &hist[serial as usize - 1];
    let snap = Snapshot::new(sid, serial, cur.iter().map(|(u, d)| PublishElement::new(rsync_of(u), Bytes::from(d.clone()))).collect());
    let snap_bytes = xml(|w| snap.write_xml(w));
    let snap_uri = https(&format!("{session}/{serial}/snapshot.xml"));
    files.insert(snap_uri.to_string(), snap_bytes.clone());
    let mut infos = Vec::new();
    for &k in listed {
        let d = Delta::new(sid, k, delta_elements(&hist[k as usize - 2], &hist[k as usize - 1]));
        let mut bytes = xml(|w| d.write_xml(w));
        let newest = k == serial;
        if newest && flaw == "stale-delta" {
            // the file served under the newest delta's name is a delta for another serial (correctly hashed in the notification)
            let wrong = Delta::new(sid, k + 5, delta_elements(&hist[k as usize - 2], &hist[k as usize - 1]));
            bytes = xml(|w| wrong.write_xml(w));
        }
        let uri = https(&format!("{session}/{k}/delta.xml"));
        let mut hash = Hash::from_data(&bytes);
        if newest && flaw == "badhash" {
            hash = Hash::from_data(b"some other file");
        }
        files.insert(uri.to_string(), bytes);
        infos.push(DeltaInfo::new(k, uri, hash));
    }
    // the list is written newest first, as servers do; the reader has to sort it
    infos.reverse();
    let n = NotificationFile::new(sid, serial, UriAndHash::new(snap_uri, Hash::from_data(&snap_bytes)), infos);
    Served { notification: xml(|w| n.write_xml(w)), files }
}

// ---- the relying party
struct Copy_ {
    session: Option<Uuid>,
    serial: u64,
    repo: Repo,
}

#[derive(Debug)]
struct Refuse(String);
impl From<ProcessError> for Refuse {
    fn from(e: ProcessError) -> Self { Refuse(e.to_string()) }
}

struct SnapTarget { want: (Uuid, u64), repo: Repo }
impl ProcessSnapshot for SnapTarget {
    type Err = Refuse;
    fn meta(&mut self, session_id: Uuid, serial: u64) -> Result<(), Refuse> {
        if (session_id, serial) != self.want { Err(Refuse(format!("snapshot is for {session_id}/{serial}"))) } else { Ok(()) }
    }
    fn publish(&mut self, uri: uri::Rsync, data: &mut ObjectReader) -> Result<(), Refuse> {
        let mut v = Vec::new();
        data.read_to_end(&mut v).map_err(|e| Refuse(e.to_string()))?;
        if self.repo.insert(name_of(&uri), v).is_some() { return Err(Refuse(format!("{uri} published twice"))) }
        Ok(())
    }
}

struct DeltaTarget { want: (Uuid, u64), repo: Repo }
impl ProcessDelta for DeltaTarget {
    type Err = Refuse;
    fn meta(&mut self, session_id: Uuid, serial: u64) -> Result<(), Refuse> {
        if (session_id, serial) != self.want { Err(Refuse(format!("delta is for {session_id}/{serial}, wanted {:?}", self.want))) } else { Ok(()) }
    }
    fn publish(&mut self, uri: uri::Rsync, hash: Option<Hash>, data: &mut ObjectReader) -> Result<(), Refuse> {
        let mut v = Vec::new();
        data.read_to_end(&mut v).map_err(|e| Refuse(e.to_string()))?;
        let name = name_of(&uri);
        match (hash, self.repo.get(&name)) {
            (None, None) => {}
            (Some(h), Some(old)) if h.matches(old) => {}
            (h, old) => return Err(Refuse(format!("publish {uri}: hash given {}, object held {}", h.is_some(), old.is_some()))),
        }
        self.repo.insert(name, v);
        Ok(())
    }
    fn withdraw(&mut self, uri: uri::Rsync, hash: Hash) -> Result<(), Refuse> {
        let name = name_of(&uri);
        match self.repo.get(&name) {
            Some(old) if hash.matches(old) => { self.repo.remove(&name); Ok(()) }
            _ => Err(Refuse(format!("withdraw {uri}: not held with that hash"))),
        }
    }
}

/// one synchronisation; returns how it went
fn sync(copy: &mut Copy_, served: &Served) -> Result<&'static str, String> {
    let mut n = NotificationFile::parse(&served.notification[..]).map_err(|e| format!("own notification does not parse: {e}"))?;
    let (sid, serial) = (n.session_id(), n.serial());
    if copy.session == Some(sid) && copy.serial == serial {
        return Ok("nothing");
    }
    // ---- deltas, if the copy is of this session, behind, and the list holds and reaches back far enough
    let mut by_deltas: Option<Repo> = None;
    if copy.session == Some(sid) && copy.serial >= 1 && copy.serial < serial && n.sort_and_verify_deltas(None) {
        let listed: BTreeMap<u64, &DeltaInfo> = n.deltas().iter().map(|d| (d.serial(), d)).collect();
        if (copy.serial + 1..=serial).all(|k| listed.contains_key(&k)) {
            let mut repo = copy.repo.clone();
            let mut ok = true;
            for k in copy.serial + 1..=serial {
                let info = listed[&k];
                let Some(bytes) = served.files.get(&info.uri().to_string()) else { ok = false; break };
                if !info.hash().matches(bytes) { ok = false; break }
                let mut t = DeltaTarget { want: (sid, k), repo: repo.clone() };
                if t.process(&bytes[..]).is_err() { ok = false; break }
                // the value-level reader says the same
                match Delta::parse(&bytes[..]) {
                    Ok(d) if d.session_id() == sid && d.serial() == k => {}
                    other => return Err(format!("ProcessDelta accepts delta {k}, Delta::parse gives {:?}", other.map(|d| (d.session_id(), d.serial())).map_err(|e| e.to_string()))),
                }
                repo = t.repo;
            }
            if ok { by_deltas = Some(repo); }
        }
    }
    if let Some(repo) = by_deltas {
        *copy = Copy_ { session: Some(sid), serial, repo };
        return Ok("deltas");
    }
    // ---- the snapshot
    let info = n.snapshot();
    let bytes = served.files.get(&info.uri().to_string()).ok_or("snapshot not served")?;
    if !info.hash().matches(bytes) { return Err("the snapshot's hash does not match the file the library wrote".into()) }
    let mut t = SnapTarget { want: (sid, serial), repo: Repo::new() };
    t.process(&bytes[..]).map_err(|e| format!("own snapshot refused: {}", e.0))?;
    let s = Snapshot::parse(&bytes[..]).map_err(|e| format!("own snapshot does not parse: {e}"))?;
    let via_value: Repo = s.elements().iter().map(|e| (name_of(e.uri()), e.data().to_vec())).collect();
    if via_value != t.repo { return Err("Snapshot::parse and ProcessSnapshot disagree about the snapshot's content".into()) }
    *copy = Copy_ { session: Some(sid), serial, repo: t.repo };
    Ok("snapshot")
}

fn run(c: &Value) -> Result<(), (String, String)> {
    let mut session = 1u64;
    let mut hist: Vec<Repo> = Vec::new();
    let mut flaw = "ok".to_string();
    let mut copy = Copy_ { session: None, serial: 0, repo: Repo::new() };
    for (i, st) in c["log"].as_array().unwrap().iter().enumerate() {
        match st["a"].as_str().unwrap() {
            "start" => hist = vec![repo_of(&st["repo"])],
            "publish" => { hist.push(repo_of(&st["repo"])); flaw = st["flaw"].as_str().unwrap().to_string(); }
            "newsession" => { session += 1; hist = vec![hist.last().unwrap().clone()]; flaw = "ok".into(); }
            "sync" => {
                let listed: Vec<u64> = { let mut l: Vec<u64> = st["listed"].as_array().unwrap().iter().map(|x| x.as_u64().unwrap()).collect(); l.sort(); l };
                let served = serve(session, &hist, &listed, &flaw);
                let how = sync(&mut copy, &served).map_err(|m| ("sync:error".to_string(), format!("step {i}: {m}")))?;
                let want = st["how"].as_str().unwrap();
                if how != want {
                    return Err((format!("sync:how:{how}"), format!("step {i}: the relying party synchronised by '{how}', the specification says '{want}' (flaw {flaw}, listed {listed:?}, copy at serial {})", copy.serial)));
                }
                let cur = repo_of(&st["repo"]);
                if copy.repo != cur || copy.serial != hist.len() as u64 || copy.session != Some(session_of(session)) {
                    return Err(("sync:copy".into(), format!("step {i}: after synchronising by '{how}' the copy holds {:?} at serial {}, the server {:?} at {}", copy.repo.keys().collect::<Vec<_>>(), copy.serial, cur.keys().collect::<Vec<_>>(), hist.len())));
                }
            }
            other => panic!("unknown action {other}"),
        }
    }
    Ok(())
}

pub fn replay(args: &[String]) {
    let cases = read_cases(&args[0]);
    let mut s = Summary::new();
    for c in &cases {
        match guarded(|| run(c)) {
            Ok(Ok(())) => {}
            Ok(Err((k, m))) => s.violation(&k, m, c.clone()),
            Err(m) => s.violation("panic", m, c.clone()),
        }
        for st in c["log"].as_array().unwrap() {
            if st["a"] == "sync" { s.count(&format!("syncs_by_{}", st["how"].as_str().unwrap()), 1); }
        }
        s.eval(Some(&format!("{}", c["log"])));
        if s.samples.len() < 3 && s.evaluations % 5003 == 7 { s.sample(json!({"steps": c["log"].as_array().unwrap().len()})); }
    }
    s.print();
}
