//! C09 — binds spec/RrdpDoc.tla and spec/XmlLimit.tla to rpki::rrdp and rpki::xml::decode.
use crate::common::*;
use bytes::Bytes;
use rpki::rrdp::*;
use rpki::uri;
use rpki::xml::decode::verif_hook::{self, Event};
use serde_json::{json, Value};
use std::io::{BufReader, Read};
use std::str::FromStr;
use uuid::Uuid;

fn rsync_uri(u: &str) -> uri::Rsync {
    uri::Rsync::from_str(match u {
        "u1" => "rsync://example.org/mod/a&b'c.cer",
        _ => "rsync://EXAMPLE.org/mod/x/y%20z.roa",
    })
    .unwrap()
}
fn https_uri(auth: &str, path: &str) -> uri::Https {
    let host = match auth {
        "a" => "rrdp.example.org",
        "A" => "RRDP.Example.ORG",
        "ax" => "rrdp.example.org.evil.example",
        "ap" => "rrdp.example.org:8443",
        _ => "other.example.net:8443",
    };
    uri::Https::from_str(&format!("https://{host}/{path}")).unwrap()
}
fn hash_of(h: &str) -> Hash {
    Hash::from(if h == "h1" { [0x11u8; 32] } else { [0xFEu8; 32] })
}
fn data_of(d: &str) -> Bytes {
    match d {
        "empty" => Bytes::new(),
        "one" => Bytes::from_static(b"<"),
        "bin" => Bytes::from((0u8..=255).collect::<Vec<u8>>()),
        "vast" => Bytes::from((0..(9 * 1024 * 1024 + 5) as u32).map(|i| (i * 11 + (i >> 13)) as u8).collect::<Vec<u8>>()),
        "huge" => Bytes::from((0..1_500_000u32).map(|i| (i * 13 + (i >> 9)) as u8).collect::<Vec<u8>>()),
        _ => Bytes::from((0..10_000u32).map(|i| (i * 7) as u8).collect::<Vec<u8>>()),
    }
}
fn ser(v: &Value, sermax: u64) -> u64 {
    let x = v.as_u64().unwrap();
    if x == sermax { u64::MAX } else if x == sermax - 1 { u64::MAX - 1 } else { x }
}

/// a notification file with `n` delta entries (more than one element budget in total) must parse back
fn replay_bulk(s: &mut Summary, c: &Value) {
    let n = c["n"].as_u64().unwrap();
    let session = Uuid::from_u128(0x0123_4567_89ab_cdef_0123_4567_89ab_cdef);
    let r = guarded(|| -> Result<(), (String, String)> {
        let deltas: Vec<DeltaInfo> = (1..=n).map(|i| DeltaInfo::new(i, https_uri("a", &format!("deltas/{i:08}/a-rather-long-path-segment-to-make-entries-big/delta.xml")), hash_of("h1"))).collect();
        let snap = UriAndHash::new(https_uri("a", "s/snapshot.xml"), hash_of("h1"));
        let file = NotificationFile::new(session, n, snap, deltas.clone());
        let mut xml = Vec::new();
        file.write_xml(&mut xml).map_err(|e| ("write".to_string(), e.to_string()))?;
        if xml.len() < 1_500_000 {
            return Err(("bulk:too-small".into(), format!("the bulk notification is only {} bytes", xml.len())));
        }
        let back = NotificationFile::parse(xml.as_slice()).map_err(|e| ("roundtrip:parse".to_string(), format!("own XML ({} bytes, {n} deltas) does not parse: {e}", xml.len())))?;
        if back.deltas().len() != deltas.len() || back.deltas().iter().zip(&deltas).any(|(a, b)| a.serial() != b.serial() || a.uri() != b.uri()) {
            return Err(("roundtrip:value".into(), "bulk notification parses back to a different value".into()));
        }
        Ok(())
    });
    match r {
        Ok(Ok(())) => {}
        Ok(Err((k, m))) => s.violation(&k, m, c.clone()),
        Err(m) => s.violation("panic", m, c.clone()),
    }
    s.eval(Some("bulk"));
}

fn replay_doc(s: &mut Summary, c: &Value) {
    let sermax = c["sermax"].as_u64().unwrap();
    let serial = ser(&c["serial"], sermax);
    let session = Uuid::from_u128(0x0123_4567_89ab_cdef_0123_4567_89ab_cdef);
    let elems = c["elems"].as_array().unwrap();
    let r = guarded(|| -> Result<(), (String, String)> {
        match c["kind"].as_str().unwrap() {
            "notification" => {
                let deltas: Vec<DeltaInfo> = elems
                    .iter()
                    .map(|e| DeltaInfo::new(ser(&e["serial"], sermax), https_uri(e["auth"].as_str().unwrap(), "d/delta.xml"), hash_of(e["hash"].as_str().unwrap())))
                    .collect();
                let snap = UriAndHash::new(https_uri(c["snapAuth"].as_str().unwrap(), "s/snapshot.xml"), hash_of("h1"));
                let file = NotificationFile::new(session, serial, snap.clone(), deltas.clone());
                let mut xml = Vec::new();
                file.write_xml(&mut xml).map_err(|e| ("write".to_string(), e.to_string()))?;
                let mut back = NotificationFile::parse(xml.as_slice()).map_err(|e| ("roundtrip:parse".to_string(), format!("own XML does not parse: {e}")))?;
                if back.session_id() != session || back.serial() != serial || back.snapshot().uri() != snap.uri() || back.snapshot().hash() != snap.hash()
                    || back.deltas().len() != deltas.len()
                    || back.deltas().iter().zip(&deltas).any(|(a, b)| a.serial() != b.serial() || a.uri() != b.uri() || a.hash() != b.hash())
                {
                    return Err(("roundtrip:value".into(), "notification parses back to a different value".into()));
                }
                // delta chain check
                let limit = match c["limit"].as_u64().unwrap() { 99 => None, n => Some(n as usize) };
                let ok = back.sort_and_verify_deltas(limit);
                let want_ok = c["chain_ok"].as_bool().unwrap();
                if ok != want_ok {
                    return Err((format!("deltas:{}", if want_ok { "rejects-consecutive" } else { "accepts-gap" }),
                                format!("sort_and_verify_deltas({limit:?}) = {ok} on serials {:?}, specification {want_ok}", deltas.iter().map(|d| d.serial()).collect::<Vec<_>>())));
                }
                let retained: Vec<u64> = back.deltas().iter().map(|d| d.serial()).collect();
                let want: Vec<u64> = c["retained"].as_array().unwrap().iter().map(|v| ser(v, sermax)).collect();
                if retained != want {
                    return Err(("deltas:retained".into(), format!("retained deltas {retained:?}, specification {want:?}")));
                }
                // origin check
                let base = https_uri(c["base"].as_str().unwrap(), "notification.xml");
                let om = file.has_matching_origins(&base);
                if om != c["origins_ok"].as_bool().unwrap() {
                    return Err(("origins".into(), format!("has_matching_origins = {om}, specification {}", c["origins_ok"])));
                }
            }
            "snapshot" => {
                let els: Vec<PublishElement> = elems.iter().map(|e| PublishElement::new(rsync_uri(e["uri"].as_str().unwrap()), data_of(e["data"].as_str().unwrap()))).collect();
                let file = Snapshot::new(session, serial, els.clone());
                let mut xml = Vec::new();
                file.write_xml(&mut xml).map_err(|e| ("write".to_string(), e.to_string()))?;
                let back = Snapshot::parse(xml.as_slice()).map_err(|e| ("roundtrip:parse".to_string(), format!("own XML does not parse: {e}")))?;
                if back.session_id() != session || back.serial() != serial || back.elements() != els.as_slice() {
                    return Err(("roundtrip:value".into(), "snapshot parses back to a different value".into()));
                }
            }
            _ => {
                let els: Vec<DeltaElement> = elems
                    .iter()
                    .map(|e| {
                        let u = rsync_uri(e["uri"].as_str().unwrap());
                        // ("self": the hash of the element's own data)
                        let h = if e["hash"] == "self" { Hash::from_data(&data_of(e["data"].as_str().unwrap())) } else { hash_of(e["hash"].as_str().unwrap()) };
                        match e["t"].as_str().unwrap() {
                            "publish" => PublishElement::new(u, data_of(e["data"].as_str().unwrap())).into(),
                            "update" => UpdateElement::new(u, h, data_of(e["data"].as_str().unwrap())).into(),
                            _ => WithdrawElement::new(u, h).into(),
                        }
                    })
                    .collect();
                let file = Delta::new(session, serial, els.clone());
                let mut xml = Vec::new();
                file.write_xml(&mut xml).map_err(|e| ("write".to_string(), e.to_string()))?;
                let back = Delta::parse(xml.as_slice()).map_err(|e| ("roundtrip:parse".to_string(), format!("own XML does not parse: {e}")))?;
                if back.session_id() != session || back.serial() != serial || back.elements() != els.as_slice() {
                    return Err(("roundtrip:value".into(), "delta parses back to a different value".into()));
                }
            }
        }
        Ok(())
    });
    match r {
        Ok(Ok(())) => {}
        Ok(Err((k, m))) => s.violation(&k, m, c.clone()),
        Err(m) => s.violation("panic", m, c.clone()),
    }
    s.eval_if(!elems.is_empty(), &format!("{c}"));
}

/// Snapshots and deltas of many elements (every kind mixed, the same URI more than once, in the order given): written and parsed
/// back they are the same elements in the same order - also past 64, 256 and 1000 of them.
fn long_documents(s: &mut Summary) {
    let session = uuid::Uuid::from_u128(0x1234_5678_9abc_def0_1122_3344_5566_7788);
    for n in [1usize, 2, 63, 64, 65, 255, 256, 257, 1000, 1025] {
        let r = guarded(|| -> Result<(), String> {
            let uri = |i: usize| uri::Rsync::from_str(&format!("rsync://example.org/mod/d{}/o{}.roa", i % 7, if i % 9 == 8 { i - 1 } else { i })).unwrap();
            let data = |i: usize| Bytes::from(format!("object {i} {}", "x".repeat(i % 50)).into_bytes());
            let pubs: Vec<PublishElement> = (0..n).map(|i| PublishElement::new(uri(i), data(i))).collect();
            let snap = Snapshot::new(session, 5, pubs);
            let mut xml = Vec::new();
            snap.write_xml(&mut xml).map_err(|e| e.to_string())?;
            let back = Snapshot::parse(xml.as_slice()).map_err(|e| format!("snapshot of {n} elements does not parse back: {e}"))?;
            if back != snap { return Err(format!("snapshot of {n} elements parses back with {} elements / differently", back.elements().len())); }
            let els: Vec<DeltaElement> = (0..n).map(|i| match i % 3 {
                0 => PublishElement::new(uri(i), data(i)).into(),
                1 => UpdateElement::new(uri(i), Hash::from_data(&data(i + (i % 2))), data(i)).into(),
                _ => WithdrawElement::new(uri(i), Hash::from_data(&data(i))).into(),
            }).collect();
            let delta = Delta::new(session, 6, els);
            let mut xml = Vec::new();
            delta.write_xml(&mut xml).map_err(|e| e.to_string())?;
            let back = Delta::parse(xml.as_slice()).map_err(|e| format!("delta of {n} elements does not parse back: {e}"))?;
            if back != delta { return Err(format!("delta of {n} elements parses back with {} elements / differently", back.elements().len())); }
            Ok(())
        });
        match r {
            Ok(Ok(())) => {}
            Ok(Err(m)) => s.violation("roundtrip:long", m, json!({"elements": n})),
            Err(m) => s.violation("panic", m, json!({"elements": n})),
        }
        s.evals(1);
    }
}

pub fn replay(args: &[String]) {
    let cases = read_cases(&args[0]);
    let mut s = Summary::new();
    long_documents(&mut s);
    for c in &cases {
        if c["op"] == "bulk" { replay_bulk(&mut s, c); } else { replay_doc(&mut s, c); }
        if s.samples.len() < 3 && s.evaluations % 40009 == 17 {
            s.sample(c.clone());
        }
    }
    s.print();
}

// --------------------------------------------------------------------------
// hostile streams + budget trace (impl -> spec via the cfg hook)
// --------------------------------------------------------------------------
/// `prefix` followed by `filler` repeated forever (hard stop far beyond every limit).
struct Endless {
    prefix: Vec<u8>,
    filler: Vec<u8>,
    pos: u64,
    pub pulled: u64,
    hard_stop: u64,
}
impl Read for Endless {
    fn read(&mut self, buf: &mut [u8]) -> std::io::Result<usize> {
        if self.pulled >= self.hard_stop {
            return Ok(0);
        }
        let mut n = 0;
        while n < buf.len() {
            let p = self.pos as usize;
            buf[n] = if p < self.prefix.len() { self.prefix[p] } else { self.filler[(p - self.prefix.len()) % self.filler.len()] };
            self.pos += 1;
            n += 1;
        }
        self.pulled += n as u64;
        Ok(n)
    }
}
struct CountRead<R: Read>(R, std::rc::Rc<std::cell::Cell<u64>>);
impl<R: Read> Read for CountRead<R> {
    fn read(&mut self, buf: &mut [u8]) -> std::io::Result<usize> {
        let n = self.0.read(buf)?;
        self.1.set(self.1.get() + n as u64);
        Ok(n)
    }
}

const NS: &str = "http://www.ripe.net/rpki/rrdp";
const H: u64 = 1_000_000;
const F: u64 = 100_000_000;
const CAP: usize = 8192;

fn emit_events(t: &mut TraceOut, evs: Vec<Event>) {
    for e in evs {
        t.ev(match e {
            Event::Reset => json!({"ev": "reset"}),
            Event::Limit(n) => json!({"ev": "limit", "n": n}),
            Event::Fill(n) => json!({"ev": "fill", "n": n}),
            Event::Refuse { trip, limit } => json!({"ev": "refuse", "trip": trip, "limit": limit}),
            Event::Consume(n) => json!({"ev": "consume", "n": n}),
        });
    }
}

thread_local! { static LAST_LIMIT: std::cell::Cell<u64> = const { std::cell::Cell::new(0) }; }

/// Parse `input` with the parser for `kind`, recording budget events; returns (ok, bytes pulled).
fn parse_traced<R: Read>(kind: &str, input: R, t: &mut TraceOut) -> Result<(bool, u64, bool), String> {
    let count = std::rc::Rc::new(std::cell::Cell::new(0u64));
    let rd = BufReader::with_capacity(CAP, CountRead(input, count.clone()));
    t.ev(json!({"ev": "new", "kind": kind}));
    verif_hook::start();
    let r = guarded(|| match kind {
        "notification" => NotificationFile::parse(rd).is_ok(),
        "snapshot" => Snapshot::parse(rd).is_ok(),
        _ => Delta::parse(rd).is_ok(),
    });
    let evs = verif_hook::take();
    let refused = evs.iter().any(|e| matches!(e, Event::Refuse { .. }));
    // the limit the parser had configured for the element it was reading when it stopped
    let last = evs.iter().rev().find_map(|e| if let Event::Limit(n) = e { Some(*n) } else { None }).unwrap_or(0);
    LAST_LIMIT.with(|l| l.set(last));
    emit_events(t, evs);
    r.map(|ok| (ok, count.get(), refused))
}

fn valid_doc(kind: &str, rng: &mut Rng) -> Vec<u8> {
    let session = Uuid::from_u128(rng.u128());
    let mut xml = Vec::new();
    match kind {
        "notification" => {
            let n = rng.below(6);
            let deltas = (0..n).map(|i| DeltaInfo::new(rng.below(5) + i, https_uri(*rng.pick(&["a", "A", "b"]), "d.xml"), hash_of("h2"))).collect();
            NotificationFile::new(session, rng.next(), UriAndHash::new(https_uri("a", "s.xml"), hash_of("h1")), deltas).write_xml(&mut xml).unwrap();
        }
        "snapshot" => {
            let els = (0..rng.below(5)).map(|_| PublishElement::new(rsync_uri(*rng.pick(&["u1", "u2"])), data_of(*rng.pick(&["empty", "one", "bin", "big"])))).collect();
            Snapshot::new(session, rng.next(), els).write_xml(&mut xml).unwrap();
        }
        _ => {
            let els = (0..rng.below(5))
                .map(|_| match rng.below(3) {
                    0 => PublishElement::new(rsync_uri("u1"), data_of("big")).into(),
                    1 => UpdateElement::new(rsync_uri("u2"), hash_of("h1"), data_of("bin")).into(),
                    _ => WithdrawElement::new(rsync_uri("u1"), hash_of("h2")).into(),
                })
                .collect();
            Delta::new(session, rng.next(), els).write_xml(&mut xml).unwrap();
        }
    }
    xml
}

pub fn drive(args: &[String]) {
    let seed = arg_u64(args, "--seed", 1);
    let n = arg_u64(args, "--n", 40);
    let full = arg_u64(args, "--full-size", 0) == 1;
    let out = arg_val(args, "--out").expect("--out");
    let mut rng = Rng::new(seed);
    let mut t = TraceOut::create(&out);
    let mut s = Summary::new();
    // 1. valid random documents and byte-level mutations of them: value or error, never a panic
    for i in 0..n {
        let kind = *rng.pick(&["notification", "snapshot", "delta"]);
        let mut xml = valid_doc(kind, &mut rng);
        let mutated = i % 3 != 0;
        if mutated {
            for _ in 0..rng.range(1, 3) {
                let k = rng.below(xml.len() as u64) as usize;
                match rng.below(4) {
                    0 => xml[k] = *rng.pick(b"<>&\"'/= \0\xff"),
                    1 => { xml.truncate(k); }
                    2 => { let ins = *rng.pick(&[&b"<!--x-->"[..], &b"<x/>"[..], &b"&lol;"[..], &b"<![CDATA[x]]>"[..], &b"<?pi?>"[..], &b" xmlns:a='b'"[..]]); xml.splice(k..k, ins.iter().copied()); }
                    _ => { let l = xml.len(); xml.extend_from_within(k..l.min(k + 40)); }
                }
                if xml.is_empty() { break; }
            }
        }
        let len = xml.len() as u64;
        match parse_traced(kind, std::io::Cursor::new(xml), &mut t) {
            Ok((ok, pulled, refused)) => {
                if !mutated && !ok {
                    s.violation("valid:rejected", format!("a {kind} file written by the library does not parse"), json!({"seed": seed, "i": i}));
                }
                t.ev(json!({"ev": "done", "endless": false, "ok": ok, "refused": refused, "pulled": pulled, "offset": len}));
            }
            Err(m) => {
                s.violation("parse:panic", format!("{kind} parser panicked: {m}"), json!({"seed": seed, "i": i}));
                t.ev(json!({"ev": "done", "endless": false, "ok": false, "refused": false, "pulled": 0, "offset": len}));
            }
        }
        s.eval(Some(&format!("doc{i}")));
    }
    // 2. the repository's captured files
    for (kind, file) in [("notification", "ripe-notification.xml"), ("notification", "lolz-notification.xml"), ("notification", "ripe-notification-with-gaps.xml"),
                         ("snapshot", "ripe-snapshot.xml"), ("delta", "ripe-delta.xml")] {
        if let Ok(data) = std::fs::read(format!("/repo/test-data/rrdp/{file}")) {
            let len = data.len() as u64;
            match parse_traced(kind, std::io::Cursor::new(data), &mut t) {
                Ok((ok, pulled, refused)) => t.ev(json!({"ev": "done", "endless": false, "ok": ok, "refused": refused, "pulled": pulled, "offset": len})),
                Err(m) => s.violation("parse:panic", format!("{kind} parser panicked on {file}: {m}"), json!({"file": file})),
            }
            s.eval(Some(file));
        }
    }
    // 3. hostile endless streams: (kind, place, prefix, filler, limit in force at the offending element)
    let root = |k: &str| format!("<{k} xmlns=\"{NS}\" version=\"1\" session_id=\"9df4b597-af9e-4dca-bdda-719cce2c4e28\" serial=\"7\"");
    let child_open = |k: &str| match k {
        "notification" => "<snapshot uri=\"https://h/s.xml\" hash=\"".to_string(),
        "snapshot" => "<publish uri=\"rsync://h/m/".to_string(),
        _ => "<withdraw hash=\"".to_string(),
    };
    let mut hostile: Vec<(String, &str, Vec<u8>, Vec<u8>, u64)> = Vec::new();
    for kind in ["notification", "snapshot", "delta"] {
        let child_limit = if kind == "notification" { H } else { F };
        hostile.push((kind.into(), "prolog-whitespace", b"<?xml version=\"1.0\"?>".to_vec(), b" \n".to_vec(), H));
        hostile.push((kind.into(), "prolog-comment", b"<!--".to_vec(), b"x".to_vec(), H));
        hostile.push((kind.into(), "root-attr-value", format!("{} extra=\"", root(kind)).into_bytes(), b"A".to_vec(), H));
        hostile.push((kind.into(), "root-name", b"<n".to_vec(), b"n".to_vec(), H));
        hostile.push((kind.into(), "root-attr-whitespace", root(kind).into_bytes(), b" ".to_vec(), H));
        hostile.push((kind.into(), "child-attr-value", format!("{}>{}", root(kind), child_open(kind)).into_bytes(), b"a".to_vec(), child_limit));
        hostile.push((kind.into(), "child-whitespace", format!("{}>", root(kind)).into_bytes(), b"\n ".to_vec(), child_limit));
        hostile.push((kind.into(), "child-entity-text", format!("{}>{}x\">", root(kind), child_open(kind)).into_bytes(), b"&amp;".to_vec(), child_limit));
        hostile.push((kind.into(), "child-nesting", format!("{}>", root(kind)).into_bytes(), b"<a>".to_vec(), child_limit));
        // endless runs of SMALL items that are not elements: none of them is long, together they are; no element starts, so no
        // fresh budget is due
        hostile.push((kind.into(), "prolog-comments", b"<?xml version=\"1.0\"?>".to_vec(), b"<!--x-->".to_vec(), H));
        hostile.push((kind.into(), "prolog-pis", b"<?xml version=\"1.0\"?>".to_vec(), b"<?p x?>".to_vec(), H));
        hostile.push((kind.into(), "child-comments", format!("{}>", root(kind)).into_bytes(), b"<!--x-->\n".to_vec(), child_limit));
        hostile.push((kind.into(), "child-pis", format!("{}>", root(kind)).into_bytes(), b"<?p x?>".to_vec(), child_limit));
        hostile.push((kind.into(), "child-cdata", format!("{}>", root(kind)).into_bytes(), b"<![CDATA[ ]]>".to_vec(), child_limit));
        if kind != "notification" {
            hostile.push((kind.into(), "publish-text", format!("{}><publish uri=\"rsync://h/m/a.cer\">", root(kind)).into_bytes(), b"QUJD".to_vec(), F));
            hostile.push((kind.into(), "publish-text-comments", format!("{}><publish uri=\"rsync://h/m/a.cer\">QUJD", root(kind)).into_bytes(), b"<!--x-->".to_vec(), F));
            hostile.push((kind.into(), "publish-text-cdata", format!("{}><publish uri=\"rsync://h/m/a.cer\">", root(kind)).into_bytes(), b"<![CDATA[QUJD]]>".to_vec(), F));
            // a long (acceptable) start tag and then endless text: both belong to ONE element and share ONE budget
            let mut p = format!("{}><publish uri=\"rsync://h/m/", root(kind)).into_bytes();
            p.extend(std::iter::repeat(b'a').take(12_000_000));
            p.extend_from_slice(b".cer\">");
            hostile.push((kind.into(), "publish-long-tag-then-text", p, b"QUJD".to_vec(), F));
        }
    }
    // the budget invariant of XmlLimit (trip <= limit + B) at the smallest buffer there is, B = 1: every octet is its own fill, so a
    // limit that is off by one octet shows (with 8 KiB buffers the counter never stands on limit + 1 exactly).  The recording has
    // two events per octet - too long for the trace specification - so the invariant is evaluated on it here.
    for (kind, place, prefix, filler, _) in hostile.iter().filter(|h| h.4 == H && ["root-attr-value", "child-comments", "child-attr-value"].contains(&h.1)) {
        let src = Endless { hard_stop: prefix.len() as u64 + 2 * H + 64, prefix: prefix.clone(), filler: filler.clone(), pos: 0, pulled: 0 };
        let rd = BufReader::with_capacity(1, src);
        verif_hook::start();
        let r = guarded(|| match kind.as_str() {
            "notification" => NotificationFile::parse(rd).is_ok(),
            "snapshot" => Snapshot::parse(rd).is_ok(),
            _ => Delta::parse(rd).is_ok(),
        });
        let evs = verif_hook::take();
        let (mut trip, mut limit, mut worst) = (0u64, 0u64, 0u64);
        for e in &evs {
            match e {
                Event::Reset => trip = 0,
                Event::Limit(n) => limit = *n as u64,
                Event::Consume(n) => { trip += *n as u64; if limit > 0 && trip > limit { worst = worst.max(trip - limit); } }
                _ => {}
            }
        }
        match r {
            Err(m) => s.violation("hostile:panic", format!("{kind}/{place} (one-octet buffer): {m}"), json!({"kind": kind, "place": place})),
            Ok(ok) => {
                if ok { s.violation("hostile:accepted", format!("{kind}/{place}: endless input accepted"), json!({"kind": kind, "place": place})); }
                if worst > 1 {
                    s.violation(&format!("hostile:unbounded:{kind}:{place}:octet-buffer"), format!("{kind}/{place} read through a one-octet buffer: {worst} octets consumed beyond the limit, the limit plus one buffer allows 1"),
                                json!({"kind": kind, "place": place, "beyond": worst}));
                }
            }
        }
        s.eval(Some(&format!("{kind}/{place}/b1")));
    }
    for (kind, place, prefix, filler, limit) in hostile {
        if limit == F && !full && place != "publish-text" && !(place == "publish-long-tag-then-text" && kind == "snapshot") {
            continue; // the 100 MB budgets: one representative in the quick tier, all of them with --full-size 1
        }
        // the offending element starts where its start tag starts (for the long start tag that is 12 MB before the end of the prefix)
        let offset = if place == "publish-long-tag-then-text" { (prefix.len() - 12_000_000 - 40) as u64 } else { prefix.len() as u64 };
        // the stream goes on for twice the limit in force past its prefix: enough to show an overrun, and short enough that a reader
        // that does not stop at all (and the budget trace recorded from it) stays small
        let src = Endless { hard_stop: prefix.len() as u64 + 2 * limit + 4 * CAP as u64, prefix, filler, pos: 0, pulled: 0 };
        match parse_traced(&kind, src, &mut t) {
            Ok((ok, pulled, refused)) => {
                // the bound is stated in terms of the limit the code has CONFIGURED for that element (seen through the hook), so that
                // a change of the constants is not mistaken for a violation; `limit` (1 MB / 100 MB today) only selects the stream
                let configured = LAST_LIMIT.with(|l| l.get());
                let limit = if configured > 0 { configured } else { limit };
                let bound = offset + limit + CAP as u64;
                if ok {
                    s.violation("hostile:accepted", format!("{kind}/{place}: endless input accepted"), json!({"kind": kind, "place": place}));
                }
                if pulled > bound {
                    s.violation(&format!("hostile:unbounded:{kind}:{place}"), format!("{kind}/{place}: {pulled} bytes read, bound is offset {offset} + limit {limit} + one buffer {CAP}"),
                                json!({"kind": kind, "place": place, "pulled": pulled, "bound": bound}));
                }
                t.ev(json!({"ev": "done", "endless": true, "ok": ok, "refused": refused, "pulled": pulled, "offset": offset, "kind": kind, "place": place}));
                if s.samples.len() < 3 { s.sample(json!({"hostile": format!("{kind}/{place}"), "pulled": pulled, "limit": limit})); }
            }
            Err(m) => s.violation("hostile:panic", format!("{kind}/{place}: {m}"), json!({"kind": kind, "place": place})),
        }
        s.eval(Some(&format!("{kind}/{place}")));
    }
    s.set("events", json!(t.finish()));
    s.print();
}
