//! C10 — binds spec/CmsMsg.tla to rpki::ca::sigmsg::SignedMessage (RFC 6492 / 8181 CMS).
use crate::cms::*;
use crate::common::*;
use crate::der;
use crate::pki::*;
use bcder::encode::Values;
use bcder::Mode;
use bytes::Bytes;
use rpki::ca::sigmsg::SignedMessage;
use rpki::crypto::{RpkiSignatureAlgorithm, Signer};
use rpki::repository::x509::{Time, Validity};
use serde_json::{json, Value};

const OID_SHA256_RSA: &[u64] = &[1, 2, 840, 113549, 1, 1, 11];
const OID_CE_SKI: &[u64] = &[2, 5, 29, 14];
const OID_CE_AKI: &[u64] = &[2, 5, 29, 35];
const OID_CE_BC: &[u64] = &[2, 5, 29, 19];
const OID_CE_CRLNUM: &[u64] = &[2, 5, 29, 20];

fn alg_x509() -> Vec<u8> {
    der::seq(&[der::oid(OID_SHA256_RSA), der::null()])
}
fn name_of(pki: &Pki, key: &str) -> Vec<u8> {
    pki.pubkey(key).to_subject_name().encode_ref().to_captured(Mode::Der).into_bytes().to_vec()
}
fn spki_of(pki: &Pki, key: &str) -> Vec<u8> {
    pki.pubkey(key).encode_ref().to_captured(Mode::Der).into_bytes().to_vec()
}
fn ski_of(pki: &Pki, key: &str) -> Vec<u8> {
    pki.pubkey(key).key_identifier().as_slice().to_vec()
}
fn utc(t: Time) -> Vec<u8> {
    use chrono::{Datelike, Timelike};
    der::utctime(&format!("{:02}{:02}{:02}{:02}{:02}{:02}Z", t.year() % 100, t.month(), t.day(), t.hour(), t.minute(), t.second()))
}
fn ext(oid: &[u64], critical: bool, value: Vec<u8>) -> Vec<u8> {
    let mut v = vec![der::oid(oid)];
    if critical { v.push(der::boolean(true)); }
    v.push(der::octets(&value));
    der::seq(&v)
}
fn sign(pki: &Pki, key: &str, data: &[u8]) -> Vec<u8> {
    pki.signer.sign(&pki.key(key), RpkiSignatureAlgorithm::default(), data).unwrap().value().to_vec()
}

/// Identity EE certificate assembled by hand (RFC 5280 shape, as RFC 6492/8181 use it).
pub fn id_ee_cert(pki: &Pki, subject_key: &str, sig_key: &str, issuer_name_key: &str, nb: Time, na: Time, basic: &str, aki: Option<&str>, serial: u64) -> Vec<u8> {
    let mut exts = Vec::new();
    // Basic Constraints: absent ("no"), present with cA left at its default FALSE ("ext_false", what several RIR encoders write), cA TRUE ("yes")
    match basic {
        "yes" => exts.push(ext(OID_CE_BC, true, der::seq(&[der::boolean(true)]))),
        "ext_false" => exts.push(ext(OID_CE_BC, true, der::seq(&[]))),
        _ => {}
    }
    exts.push(ext(OID_CE_SKI, false, der::octets(&ski_of(pki, subject_key))));
    if let Some(a) = aki { exts.push(ext(OID_CE_AKI, false, der::seq(&[der::ctx(0, false, &ski_of(pki, a))]))); }
    let tbs = der::seq(&[
        der::ctx(0, true, &der::uint(2)),
        der::uint(serial as u128),
        alg_x509(),
        name_of(pki, issuer_name_key),
        der::seq(&[utc(nb), utc(na)]),
        name_of(pki, subject_key),
        spki_of(pki, subject_key),
        der::ctx(3, true, &der::seq(&exts)),
    ]);
    let sig = sign(pki, sig_key, &tbs);
    der::seq(&[tbs, alg_x509(), der::bitstring(0, &sig)])
}

/// encoding shape of the revoked-certificate entries: 0 = DER, 1 = non-minimal long-form length, 2 = indefinite length (BER only)
pub static CRL_ENTRY_SHAPE: std::sync::atomic::AtomicUsize = std::sync::atomic::AtomicUsize::new(0);
fn shaped_seq(parts: &[Vec<u8>]) -> Vec<u8> {
    let content = parts.concat();
    match CRL_ENTRY_SHAPE.load(std::sync::atomic::Ordering::SeqCst) {
        1 => { let mut v = vec![0x30, 0x81, content.len() as u8]; v.extend(content); v }
        2 => { let mut v = vec![0x30, 0x80]; v.extend(content); v.extend([0, 0]); v }
        _ => der::seq(parts),
    }
}

pub fn id_crl(pki: &Pki, sig_key: &str, issuer_name_key: &str, this: Time, next: Time, aki: Option<&str>, revoked: &[u64]) -> Vec<u8> {
    let mut parts = vec![der::uint(1), alg_x509(), name_of(pki, issuer_name_key), utc(this), utc(next)];
    if !revoked.is_empty() {
        let entries: Vec<Vec<u8>> = revoked.iter().map(|s| shaped_seq(&[der::uint(*s as u128), utc(this)])).collect();
        parts.push(der::seq(&entries));
    }
    let mut exts = Vec::new();
    if let Some(a) = aki { exts.push(ext(OID_CE_AKI, false, der::seq(&[der::ctx(0, false, &ski_of(pki, a))]))); }
    exts.push(ext(OID_CE_CRLNUM, false, der::uint(42)));
    parts.push(der::ctx(0, true, &der::seq(&exts)));
    let tbs = der::seq(&parts);
    let sig = sign(pki, sig_key, &tbs);
    der::seq(&[tbs, alg_x509(), der::bitstring(0, &sig)])
}

const EE_SERIAL: u64 = 0x1000;
const OTHER_SERIAL: u64 = 0x0500;
const BIG_SERIAL: u64 = 0x7FFF_0000;

/// an RFC 6492 message (a list request) and an RFC 8181 message (a list query), written by the library
pub fn protocol_contents() -> (Vec<u8>, Vec<u8>) {
    use std::str::FromStr;
    let prov = rpki::ca::provisioning::Message::list(rpki::ca::idexchange::SenderHandle::from_str("child").unwrap(),
                                                     rpki::ca::idexchange::RecipientHandle::from_str("parent").unwrap()).to_xml_bytes();
    let publ = rpki::ca::publication::Message::list_query().to_xml_bytes();
    (prov.to_vec(), publ.to_vec())
}

pub fn assemble(pki: &Pki, c: &Value) -> (Vec<u8>, String) {
    assemble_with(pki, c, &protocol_contents().0)
}

pub fn assemble_with(pki: &Pki, c: &Value, content: &[u8]) -> (Vec<u8>, String) {
    let f = &c["f"];
    let g = |k: &str| f[k].as_str().unwrap();
    let content = content.to_vec();
    let mut digest = sha256(&content);
    match g("digest") { "bad" => digest[31] ^= 1, "short" => digest.truncate(31), "long" => digest.push(0x11), "empty" => digest.clear(), _ => {} }
    let ct = attribute(OID_AT_CONTENT_TYPE, der::oid(OID_CT_PROTOCOL));
    let md = attribute(OID_AT_MESSAGE_DIGEST, der::octets(&digest));
    let st = attribute(OID_AT_SIGNING_TIME, der::utctime("240301120000Z"));
    let mut attrs = vec![ct.clone(), md.clone(), st.clone()];
    match g("attrs") {
        "missing_ct" => attrs.retain(|a| *a != ct),
        "missing_md" => attrs.retain(|a| *a != md),
        "missing_st" => attrs.retain(|a| *a != st),
        "dup_ct" => attrs.push(ct.clone()),
        "dup_md" => attrs.push(md.clone()),
        "dup_st" => attrs.push(st.clone()),
        _ => {}
    }
    let size = c["size"].as_str().unwrap();
    if size == "x2v" {
        // one additional signed attribute whose SET OF holds two values (RFC 5652 allows any number)
        attrs.push(der::seq(&[der::oid(OID_AT_BINARY_SIGNING_TIME), der::set(&[der::octets(&[1]), der::octets(&[2, 2])])]));
    } else if size != "plain" {
        // one additional signed attribute (binary-signing-time OID, OCTET STRING filler) sized to hit the target total
        let target: usize = size[1..].parse().unwrap();
        let base: usize = attrs.iter().map(|a| a.len()).sum();
        let mut added = false;
        for l in 0..400usize {
            let extra = attribute(OID_AT_BINARY_SIGNING_TIME, der::octets(&vec![0x5a; l]));
            if base + extra.len() == target {
                attrs.push(extra);
                added = true;
                break;
            }
        }
        if !added {
            // the exact size is unreachable with this attribute set (missing/duplicate attribute): closest above
            for l in 0..400usize {
                let extra = attribute(OID_AT_BINARY_SIGNING_TIME, der::octets(&vec![0x5a; l]));
                if base + extra.len() > target { attrs.push(extra); break; }
            }
        }
    }
    attrs.sort();
    let to_sign = attrs_to_sign(&attrs);
    let mut signature = sign(pki, if g("sig") == "wrongkey" { "e1" } else { "e0" }, &to_sign);
    if g("sig") == "bitflip" { signature[17] ^= 0x40; }
    if g("sig") == "stale" {
        // what is embedded is not what was signed: the signing time moved on by a second
        let st2 = attribute(OID_AT_SIGNING_TIME, der::utctime("240301120001Z"));
        for a in attrs.iter_mut() { if *a == st { *a = st2.clone(); } }
        attrs.sort();
    }
    let mut sid = ski_of(pki, "e0");
    if g("sid") == "bad" { sid[19] ^= 1; }
    // (TIGHT, only with the instants around the wall clock: windows begin resp. end at instant 1, three seconds before this process
    // started - "just begun" and "just over" stay what they are as the clock moves on, so nothing here can flake)
    let tight = TIGHT.load(std::sync::atomic::Ordering::SeqCst);
    let (t0, t2) = (if tight { time_of(1) } else { time_of(0) }, time_of(2));
    let t_over = if tight { time_of(1) } else { time_of(0) };
    let (nb, na) = match g("eetime") { "expired" => (time_of(-3), t_over), "notyet" => (time_of(2), time_of(4)), "inverted" => (t2, t0), _ => (t0, t2) };
    let peer = "k0";
    let other = "k1";
    let ee = id_ee_cert(pki, "e0", if g("eesig") == "peer" { peer } else { other }, peer, nb, na, g("eeca"),
                        match g("eeaki") { "peer" => Some(peer), "other" => Some(other), _ => None }, EE_SERIAL);
    let (this, next) = match g("crltime") { "stale" => (time_of(-3), t_over), "future" => (time_of(2), time_of(4)), "inverted" => (t2, t0), _ => (t0, t2) };
    let revoked: Vec<u64> = match g("revoked") {
        "other" => vec![OTHER_SERIAL], "ee" => vec![EE_SERIAL], "other_ee" => vec![OTHER_SERIAL, EE_SERIAL],
        "ee_other" => vec![EE_SERIAL, OTHER_SERIAL], "big_ee" => vec![BIG_SERIAL, OTHER_SERIAL, EE_SERIAL], _ => vec![],
    };
    let crl = id_crl(pki, if g("crlsig") == "peer" { peer } else { other }, peer, this, next,
                     match g("crlaki") { "peer" => Some(peer), "other" => Some(other), _ => None }, &revoked);
    let bytes = signed_data(&SignedDataParts { content_type: der::oid(OID_CT_PROTOCOL), content, attrs, certs: vec![ee], crls: vec![crl], sid, signature, algform: c["alg"].as_str().unwrap_or("aa").to_string() });
    (bytes, if g("key") == "peer" { peer.into() } else { other.into() })
}

static TIGHT: std::sync::atomic::AtomicBool = std::sync::atomic::AtomicBool::new(false);

pub fn replay(args: &[String]) {
    let cases = read_cases(&args[0]);
    let mut s = Summary::new();
    let pki = Pki::new(2);
    let when = time_of(1);
    let (prov_xml, publ_xml) = protocol_contents();
    for c in &cases {
        let want = c["accept"].as_bool().unwrap();
        let r = guarded(|| -> (bool, String) {
            let (bytes, key) = assemble(&pki, c);
            let mut verdicts = Vec::new();
            for strict in [false, true] {
                let v = match SignedMessage::decode(Bytes::from(bytes.clone()), strict) {
                    Err(e) => (false, format!("decode(strict={strict}): {e}")),
                    Ok(m) => match m.validate_at(&pki.pubkey(&key), when) {
                        Ok(()) => (true, String::new()),
                        Err(e) => (false, format!("validate: {e}")),
                    },
                };
                verdicts.push(v);
            }
            if verdicts[0].0 != verdicts[1].0 {
                return (!want, format!("strict and relaxed decoding disagree on a DER message: {verdicts:?}"));
            }
            verdicts.remove(0)
        });
        match r {
            Err(m) => s.violation("panic", m, c.clone()),
            Ok((got, why)) => {
                if got != want {
                    let devs: Vec<String> = c["f"].as_object().unwrap().iter().filter(|(k, v)| {
                        let good: &[&str] = match k.as_str() { "eesig" | "crlsig" | "key" => &["peer"], "eeca" => &["no", "ext_false"], "eeaki" | "crlaki" => &["peer", "none"], "revoked" => &["none", "other"], _ => &["ok"] };
                        !good.contains(&v.as_str().unwrap())
                    }).map(|(k, v)| format!("{k}={}", v.as_str().unwrap())).collect();
                    if want {
                        s.violation(&format!("rejects-valid:{}", c["size"].as_str().unwrap()), format!("a conforming message (signed attributes {}) is rejected: {why}", c["size"]), c.clone());
                    } else {
                        s.violation(&format!("accepts-invalid:{}", devs.join("+")), format!("message with {devs:?} validates ({why})"), c.clone());
                    }
                }
            }
        }
        // the protocol-level wrappers (ProvisioningCms / PublicationCms: decode always relaxed, then the enclosed XML) and the entry
        // points that read the clock themselves; for these the instants of the case are placed around the wall clock
        for tight in [false, true] { if wall_usable() {
            EPOCH.store(3, std::sync::atomic::Ordering::SeqCst);
            TIGHT.store(tight, std::sync::atomic::Ordering::SeqCst);
            let r = guarded(|| -> Vec<(&'static str, bool, String)> {
                let mut out = Vec::new();
                let (bytes, key) = assemble_with(&pki, c, &prov_xml);
                let key = pki.pubkey(&key);
                let wnow = time_of(1) + chrono::TimeDelta::try_seconds(1).unwrap();
                for strict in [false, true] {
                    out.push((if strict { "SignedMessage::validate:strict" } else { "SignedMessage::validate" }, match SignedMessage::decode(Bytes::from(bytes.clone()), strict) {
                        Err(e) => (false, format!("decode: {e}")),
                        Ok(m) => match m.validate(&key) { Ok(()) => (true, String::new()), Err(e) => (false, e.to_string()) },
                    }));
                }
                match rpki::ca::provisioning::ProvisioningCms::decode(&bytes) {
                    Err(e) => { out.push(("ProvisioningCms::decode", (false, e.to_string()))); }
                    Ok(m) => {
                        out.push(("ProvisioningCms::validate_at", match m.validate_at(&key, wnow) { Ok(()) => (true, String::new()), Err(e) => (false, e.to_string()) }));
                        out.push(("ProvisioningCms::validate", match m.validate(&key) { Ok(()) => (true, String::new()), Err(e) => (false, e.to_string()) }));
                    }
                }
                let (bytes, _) = assemble_with(&pki, c, &publ_xml);
                match rpki::ca::publication::PublicationCms::decode(&bytes) {
                    Err(e) => { out.push(("PublicationCms::decode", (false, e.to_string()))); }
                    Ok(m) => {
                        out.push(("PublicationCms::validate_at", match m.validate_at(&key, wnow) { Ok(()) => (true, String::new()), Err(e) => (false, e.to_string()) }));
                        out.push(("PublicationCms::validate", match m.validate(&key) { Ok(()) => (true, String::new()), Err(e) => (false, e.to_string()) }));
                    }
                }
                out.into_iter().map(|(n, (ok, why))| (n, ok, why)).collect()
            });
            EPOCH.store(0, std::sync::atomic::Ordering::SeqCst);
            TIGHT.store(false, std::sync::atomic::Ordering::SeqCst);
            match r {
                Err(m) => s.violation("panic", format!("[protocol wrappers] {m}"), c.clone()),
                Ok(routes) => for (route, got, why) in routes {
                    if got != want {
                        s.violation(&format!("{}:{route}", if want { "rejects-valid" } else { "accepts-invalid" }),
                                    format!("{route}: verdict {got} ({why}), specification {want}"), c.clone());
                    }
                },
            }
            s.count("wallclock_runs", 1);
            s.evals(1);
        } }
        s.eval_if(!want, &format!("{c}"));
        if s.samples.len() < 3 && s.evaluations % 211 == 5 { s.sample(c.clone()); }
    }
    // messages created by the library itself: valid for every time within their validity and for no other key
    let r = guarded(|| -> Result<(), (String, String)> {
        // the validity window in 2024, in 1950 (two-digit years) and across the 2049/2050 boundary (UTCTime -> GeneralizedTime)
        // the twenty octets the signer's random source hands out for the EE certificate's serial number: whatever it says, one
        // leading zero octet or five, the octets 0x7f / 0x80 / 0x81 / 0xff right after them (the sign bit of a DER INTEGER)
        let mut pats: Vec<Option<Vec<u8>>> = vec![None];
        for zeros in [0usize, 1, 5, 18] {
            for b in [0x01u8, 0x7f, 0x80, 0x81, 0xff] {
                let mut v = vec![0u8; zeros];
                v.push(b);
                while v.len() < 20 { v.push(0x5a ^ v.len() as u8); }
                pats.push(Some(v));
            }
        }
        let big = vec![0xABu8; 5000];
        let contents: [&[u8]; 4] = [&b"x"[..], &big[..], &b"y"[..], &b"z"[..]];
        for (i, content, pat) in pats.iter().enumerate().map(|(k, p)| (k % 4, contents[k % 4], p)) {
            EPOCH.store([0usize, 0, 1, 2][i], std::sync::atomic::Ordering::SeqCst);
            pki.signer.script_rand(pat.clone());
            let validity = Validity::new(time_of(0), time_of(2));
            let msg = SignedMessage::create(Bytes::copy_from_slice(content), validity, &pki.key("k0"), &pki.signer).map_err(|e| ("created".to_string(), e.to_string()))?;
            let der_bytes = msg.to_captured().into_bytes();
            for strict in [true, false] {
                let back = SignedMessage::decode(der_bytes.clone(), strict).map_err(|e| ("created:decode".to_string(), format!("library-created message {i} does not decode (strict={strict}): {e}")))?;
                if back.content().to_bytes().as_ref() != content {
                    return Err(("created:content".into(), "content changed".into()));
                }
                let sec = |n: i64| chrono::TimeDelta::try_seconds(n).unwrap();
                for (t, ok) in [(time_of(0), true), (time_of(1), true), (time_of(2), true), (time_of(0) - sec(1), false), (time_of(2) + sec(1), false)] {
                    if back.validate_at(&pki.pubkey("k0"), t).is_ok() != ok {
                        return Err(("created:window".into(), format!("library-created message validates = {} at {t:?}, expected {ok}", !ok)));
                    }
                }
                if back.validate_at(&pki.pubkey("k1"), time_of(1)).is_ok() {
                    return Err(("created:otherkey".into(), "library-created message validates under another key".into()));
                }
            }
            // a second message under the same key whose window starts with the first and ends later (whatever the library keeps
            // from one message to the next - a list, a number - must serve the later one as well): valid up to ITS end
            let later = SignedMessage::create(Bytes::copy_from_slice(content), Validity::new(time_of(0), time_of(4)), &pki.key("k0"), &pki.signer).map_err(|e| ("created".to_string(), e.to_string()))?;
            let later = SignedMessage::decode(later.to_captured().into_bytes(), true).map_err(|e| ("created:decode".to_string(), e.to_string()))?;
            for (t, ok) in [(time_of(1), true), (time_of(3), true), (time_of(4), true), (time_of(4) + chrono::TimeDelta::try_seconds(1).unwrap(), false)] {
                if later.validate_at(&pki.pubkey("k0"), t).is_ok() != ok {
                    return Err(("created:window:second".into(), format!("the second library-created message (valid {:?} to {:?}) validates = {} at {t:?}", time_of(0), time_of(4), !ok)));
                }
            }
            // a validity with its ends the wrong way round contains no instant: such a message validates at no time
            let inv = SignedMessage::create(Bytes::copy_from_slice(content), Validity::new(time_of(2), time_of(0)), &pki.key("k0"), &pki.signer).map_err(|e| ("created".to_string(), e.to_string()))?;
            let inv_back = SignedMessage::decode(inv.to_captured().into_bytes(), false).map_err(|e| ("created:decode".to_string(), e.to_string()))?;
            for t in [time_of(0), time_of(1), time_of(2)] {
                if inv.validate_at(&pki.pubkey("k0"), t).is_ok() || inv_back.validate_at(&pki.pubkey("k0"), t).is_ok() {
                    return Err(("created:window".into(), format!("a library-created message whose validity runs backwards validates at {t:?}")));
                }
            }
        }
        Ok(())
    });
    EPOCH.store(0, std::sync::atomic::Ordering::SeqCst);
    pki.signer.script_rand(None);
    // identity keys and one-off keys of 3072 and 4096 bits
    let r2 = guarded(|| -> Result<(), (String, String)> {
        use aws_lc_rs::rsa::KeySize;
        for (peer_size, one_off) in [(KeySize::Rsa3072, KeySize::Rsa2048), (KeySize::Rsa2048, KeySize::Rsa3072), (KeySize::Rsa4096, KeySize::Rsa4096)] {
            let signer = SizedSigner::new(one_off);
            let (peer, rival) = (signer.add_key(peer_size), signer.add_key(peer_size));
            use rpki::crypto::Signer;
            let msg = SignedMessage::create(Bytes::from_static(b"content"), Validity::new(time_of(0), time_of(2)), &peer, &signer).map_err(|e| ("created:keysize".to_string(), e.to_string()))?;
            for strict in [true, false] {
                let back = SignedMessage::decode(msg.to_captured().into_bytes(), strict).map_err(|e| ("created:keysize".to_string(), format!("does not decode: {e}")))?;
                back.validate_at(&signer.get_key_info(&peer).unwrap(), time_of(1)).map_err(|e| ("created:keysize".to_string(), format!("a message under a {peer_size:?} identity key with a {one_off:?} one-off key does not validate: {e}")))?;
                if back.validate_at(&signer.get_key_info(&rival).unwrap(), time_of(1)).is_ok() {
                    return Err(("created:keysize".into(), "validates under another key".into()));
                }
            }
        }
        Ok(())
    });
    match r2 {
        Ok(Ok(())) => {}
        Ok(Err((k, m))) => s.violation(&k, m, json!({"library_created": true})),
        Err(m) => s.violation("created:panic", m, json!({"library_created": true})),
    }
    match r {
        Ok(Ok(())) => {}
        Ok(Err((k, m))) => s.violation(&k, m, json!({"library_created": true})),
        Err(m) => s.violation("created:panic", m, json!({"library_created": true})),
    }
    s.evals(2);
    s.print();
}

/// impl -> spec: random facet combinations (any number of deviations) and random attribute sizes.
pub fn drive(args: &[String]) {
    let seed = arg_u64(args, "--seed", 1);
    let n = arg_u64(args, "--n", 400);
    let out = arg_val(args, "--out").expect("--out");
    let mut rng = Rng::new(seed);
    let mut t = TraceOut::create(&out);
    let mut s = Summary::new();
    let pki = Pki::new(2);
    let when = time_of(1);
    let vals: [(&str, &[&str]); 13] = [
        ("attrs", &["ok", "ok", "ok", "ok", "missing_ct", "missing_md", "missing_st", "dup_ct", "dup_md", "dup_st"]),
        ("digest", &["ok", "ok", "ok", "bad"]), ("sig", &["ok", "ok", "ok", "wrongkey", "bitflip"]), ("sid", &["ok", "ok", "ok", "bad"]),
        ("eesig", &["peer", "peer", "peer", "other"]), ("eetime", &["ok", "ok", "ok", "expired", "notyet"]), ("eeca", &["no", "ext_false", "no", "yes"]),
        ("eeaki", &["peer", "none", "peer", "other"]), ("crlsig", &["peer", "peer", "peer", "other"]), ("crltime", &["ok", "ok", "ok", "stale", "future"]),
        ("crlaki", &["peer", "none", "peer", "other"]), ("revoked", &["none", "other", "none", "other", "ee", "other_ee", "ee_other", "big_ee"]),
        ("key", &["peer", "peer", "peer", "other"]),
    ];
    for i in 0..n {
        let mut f = serde_json::Map::new();
        let all_good = rng.chance(1, 3);
        for (k, vs) in vals.iter() {
            f.insert(k.to_string(), json!(if all_good { vs[rng.below(2) as usize] } else { *rng.pick(vs) }));
        }
        let size = if rng.chance(1, 5) { "plain".to_string() } else { format!("s{}", rng.range(110, 420)) };
        let c = json!({"size": size, "f": Value::Object(f)});
        let r = guarded(|| {
            let (bytes, key) = assemble(&pki, &c);
            match SignedMessage::decode(Bytes::from(bytes), rng.chance(1, 2)) {
                Err(_) => false,
                Ok(m) => m.validate_at(&pki.pubkey(&key), when).is_ok(),
            }
        });
        match r {
            Ok(ok) => { t.ev(json!({"ev": "msg", "size": c["size"], "f": c["f"], "ok": ok})); s.eval(Some(&format!("{i}"))); }
            Err(m) => s.violation("trace:panic", m, c.clone()),
        }
    }
    s.sample(json!({"seed": seed, "messages": n}));
    s.set("events", json!(t.finish()));
    s.print();
}
