//! C04 — binds spec/Decoders.tla to every decoding entry point: structure-preserving mutations of valid
//! objects, every accessor of whatever decodes, under panic capture, an allocation meter and a watchdog.
use crate::common::*;
use crate::pki::*;
use crate::tlv::{self, LenForm, Tlv};
use bcder::Mode;
use bytes::Bytes;
use rpki::ca::csr::{BgpsecCsr, RpkiCaCsr};
use rpki::ca::idcert::IdCert;
use rpki::ca::provisioning::ProvisioningCms;
use rpki::ca::publication::PublicationCms;
use rpki::ca::sigmsg::SignedMessage;
use rpki::crypto::{DigestAlgorithm, PublicKey, RpkiSignatureAlgorithm};
use rpki::repository::aspa::{Aspa, AspaBuilder};
use rpki::repository::cert::{Cert, KeyUsage, Overclaim, ResourceCert, TbsCert};
use rpki::repository::crl::{Crl, CrlEntry, TbsCertList};
use rpki::repository::manifest::{FileAndHash, Manifest, ManifestContent};
use rpki::repository::resources::{AsBlock, AsBlocks, AsResources, Asn, IpBlock, IpBlocks, IpResources};
use rpki::repository::roa::{Roa, RoaBuilder};
use rpki::repository::rta::{AttestationBuilder, Rta};
use rpki::repository::sigobj::{SignedObject, SignedObjectBuilder};
use rpki::repository::tal::{Tal, TalInfo, TalUri};
use rpki::repository::x509::{Serial, Time, Validity};
use rpki::uri;
use serde_json::{json, Value};
use std::alloc::{GlobalAlloc, Layout, System};
use std::net::{IpAddr, Ipv4Addr, Ipv6Addr};
use std::str::FromStr;
use std::sync::atomic::{AtomicBool, AtomicUsize, Ordering};
use std::time::{Duration, Instant};

// ---- allocation meter: bytes requested while METER is on (the harness is single-threaded while it measures)
pub struct Meter;
static METER_ON: AtomicBool = AtomicBool::new(false);
static LIVE: AtomicUsize = AtomicUsize::new(0);
static PEAK: AtomicUsize = AtomicUsize::new(0);
static TOTAL: AtomicUsize = AtomicUsize::new(0);
unsafe impl GlobalAlloc for Meter {
    unsafe fn alloc(&self, l: Layout) -> *mut u8 {
        if METER_ON.load(Ordering::Relaxed) {
            let live = LIVE.fetch_add(l.size(), Ordering::Relaxed) + l.size();
            PEAK.fetch_max(live, Ordering::Relaxed);
            TOTAL.fetch_add(l.size(), Ordering::Relaxed);
        }
        unsafe { System.alloc(l) }
    }
    unsafe fn dealloc(&self, p: *mut u8, l: Layout) {
        if METER_ON.load(Ordering::Relaxed) {
            let _ = LIVE.fetch_update(Ordering::Relaxed, Ordering::Relaxed, |x| Some(x.saturating_sub(l.size())));
        }
        unsafe { System.dealloc(p, l) }
    }
    unsafe fn realloc(&self, p: *mut u8, l: Layout, new: usize) -> *mut u8 {
        if METER_ON.load(Ordering::Relaxed) {
            if new > l.size() {
                let live = LIVE.fetch_add(new - l.size(), Ordering::Relaxed) + (new - l.size());
                PEAK.fetch_max(live, Ordering::Relaxed);
                TOTAL.fetch_add(new - l.size(), Ordering::Relaxed);
            } else {
                let _ = LIVE.fetch_update(Ordering::Relaxed, Ordering::Relaxed, |x| Some(x.saturating_sub(l.size() - new)));
            }
        }
        unsafe { System.realloc(p, l, new) }
    }
}
fn metered<T>(f: impl FnOnce() -> T) -> (T, usize, usize) {
    LIVE.store(0, Ordering::Relaxed);
    PEAK.store(0, Ordering::Relaxed);
    TOTAL.store(0, Ordering::Relaxed);
    METER_ON.store(true, Ordering::Relaxed);
    let r = f();
    METER_ON.store(false, Ordering::Relaxed);
    (r, PEAK.load(Ordering::Relaxed), TOTAL.load(Ordering::Relaxed))
}
/// peak live bytes allowed for an input of n bytes (decode + all accessors): a fixed multiple plus a constant
pub fn peak_budget(n: usize) -> usize {
    64 * n + (1 << 20)
}
/// total bytes requested
pub fn total_budget(n: usize) -> usize {
    4096 * n + (16 << 20)
}

// ---- re-encoding accessors run in their own panic scope, so that one failing re-encoder does not hide the other accessors
thread_local! { static REENC: std::cell::RefCell<Vec<String>> = const { std::cell::RefCell::new(Vec::new()) }; }
fn reenc<T>(what: &str, f: impl FnOnce() -> T) {
    if let Err(m) = guarded(f) {
        REENC.with(|r| r.borrow_mut().push(format!("{what}: {m}")));
    }
}

// ---- corpus
pub struct Item {
    pub entry: &'static str,
    pub name: String,
    pub bytes: Vec<u8>,
}

pub struct Ctx {
    pub pki: Pki,
    pub ta: ResourceCert,
    pub now: Time,
    /// a trust anchor locator for the TA's key (built from the corpus' TAL)
    pub tal: Option<Tal>,
    pub items: Vec<Item>,
    /// valid objects the library's own builders could not produce (they panicked)
    pub build_failures: Vec<(String, String)>,
}

fn sob(serial: u64) -> SignedObjectBuilder {
    SignedObjectBuilder::new(Serial::from(serial), Validity::new(Time::utc(2024, 1, 1, 0, 0, 0), Time::utc(2034, 1, 1, 0, 0, 0)),
                             rsync("rsync://repo.example/m/ta.crl"), rsync("rsync://repo.example/m/ta.cer"), rsync("rsync://repo.example/m/obj"))
}

/// One certificate per combination of nothing / inherit / blocks in the three resource families (CA and EE): decoded, swept like
/// every other decoded certificate, and converted to a ResourceSet - an error exactly when something is inherited, never a panic.
fn run_certshape(ctx: &Ctx, c: &Value) -> Result<(), (String, String)> {
    use rpki::repository::resources::ResourceSet;
    let sh = &c["shape"];
    for kind in ["ca", "ee"] {
        let cert = guarded(|| {
            let v = Validity::new(Time::utc(2024, 1, 1, 0, 0, 0), Time::utc(2034, 1, 1, 0, 0, 0));
            let (key, ku) = if kind == "ca" { ("k1", KeyUsage::Ca) } else { ("e0", KeyUsage::Ee) };
            let mut tbs = TbsCert::new(Serial::from(77u64), ctx.pki.pubkey("k0").to_subject_name(), v, None, ctx.pki.pubkey(key), ku, Overclaim::Refuse);
            if kind == "ca" {
                tbs.set_basic_ca(Some(true));
                tbs.set_ca_repository(Some(rsync("rsync://repo.example/m/ca/")));
                tbs.set_rpki_manifest(Some(rsync("rsync://repo.example/m/ca/ca.mft")));
            } else {
                tbs.set_signed_object(Some(rsync("rsync://repo.example/m/ca/x.roa")));
            }
            tbs.set_authority_key_identifier(Some(ctx.pki.pubkey("k0").key_identifier()));
            tbs.set_crl_uri(Some(rsync("rsync://repo.example/m/ta.crl")));
            tbs.set_ca_issuer(Some(rsync("rsync://repo.example/m/ta.cer")));
            match sh["v4"].as_str().unwrap() { "inherit" => tbs.set_v4_resources(IpResources::inherit()), "blocks" => tbs.set_v4_resources(IpResources::blocks([IpBlock::from_v4_str("10.0.0.0/8").unwrap()].into_iter().collect::<IpBlocks>())), _ => {} }
            match sh["v6"].as_str().unwrap() { "inherit" => tbs.set_v6_resources(IpResources::inherit()), "blocks" => tbs.set_v6_resources(IpResources::blocks([IpBlock::from_v6_str("2001:db8::/32").unwrap()].into_iter().collect::<IpBlocks>())), _ => {} }
            match sh["asn"].as_str().unwrap() { "inherit" => tbs.set_as_resources(AsResources::inherit()), "blocks" => tbs.set_as_resources(AsResources::blocks([AsBlock::from((Asn::from_u32(64496), Asn::from_u32(64511)))].into_iter().collect::<AsBlocks>())), _ => {} }
            tbs.into_cert(&ctx.pki.signer, &ctx.pki.key("k0")).map(|c| c.to_captured().into_bytes())
        });
        let bytes = match cert { Ok(Ok(b)) => b, _ => continue };   // (a shape the builder does not offer is not a decoded value)
        let Ok(cert) = Cert::decode(bytes) else { continue };
        match guarded(|| { let n = sweep_cert(&cert, ctx); (n, ResourceSet::try_from(&cert).is_ok()) }) {
            Err(m) => return Err((format!("certshape:panic:{kind}"), format!("an accessor or conversion of a decoded {kind} certificate with resources {sh} panics: {m}"))),
            Ok((_, ok)) => if ok != (c["converts"] == "ok") {
                return Err(("beyond:certshape:converts".into(), format!("ResourceSet::try_from of a {kind} certificate with resources {sh} is ok = {ok}, specification {}", c["converts"])));
            }
        }
    }
    Ok(())
}

fn mk_cert(pki: &Pki, kind: &str, shape: usize) -> Cert {
    let v = Validity::new(Time::utc(2024, 1, 1, 0, 0, 0), Time::utc(2034, 1, 1, 0, 0, 0));
    let (key, ku) = match kind { "ta" => ("k0", KeyUsage::Ca), "ca" => ("k1", KeyUsage::Ca), _ => ("e0", KeyUsage::Ee) };
    let pk = pki.pubkey(key);
    // shape 4: the serial number 0
    let mut tbs = TbsCert::new(Serial::from(if shape == 4 { 0 } else { 100 + shape as u64 }), pki.pubkey("k0").to_subject_name(), v, None, pk, ku,
                               if shape % 2 == 1 { Overclaim::Trim } else { Overclaim::Refuse });
    if kind != "ee" {
        tbs.set_basic_ca(Some(true));
        tbs.set_ca_repository(Some(rsync("rsync://repo.example/m/ca/")));
        tbs.set_rpki_manifest(Some(rsync("rsync://repo.example/m/ca/ca.mft")));
        tbs.set_rpki_notify(Some(uri::Https::from_str("https://rrdp.example/notification.xml").unwrap()));
    } else {
        tbs.set_signed_object(Some(rsync("rsync://repo.example/m/ca/x.roa")));
    }
    if kind != "ta" {
        tbs.set_authority_key_identifier(Some(pki.pubkey("k0").key_identifier()));
        tbs.set_crl_uri(Some(rsync("rsync://repo.example/m/ta.crl")));
        tbs.set_ca_issuer(Some(rsync("rsync://repo.example/m/ta.cer")));
    }
    let b4 = |s: &str| IpBlock::from_v4_str(s).unwrap();
    let b6 = |s: &str| IpBlock::from_v6_str(s).unwrap();
    match (kind, shape) {
        ("ta", _) => {
            tbs.set_v4_resources(IpResources::blocks(IpBlocks::all()));
            tbs.set_v6_resources(IpResources::blocks(IpBlocks::all()));
            tbs.set_as_resources(AsResources::blocks(AsBlocks::all()));
        }
        (_, 0) => {
            // ranges that are not prefixes and reach the last address / AS number
            tbs.set_v4_resources(IpResources::blocks([b4("10.0.0.0/8"), b4("64.0.0.0-255.255.255.255"), b4("11.0.0.1-11.0.0.2")].into_iter().collect::<IpBlocks>()));
            tbs.set_v6_resources(IpResources::blocks([b6("2001:db8::/32"), b6("4000::-ffff:ffff:ffff:ffff:ffff:ffff:ffff:ffff")].into_iter().collect::<IpBlocks>()));
            tbs.set_as_resources(AsResources::blocks([AsBlock::Id(Asn::from_u32(0)), AsBlock::from((Asn::from_u32(5), Asn::from_u32(u32::MAX)))].into_iter().collect::<AsBlocks>()));
        }
        (_, 1) => {
            tbs.set_v4_resources(IpResources::inherit());
            tbs.set_v6_resources(IpResources::inherit());
            tbs.set_as_resources(AsResources::inherit());
        }
        _ => {
            tbs.set_v4_resources(IpResources::blocks([b4("0.0.0.0-0.0.0.1"), b4("0.0.0.3-127.255.255.255")].into_iter().collect::<IpBlocks>()));
            tbs.set_as_resources(AsResources::blocks([AsBlock::from((Asn::from_u32(0), Asn::from_u32(u32::MAX)))].into_iter().collect::<AsBlocks>()));
        }
    }
    tbs.into_cert(&pki.signer, &pki.key("k0")).unwrap()
}

impl Ctx {
    pub fn new() -> Self {
        let pki = Pki::new(3);
        let now = Time::utc(2025, 1, 1, 0, 0, 0);
        let ta_cert = mk_cert(&pki, "ta", 0);
        let ta = ta_cert.clone().validate_ta_at(TalInfo::from_name("t".into()).into_arc(), true, now).unwrap();
        let k0 = pki.key("k0");
        let v = Validity::new(Time::utc(2024, 1, 1, 0, 0, 0), Time::utc(2034, 1, 1, 0, 0, 0));
        let mut items: Vec<Item> = vec![];
        let mut build_failures: Vec<(String, String)> = vec![];
        let mut add = |entry: &'static str, name: &str, bytes: Vec<u8>| items.push(Item { entry, name: name.to_string(), bytes });
        add("cert", "built-ta", ta_cert.to_captured().into_bytes().to_vec());
        for (k, s) in [("ca", 0), ("ca", 1), ("ee", 2), ("ee", 0), ("ee", 4)] {
            match guarded(|| mk_cert(&pki, k, s).to_captured().into_bytes().to_vec()) {
                Ok(b) => add("cert", &format!("built-{k}-{s}"), b),
                Err(m) => build_failures.push((format!("cert built-{k}-{s}"), m)),
            }
        }
        let entries: Vec<CrlEntry> = [3u64, 0x80, 0x7fff_ffff_ffff].iter().map(|s| CrlEntry::new(Serial::from(*s), v.not_before())).collect();
        let crl = TbsCertList::new(RpkiSignatureAlgorithm::default(), pki.pubkey("k0").to_subject_name(), v.not_before(), v.not_after(), entries,
                                   pki.pubkey("k0").key_identifier(), Serial::from(9u64)).into_crl(&pki.signer, &k0).unwrap();
        add("crl", "built", crl.to_captured().into_bytes().to_vec());
        // CRL number 0, a revoked serial number 0
        match guarded(|| TbsCertList::new(RpkiSignatureAlgorithm::default(), pki.pubkey("k0").to_subject_name(), v.not_before(), v.not_after(),
                                    vec![CrlEntry::new(Serial::from(0u64), v.not_before())], pki.pubkey("k0").key_identifier(), Serial::from(0u64)).into_crl(&pki.signer, &k0).unwrap().to_captured().into_bytes().to_vec()) {
            Ok(b) => add("crl", "built-zero", b),
            Err(m) => build_failures.push(("crl built-zero".to_string(), m)),
        }
        let files: Vec<FileAndHash<Bytes, Bytes>> = ["a.cer", "B-2_x.roa", "zz9.crl"].iter()
            .map(|n| FileAndHash::new(Bytes::from_static(n.as_bytes()), Bytes::from(crate::cms::sha256(n.as_bytes())))).collect();
        let mft = ManifestContent::new(Serial::from(5u64), v.not_before(), v.not_after(), DigestAlgorithm::default(), files.iter())
            .into_manifest(sob(21), &pki.signer, &k0).unwrap();
        add("manifest", "built", mft.to_captured().into_bytes().to_vec());
        // names that use the whole RFC 9286 alphabet at their first and last positions (hyphen, underscore, digit, upper case)
        {
            let names = ["-a.cer", "_b.roa", "9.crl", "a-.mft", "Z_.asa", "Kn3R14fXk-TIr1bhl9Tu2Sr2uhM.gbr", "--.tak", "__.sig"];
            let files: Vec<FileAndHash<Bytes, Bytes>> = names.iter().map(|n| FileAndHash::new(Bytes::from_static(n.as_bytes()), Bytes::from(crate::cms::sha256(n.as_bytes())))).collect();
            match guarded(|| ManifestContent::new(Serial::from(6u64), v.not_before(), v.not_after(), DigestAlgorithm::default(), files.iter())
                .into_manifest(sob(25), &pki.signer, &k0).unwrap().to_captured().into_bytes().to_vec()) {
                Ok(b) => add("manifest", "built-names", b),
                Err(m) => build_failures.push(("manifest built-names".to_string(), m)),
            }
        }
        // manifest number 0
        match guarded(|| ManifestContent::new(Serial::from(0u64), v.not_before(), v.not_after(), DigestAlgorithm::default(), files.iter().take(1))
            .into_manifest(sob(24), &pki.signer, &k0).unwrap().to_captured().into_bytes().to_vec()) {
            Ok(b) => add("manifest", "built-zero", b),
            Err(m) => build_failures.push(("manifest built-zero".to_string(), m)),
        }
        let mut rb = RoaBuilder::new(Asn::from_u32(64496));
        rb.push_addr(IpAddr::V4(Ipv4Addr::new(10, 0, 0, 0)), 8, None);
        rb.push_addr(IpAddr::V4(Ipv4Addr::new(192, 0, 2, 0)), 24, Some(32));
        rb.push_addr(IpAddr::V6(Ipv6Addr::from(0x2001_0db8u128 << 96)), 32, Some(128));
        let roa = rb.finalize(sob(22), &pki.signer, &k0).unwrap();
        add("roa", "built", roa.to_captured().into_bytes().to_vec());
        let aspa = AspaBuilder::new(Asn::from_u32(64496), vec![Asn::from_u32(3), Asn::from_u32(65001), Asn::from_u32(4_200_000_000)]).unwrap()
            .finalize(sob(23), &pki.signer, &k0).unwrap();
        add("aspa", "built", aspa.to_captured().into_bytes().to_vec());
        // RTA
        {
            let digest = DigestAlgorithm::default().digest(b"some document");
            let mut ab = AttestationBuilder::new(DigestAlgorithm::default(), digest.into());
            ab.push_key(pki.pubkey("e0").key_identifier());
            ab.push_as(AsBlock::Id(Asn::from_u32(64496)));
            ab.push_v4(IpBlock::from_v4_str("10.0.0.0/8").unwrap());
            ab.push_v6(IpBlock::from_v6_str("2001:db8::/32").unwrap());
            let mut b = ab.into_rta_builder();
            b.push_cert(mk_cert(&pki, "ee", 0));
            b.push_crl(crl.clone());
            b.sign(&pki.signer, &pki.key("e0"), now).unwrap();
            add("rta", "built", b.finalize().to_captured().into_bytes().to_vec());
        }
        add("pubkey", "built-rsa", {
            use bcder::encode::Values;
            pki.pubkey("k1").encode_ref().to_captured(Mode::Der).into_bytes().to_vec()
        });
        let csr = rpki::ca::csr::Csr::<(), ()>::construct_rpki_ca(&pki.signer, &pki.key("k1"), &rsync("rsync://repo.example/m/ca/"),
                                                                  &rsync("rsync://repo.example/m/ca/ca.mft"),
                                                                  Some(&uri::Https::from_str("https://rrdp.example/n.xml").unwrap())).unwrap();
        add("csr", "built", csr.into_bytes().to_vec());
        let idta = IdCert::new_ta(v, &k0, &pki.signer).unwrap();
        add("idcert", "built-ta", idta.to_captured().into_bytes().to_vec());
        add("idcert", "built-ee", IdCert::new_ee(&pki.pubkey("e0"), v, &k0, &pki.signer).unwrap().to_captured().into_bytes().to_vec());
        let prov_xml = rpki::ca::provisioning::Message::list(rpki::ca::idexchange::Handle::from_str("child").unwrap(), rpki::ca::idexchange::Handle::from_str("parent").unwrap()).to_xml_bytes();
        add("sigmsg", "built-prov", SignedMessage::create(prov_xml, v, &k0, &pki.signer).unwrap().to_captured().into_bytes().to_vec());
        let pub_xml = rpki::ca::publication::Message::list_query().to_xml_bytes();
        add("sigmsg", "built-pub", SignedMessage::create(pub_xml, v, &k0, &pki.signer).unwrap().to_captured().into_bytes().to_vec());
        // a hand-assembled message whose CRL lists revoked certificates
        {
            let c = json!({"f": {"digest": "ok", "attrs": "ok", "sig": "ok", "sid": "ok", "eetime": "ok", "eesig": "peer", "eeca": "no", "eeaki": "peer",
                                 "crltime": "ok", "revoked": "big_ee", "crlsig": "peer", "crlaki": "peer", "key": "peer"}, "size": "plain"});
            add("sigmsg", "assembled-revoked", crate::cmsmsg::assemble(&pki, &c).0);
        }
        // hand-assembled generic signed objects whose signed attributes are as large as the library captures, and just beyond
        {
            let mut sc = crate::sigobj::Ctx::new();
            for size in ["s65535", "s65536", "s65537"] {
                let c = json!({"kind": "gen", "size": size, "fam": "v4", "f": {"attrs": "ok", "digest": "ok", "sig": "ok", "sid": "ok", "ee": "ok", "ctattr": "ok", "cover": "ok", "crl": "ok"}});
                add("manifest", &format!("assembled-gen-{size}"), crate::sigobj::assemble(&mut sc, &c).0);
            }
        }
        // TAL (text): two URIs and the key of the TA
        {
            use bcder::encode::Values;
            let key = pki.pubkey("k0").encode_ref().to_captured(Mode::Der).into_bytes();
            let b64 = base64::Engine::encode(&base64::engine::general_purpose::STANDARD, &key);
            let lines: Vec<String> = b64.as_bytes().chunks(64).map(|c| String::from_utf8_lossy(c).into_owned()).collect();
            add("tal", "built", format!("# comment\nrsync://repo.example/m/ta.cer\nhttps://repo.example/ta.cer\n\n{}\n", lines.join("\n")).into_bytes());
        }
        // the repository's captured files
        let files: &[(&'static str, &str)] = &[
            ("cert", "repository/ta.cer"), ("cert", "repository/ca1.cer"), ("cert", "repository/router.cer"), ("cert", "compat/res_incorrect.cer"),
            ("crl", "repository/ta.crl"), ("crl", "repository/ca1.crl"), ("manifest", "repository/ta.mft"), ("manifest", "repository/ca1.mft"),
            ("manifest", "repository/ta.mft.bad-filename"), ("roa", "repository/example-ripe.roa"), ("roa", "repository/maxlen-overflow.roa"),
            ("roa", "repository/prefix-len-overflow.roa"), ("aspa", "repository/aspa-bm.asa"), ("tal", "repository/ripe.tal"),
            ("pubkey", "crypto/rsa-key.public.der"), ("csr", "ca/drl-csr.der"), ("csr", "ca/router-csr.der"), ("idcert", "ca/id_ta.cer"),
            ("idcert", "ca/id_afrinic.cer"), ("idcert", "ca/sigmsg/cms_ta.cer"), ("sigmsg", "ca/sigmsg/pdu_200.der"), ("sigmsg", "ca/rfc6492/list.der"),
            ("sigmsg", "ca/rfc6492/list-response.ber"), ("sigmsg", "ca/rfc6492/issue.der"), ("sigmsg", "ca/rfc6492/apnic-response.der"),
        ];
        for (e, f) in files {
            if let Ok(b) = std::fs::read(format!("/repo/test-data/{f}")) {
                add(e, f, b);
            }
        }
        let tal = items.iter().find(|i| i.entry == "tal" && i.name == "built").and_then(|i| Tal::read_named("t".into(), &mut &i.bytes[..]).ok());
        Ctx { pki, ta, now, tal, items, build_failures }
    }
}

pub const ENTRIES: &[&str] = &["cert", "crl", "manifest", "roa", "aspa", "rta", "tal", "pubkey", "csr", "idcert", "sigmsg"];

// ---- decode + accessor sweep.  Returns Ok(number of accessor calls) when the input decoded, Err(()) when it was refused.
fn sweep_blocks_ip(b: &IpBlocks, v6: bool) -> usize {
    let mut n = 0;
    for blk in b.iter() {
        let _ = (blk.min(), blk.max(), blk.is_slash_zero());
        match blk {
            IpBlock::Prefix(p) => { let _ = (p.min(), p.max(), p.addr_len(), p.range()); }
            IpBlock::Range(r) => {
                let _ = (r.min(), r.max());
                if v6 { n += r.to_v6_prefixes().take(300).count() + probe_iter(|| r.to_v6_prefixes()) } else { n += r.to_v4_prefixes().take(300).count() + probe_iter(|| r.to_v4_prefixes()) }
            }
        }
        let _ = if v6 { format!("{}", blk.display_v6()) } else { format!("{}", blk.display_v4()) };
        n += 1;
    }
    n += probe_iter(|| b.iter());
    // the decoded blocks against parts of themselves (every leading run of blocks, every single block): containment and the set
    // operations are entry points whose second argument is as much decoded input as the first
    let all: Vec<IpBlock> = b.iter().collect();
    for k in 0..all.len().min(6) {
        let head: IpBlocks = all[..=k].iter().cloned().collect();
        let one: IpBlocks = [all[k].clone()].into_iter().collect();
        for part in [&head, &one] {
            let _ = (part.contains(b), b.contains(part), part.intersection(b).is_empty(), b.difference(part).is_empty(), part.union(b).is_empty(),
                     b.verify_covered(&IpResources::blocks(part.clone())).is_ok(), part.verify_covered(&IpResources::blocks(b.clone())).is_ok());
            n += 7;
        }
    }
    let _ = (b.is_empty(), b.contains(b), b.intersection(b).is_empty());
    n
}
/// The rest of the iterator protocol on a decoded value's iterator: whatever `next` does, `size_hint`, `nth`, `skip`, `step_by`
/// and `last` are entry points too (an override of any of them is code of the library), with small steps and with steps far
/// beyond the end.
fn probe_iter<I: Iterator>(mk: impl Fn() -> I) -> usize {
    let _ = mk().size_hint();
    // steps far beyond the end only where the end is near (stepping through four thousand million AS numbers one by one is what a
    // default `nth` would do on a block that holds them all)
    let short = mk().take(100_001).count() <= 100_000;
    let steps: &[usize] = if short { &[0, 1, 7, 255, 256, 70_000, u32::MAX as usize, usize::MAX] } else { &[0, 1, 7, 255, 256, 70_000] };
    for &k in steps {
        let _ = mk().nth(k);
        let mut it = mk();
        let _ = it.next();
        let _ = it.nth(k);
        let _ = it.next();
    }
    let _ = mk().skip(3).next();
    let _ = mk().step_by(100).take(5).count();
    if short { let _ = mk().step_by(usize::MAX).take(3).count(); }
    let _ = mk().take(50).last();
    12
}
fn sweep_blocks_as(b: &AsBlocks) -> usize {
    let mut n = 0;
    for blk in b.iter() {
        let _ = (blk.min(), blk.max(), blk.asn_count(), format!("{blk}"));
        n += 1 + probe_iter(|| blk.iter());
    }
    n += probe_iter(|| b.iter()) + probe_iter(|| b.iter_asns());
    let all: Vec<AsBlock> = b.iter().collect();
    for k in 0..all.len().min(6) {
        let head: AsBlocks = all[..=k].iter().cloned().collect();
        let one: AsBlocks = [all[k].clone()].into_iter().collect();
        for part in [&head, &one] {
            let _ = (part.contains(b), b.contains(part), part.intersection(b).is_empty(), b.difference(part).is_empty(), part.union(b).is_empty(),
                     b.verify_covered(&AsResources::blocks(part.clone())).is_ok(), part.verify_covered(&AsResources::blocks(b.clone())).is_ok());
            n += 7;
        }
    }
    let _ = (b.is_empty(), b.contains(b), b.asn_count(), format!("{b}"));
    n + b.iter_asns().take(100).count()
}
fn sweep_ipres(r: &IpResources, v6: bool) -> usize {
    let _ = (r.is_inherited(), r.is_present());
    match r.to_blocks() { Ok(b) => sweep_blocks_ip(&b, v6), Err(_) => 0 }
}
fn sweep_asres(r: &AsResources) -> usize {
    let _ = (r.is_inherited(), r.is_present());
    match r.to_blocks() { Ok(b) => sweep_blocks_as(&b), Err(_) => 0 }
}

fn sweep_cert(c: &Cert, ctx: &Ctx) -> usize {
    use bcder::encode::Values;
    let _ = (c.serial_number(), format!("{}", c.serial_number()), c.validity(), c.subject_key_identifier(), c.authority_key_identifier(),
             c.basic_ca(), c.key_usage(), c.extended_key_usage().is_some(), c.crl_uri().map(|u| u.to_string()), c.ca_issuer().map(|u| u.to_string()),
             c.ca_repository().map(|u| u.to_string()), c.rpki_manifest().map(|u| u.to_string()), c.signed_object().map(|u| u.to_string()),
             c.rpki_notify().map(|u| u.to_string()), c.overclaim(), c.is_ca(), c.is_self_signed(), c.has_ip_resources());
    reenc("Name::encode_ref", || (c.issuer().encode_ref().to_captured(Mode::Der), c.subject().encode_ref().to_captured(Mode::Der)));
    let _ = format!("{:?}", c.subject());
    let k = c.subject_public_key_info();
    let _ = (k.key_identifier(), k.algorithm(), k.bits().len(), k.allow_rpki_cert(), k.allow_router_cert(), k.to_subject_name(), k.to_info_bytes());
    let mut n = 30 + sweep_ipres(c.v4_resources(), false) + sweep_ipres(c.v6_resources(), true) + sweep_asres(c.as_resources());
    reenc("Cert::to_captured", || c.to_captured());
    reenc("Cert::encode_ref", || c.encode_ref().to_captured(Mode::Der));
    // the decoded payload encoded field by field (serial number, names, times, extensions), not from the captured bytes
    reenc("TbsCert::encode_ref", || { let t: &rpki::repository::cert::TbsCert = c; t.encode_ref().to_captured(Mode::Der) });
    reenc("Cert::serialize", || serde_json::to_string(c).is_ok());
    // the validators are entry points for decoded values too
    let _ = c.inspect_ca(true).is_ok() | c.inspect_ca(false).is_ok() | c.inspect_ee(true).is_ok() | c.inspect_ee(false).is_ok()
        | c.inspect_ta(true).is_ok() | c.inspect_detached_ee(true).is_ok() | c.inspect_router(true).is_ok();
    let _ = c.verify_validity(ctx.now);
    let _ = c.verify_ta_ref(true);
    for strict in [true, false] {
        let _ = c.clone().validate_ta_at(TalInfo::from_name("x".into()).into_arc(), strict, ctx.now).map(|r| sweep_rc(&r));
        let _ = c.clone().validate_ca_at(&ctx.ta, strict, ctx.now).map(|r| sweep_rc(&r));
        let _ = c.clone().validate_ee_at(&ctx.ta, strict, ctx.now).map(|r| sweep_rc(&r));
        let _ = c.clone().validate_router_at(&ctx.ta, strict, ctx.now);
        let _ = c.clone().validate_detached_ee_at(&ctx.ta, strict, ctx.now).map(|r| sweep_rc(&r));
    }
    n
}
fn sweep_rc(r: &ResourceCert) -> usize {
    sweep_blocks_ip(r.v4_resources(), false) + sweep_blocks_ip(r.v6_resources(), true) + sweep_blocks_as(r.as_resources())
}

fn sweep_crl(c: &Crl, ctx: &Ctx) -> usize {
    let _ = (c.this_update(), c.next_update(), c.crl_number(), format!("{} {:?}", c.crl_number(), c.crl_number()), c.authority_key_identifier(), c.is_stale(), c.signature());
    let mut n = 8;
    let mut serials = vec![Serial::from(3u64), Serial::from(0x80u64), Serial::from(1u64)];
    n += probe_iter(|| c.revoked_certs().iter());
    for e in c.revoked_certs().iter() {
        let _ = (e.user_certificate, e.revocation_date, format!("{}", e.user_certificate), String::from(e.user_certificate));
        if serials.len() < 40 { serials.push(e.user_certificate); }
        n += 1;
    }
    for s in &serials { let _ = c.contains(*s); let _ = c.revoked_certs().contains(*s); n += 2; }
    let mut c2 = c.clone();
    c2.cache_serials();
    for s in &serials { let _ = c2.contains(*s); }
    let _ = c.verify_signature(&ctx.pki.pubkey("k0"));
    reenc("Crl::to_captured", || c.to_captured());
    reenc("TbsCertList::encode_ref", || { use bcder::encode::Values; c.as_cert_list().encode_ref().to_captured(Mode::Der) });
    reenc("Crl::serialize", || serde_json::to_string(c).is_ok());
    n
}

fn sweep_sigobj_cert(c: &Cert, ctx: &Ctx) -> usize {
    sweep_cert(c, ctx)
}

fn sweep_manifest(m: &Manifest, ctx: &Ctx) -> usize {
    let c = m.content();
    let _ = (c.manifest_number(), format!("{}", c.manifest_number()), c.this_update(), c.next_update(), c.file_hash_alg(), c.len(), c.is_empty(), c.is_stale());
    let mut n = 8;
    n += probe_iter(|| c.iter());
    for f in c.iter() { let _ = (f.file().len(), f.hash().len()); n += 1; }
    for base in ["rsync://h/m/", "rsync://h/m/dir/sub/", "rsync://h/m/x"] {
        for (u, h) in c.iter_uris(&rsync(base)) { let _ = (u.to_string(), h.as_slice().len(), h.verify(b"x").is_ok(), h.algorithm()); n += 1; }
    }
    reenc("Manifest::to_captured", || m.to_captured());
    reenc("ManifestContent::encode_ref", || { use bcder::encode::Values; m.content().encode_ref().to_captured(Mode::Der) });
    reenc("Manifest::serialize", || serde_json::to_string(m).is_ok());
    let _ = m.clone().validate_at(&ctx.ta, true, ctx.now);
    let _ = m.clone().validate_at(&ctx.ta, false, ctx.now);
    n + sweep_sigobj_cert(m.cert(), ctx)
}

fn sweep_roa(r: &Roa, ctx: &Ctx) -> usize {
    use bcder::encode::Values;
    let c = r.content();
    let _ = c.as_id();
    let mut n = 2;
    n += probe_iter(|| c.iter()) + probe_iter(|| c.iter_origins());
    for a in c.iter() { let _ = (a.prefix(), a.is_v4(), a.address(), a.address_length(), a.max_length(), format!("{a}")); n += 1; }
    for o in c.iter_origins() { let _ = format!("{o:?}"); n += 1; }
    for l in [c.v4_addrs(), c.v6_addrs()] {
        let _ = l.is_empty();
        for a in l.iter() { let _ = (a.prefix(), a.range(), a.max_length()); n += 1; }
    }
    reenc("RouteOriginAttestation::encode_ref", || c.encode_ref().to_captured(Mode::Der));
    reenc("Roa::to_captured", || r.to_captured());
    reenc("Roa::serialize", || serde_json::to_string(r).is_ok());
    let _ = r.clone().process(&ctx.ta, true, |_| Ok(()));
    let _ = r.clone().process(&ctx.ta, false, |_| Ok(()));
    n + sweep_sigobj_cert(r.cert(), ctx)
}

fn sweep_aspa(a: &Aspa, ctx: &Ctx) -> usize {
    use bcder::encode::Values;
    let c = a.content();
    let _ = (c.customer_as(), c.as_resources().is_present());
    let p = c.provider_as_set();
    let mut n = 3 + p.len().min(1);
    n += probe_iter(|| p.iter());
    for x in p.iter() { let _ = x; n += 1; }
    let _ = p.to_set().len();
    reenc("AsProviderAttestation::encode_ref", || c.encode_ref().to_captured(Mode::Der));
    reenc("Aspa::to_captured", || a.to_captured());
    reenc("Aspa::serialize", || serde_json::to_string(a).is_ok());
    let _ = a.clone().process(&ctx.ta, true, |_| Ok(()));
    let _ = a.clone().process(&ctx.ta, false, |_| Ok(()));
    n + sweep_sigobj_cert(a.cert(), ctx)
}

fn sweep_sigobj(o: &SignedObject, ctx: &Ctx) -> usize {
    use bcder::encode::Values;
    let _ = (o.content_type().to_string(), o.content().to_bytes().len(), o.signing_time());
    let _ = o.decode_content(|cons| cons.skip_all());
    reenc("SignedObject::encode_ref", || o.encode_ref().to_captured(Mode::Der));
    let _ = o.clone().validate_at(&ctx.ta, true, ctx.now);
    let _ = o.clone().validate_at(&ctx.ta, false, ctx.now);
    5 + sweep_sigobj_cert(o.cert(), ctx)
}

fn sweep_rta(r: &Rta, ctx: &Ctx) -> usize {
    let c = r.content();
    let _ = (c.subject_keys().len(), c.digest_algorithm(), c.message_digest().as_ref().len());
    let n = 4 + sweep_blocks_as(c.as_resources()) + sweep_blocks_ip(c.v4_resources(), false) + sweep_blocks_ip(c.v6_resources(), true);
    reenc("Rta::to_captured", || r.to_captured());
    reenc("ResourceTaggedAttestation::encode_ref", || { use bcder::encode::Values; r.content().encode_ref().to_captured(Mode::Der) });
    for strict in [true, false] {
        if let Ok(mut v) = rpki::repository::rta::Validation::new_at(r, strict, ctx.now) {
            if let Some(tal) = ctx.tal.as_ref() { let _ = v.supply_tal(tal); }
            let _ = v.supply_ca(&ctx.ta);
            let _ = v.finalize();
        }
        // the wall-clock entry point as well
        if let Ok(mut v) = rpki::repository::rta::Validation::new(r, strict) {
            let _ = v.supply_ca(&ctx.ta);
        }
    }
    // a decoded attestation taken apart again: builder views of its certificates, CRLs and content, and writing it back
    reenc("RtaBuilder::from_rta", || {
        let b = rpki::repository::rta::RtaBuilder::from_rta(r.clone());
        let _ = (b.certificates().len(), b.crls().len(), b.content().subject_keys().len());
        b.finalize().to_captured()
    });
    n + 4
}

fn sweep_key(k: &PublicKey) -> usize {
    use bcder::encode::Values;
    let _ = (k.key_identifier(), k.algorithm(), k.bits().len(), k.bits_bytes(), k.allow_rpki_cert(), k.allow_router_cert(), k.to_subject_name(), k.to_info_bytes());
    reenc("PublicKey::encode_ref", || k.encode_ref().to_captured(Mode::Der));
    let sig = rpki::crypto::Signature::new(RpkiSignatureAlgorithm::default(), Bytes::from_static(&[1u8; 256]));
    let _ = k.verify(b"message", &sig);
    reenc("PublicKey::serialize", || serde_json::to_string(k).is_ok());
    10
}

fn sweep_idcert(c: &IdCert, ctx: &Ctx) -> usize {
    let _ = (c.serial_number(), format!("{}", c.serial_number()), c.subject_key_identifier(), c.subject_key_id(), c.authority_key_id(), c.validity(), format!("{:?}", c.subject()));
    let n = 8 + sweep_key(c.public_key());
    reenc("IdCert::to_captured", || (c.to_captured(), c.to_bytes()));
    reenc("TbsIdCert::encode_ref", || { use bcder::encode::Values; let t: &rpki::ca::idcert::TbsIdCert = c; t.encode_ref().to_captured(Mode::Der) });
    let _ = c.validate_ta_at(ctx.now);
    let _ = c.validate_ee_at(&ctx.pki.pubkey("k0"), ctx.now);
    let _ = c.verify_validity(ctx.now);
    reenc("IdCert::serialize", || serde_json::to_string(c).is_ok());
    n
}

fn sweep_msg(m: &SignedMessage, ctx: &Ctx) -> usize {
    let _ = (m.content_type().to_string(), m.content().to_bytes().len());
    reenc("SignedMessage::to_captured", || m.to_captured());
    let _ = m.validate_at(&ctx.pki.pubkey("k0"), ctx.now);
    let _ = m.validate_at(&ctx.pki.pubkey("k0"), time_of(1));
    let _ = m.validate_at(&ctx.pki.pubkey("k1"), time_of(1));
    4
}

thread_local! { static TAL_DIR: std::cell::RefCell<Option<std::path::PathBuf>> = const { std::cell::RefCell::new(None) }; }

/// decode `bytes` through entry point `entry`; Ok(accessor calls) when something decoded
pub fn decode_and_sweep(entry: &str, strict: bool, bytes: &[u8], ctx: &Ctx) -> Result<usize, ()> {
    let b = Bytes::copy_from_slice(bytes);
    match entry {
        "cert" => Cert::decode(b).map(|c| sweep_cert(&c, ctx)).map_err(|_| ()),
        "crl" => Crl::decode(b).map(|c| sweep_crl(&c, ctx)).map_err(|_| ()),
        "manifest" => {
            let a = Manifest::decode(b.clone(), strict).map(|m| sweep_manifest(&m, ctx));
            let o = SignedObject::decode(b, strict).map(|o| sweep_sigobj(&o, ctx));
            match (a, o) { (Ok(x), Ok(y)) => Ok(x + y), (Ok(x), _) => Ok(x), (_, Ok(y)) => Ok(y), _ => Err(()) }
        }
        "roa" => Roa::decode(b, strict).map(|r| sweep_roa(&r, ctx)).map_err(|_| ()),
        "aspa" => Aspa::decode(b, strict).map(|a| sweep_aspa(&a, ctx)).map_err(|_| ()),
        "rta" => Rta::decode(b, strict).map(|r| sweep_rta(&r, ctx)).map_err(|_| ()),
        "tal" => {
            // the same bytes through the path-taking reader, and (when they are small) as a file in a directory read by read_dir
            let by_path = Tal::read("some/dir/x.tal", &mut &bytes[..]).map(|t| t.info().name().len());
            let via_dir = if bytes.len() < 4096 { TAL_DIR.with(|d| {
                let dir = d.borrow_mut().get_or_insert_with(|| { let p = std::env::temp_dir().join(format!("vh-tal-{}", std::process::id())); let _ = std::fs::create_dir_all(&p); p }).clone();
                let _ = std::fs::write(dir.join("t.tal"), bytes);
                let n = Tal::read_dir(&dir).map(|it| it.map(|r| r.map(|t| t.uris().count()).unwrap_or(0)).sum::<usize>()).unwrap_or(0);
                let _ = std::fs::remove_file(dir.join("t.tal"));
                n
            }) } else { 0 };
            let _ = (by_path.is_ok(), via_dir);
            Tal::read_named("x".into(), &mut &bytes[..]).map(|mut t| {
                let n = t.uris().map(|u| {
                    // every URI of the file through TalUri's own parsers and back to text
                    let again = (TalUri::from_string(u.as_str().to_string()).is_ok(), TalUri::from_slice(u.as_str().as_bytes()).is_ok(), u.as_str().parse::<TalUri>().is_ok(), u.to_string().len());
                    (u.is_rsync(), u.is_https(), u.as_str().len(), again)
                }).count();
                t.prefer_https();
                let _ = t.info().name();
                n + 6 + sweep_key(t.key_info())
            }).map_err(|_| ())
        }
        "pubkey" => PublicKey::decode(b).map(|k| sweep_key(&k)).map_err(|_| ()),
        "csr" => {
            let a = RpkiCaCsr::decode(b.clone()).map(|c| {
                let _ = (c.basic_ca(), c.key_usage(), c.extended_key_usage().is_some(), c.ca_repository().map(|u| u.to_string()), c.rpki_manifest().map(|u| u.to_string()),
                         c.rpki_notify().map(|u| u.to_string()), format!("{:?}", c.subject()), c.verify_signature().is_ok());
                reenc("RpkiCaCsr::to_captured", || (c.to_captured(), serde_json::to_string(&c).is_ok()));
                10 + sweep_key(c.public_key())
            });
            let r = BgpsecCsr::decode(b).map(|c| {
                let _ = (c.attributes().extended_key_usage().is_some(), format!("{:?}", c.subject()), c.verify_signature().is_ok());
                reenc("BgpsecCsr::to_captured", || c.to_captured());
                4 + sweep_key(c.public_key())
            });
            match (a, r) { (Ok(x), Ok(y)) => Ok(x + y), (Ok(x), _) => Ok(x), (_, Ok(y)) => Ok(y), _ => Err(()) }
        }
        "idcert" => IdCert::decode(b).map(|c| sweep_idcert(&c, ctx)).map_err(|_| ()),
        "sigmsg" => {
            let m = SignedMessage::decode(b.clone(), strict).map(|m| sweep_msg(&m, ctx));
            // the protocol wrappers decode in relaxed mode themselves and parse the XML payload
            let p = ProvisioningCms::decode(bytes).map(|p| { let _ = (p.message().to_xml_string().len(), p.validate_at(&ctx.pki.pubkey("k0"), ctx.now).is_ok()); reenc("ProvisioningCms::to_bytes", || p.to_bytes()); 3 });
            let q = PublicationCms::decode(bytes).map(|q| { let _ = q.validate_at(&ctx.pki.pubkey("k0"), ctx.now).is_ok(); reenc("PublicationCms::to_bytes", || q.to_bytes()); let _ = q.into_message().to_xml_string(); 3 });
            let mut n = None;
            for r in [m.map_err(|_| ()), p.map_err(|_| ()), q.map_err(|_| ())] { if let Ok(x) = r { n = Some(n.unwrap_or(0) + x); } }
            n.ok_or(())
        }
        _ => Err(()),
    }
}

/// The mutated inputs of a plan for one corpus item.  Kinds that need a node of a particular type hit every eligible node whose
/// rank is congruent to the site; kinds that apply anywhere hit the representative nodes (first and last node of every distinct tag)
/// whose rank is congruent to the site, plus the node at the site's evenly spaced position.  So every eligible node / every kind of
/// field is covered whatever the number of sites; more sites add more positions.
pub fn apply_plan(item: &Item, muts: &[(String, usize, usize)], sites: usize) -> Vec<Vec<u8>> {
    // sites = 0: the site numbers are ranks among the eligible nodes (random driver)
    let exact = sites == 0;
    let sites = sites.max(2);
    let (head, der) = if item.entry == "tal" {
        // text container: URI section + base64 of the key's DER
        let text = String::from_utf8_lossy(&item.bytes).into_owned();
        let (head, b64) = match text.find("\n\n") { Some(i) => (text[..i + 2].to_string(), text[i + 2..].to_string()), None => (String::new(), text.clone()) };
        match base64::Engine::decode(&base64::engine::general_purpose::STANDARD, b64.split_whitespace().collect::<String>()) {
            Ok(d) => (Some(head), d),
            Err(_) => return vec![],
        }
    } else {
        (None, item.bytes.clone())
    };
    let root = match tlv::parse(&der) { Some(r) => r, None => return vec![] };
    let finish = |root: &Tlv, head: &Option<String>| -> Vec<u8> {
        match head {
            None => root.encode(),
            Some(h) => format!("{h}{}\n", base64::Engine::encode(&base64::engine::general_purpose::STANDARD, root.encode())).into_bytes(),
        }
    };
    let mut out = vec![];
    // the first mutation decides the fan-out; further mutations (trace driver) are applied at their own sites
    let (k0, s0, v0) = &muts[0];
    let firsts: Vec<usize> = if exact {
        let el = tlv::eligible(&root, k0);
        if el.is_empty() { vec![] } else { vec![el[s0 % el.len()]] }
    } else if tlv::TYPED_KINDS.contains(&k0.as_str()) {
        tlv::eligible(&root, k0).into_iter().enumerate().filter(|(rank, _)| rank % sites == s0 % sites).map(|(_, n)| n).collect()
    } else {
        // the representative nodes (one per kind of field), partitioned over the sites, plus the evenly spaced node of this site
        let mut v: Vec<usize> = tlv::representatives(&root).into_iter().enumerate().filter(|(rank, _)| rank % sites == s0 % sites).map(|(_, n)| n).collect();
        v.push((root.count() - 1) * (s0 % sites) / (sites - 1));
        v.sort();
        v.dedup();
        v
    };
    for n in firsts {
        let mut r = root.clone();
        let mut head2 = head.clone();
        let mut any = tlv::mutate(&mut r, k0, n, *v0);
        for (kind, site, v) in &muts[1..] {
            let el = tlv::eligible(&r, kind);
            if el.is_empty() { continue; }
            any |= tlv::mutate(&mut r, kind, if exact { el[site % el.len()] } else { el[(el.len() - 1) * (site % sites) / (sites - 1)] }, *v);
        }
        if let Some(h) = &mut head2 {
            if s0 % 3 == 2 {
                // text-level damage of the URI section
                *h = match v0 % 3 { 0 => h.replace("rsync://", "rsync:/"), 1 => format!("{h}\u{e9}\n"), _ => h.replace('\n', "\r") };
                any = true;
            }
        }
        if any { out.push(finish(&r, &head2)); }
    }
    out
}

pub struct Verdict {
    pub outcome: &'static str, // "value" | "error" | "panic" | "blowup"
    pub detail: String,
    pub calls: usize,
    pub peak: usize,
    pub total: usize,
    pub micros: u128,
    /// panics of re-encoding accessors (each in its own scope)
    pub reenc: Vec<String>,
}

/// processor time this process has used so far (utime + stime, fields 14 and 15 of /proc/self/stat, 100 ticks per second)
fn cpu_secs() -> f64 {
    std::fs::read_to_string("/proc/self/stat").ok().and_then(|t| {
        let rest = t.rsplit_once(')')?.1.to_string();
        let f: Vec<&str> = rest.split_whitespace().collect();
        Some((f.get(11)?.parse::<f64>().ok()? + f.get(12)?.parse::<f64>().ok()?) / 100.0)
    }).unwrap_or(0.0)
}

pub fn run_one(ctx: &Ctx, entry: &str, strict: bool, input: &[u8]) -> Verdict {
    REENC.with(|r| r.borrow_mut().clear());
    // time is processor time (a loaded machine must not turn into a verdict); the wall clock only decides whether to look at it
    let (t0, c0) = (Instant::now(), cpu_secs());
    let (r, peak, total) = metered(|| guarded(|| decode_and_sweep(entry, strict, input, ctx)));
    let micros = if t0.elapsed().as_micros() > 1_000_000 { ((cpu_secs() - c0) * 1e6) as u128 } else { t0.elapsed().as_micros() };
    let (mut outcome, mut detail, calls) = match r {
        Ok(Ok(n)) => ("value", String::new(), n),
        Ok(Err(())) => ("error", String::new(), 0),
        Err(m) => ("panic", m, 0),
    };
    if outcome != "panic" && (peak > peak_budget(input.len()) || total > total_budget(input.len())) {
        outcome = "blowup";
        detail = format!("peak {peak} bytes / total {total} bytes allocated for an input of {} bytes (budgets {} / {})", input.len(), peak_budget(input.len()), total_budget(input.len()));
    }
    if outcome != "panic" && outcome != "blowup" && micros > 3_000_000 + 200 * input.len() as u128 {
        outcome = "blowup";
        detail = format!("{micros} us of processor time for an input of {} bytes", input.len());
    }
    let reenc = REENC.with(|r| std::mem::take(&mut *r.borrow_mut()));
    Verdict { outcome, detail, calls, peak, total, micros, reenc }
}

/// violation key of a re-encoding panic. Values decoded in relaxed (BER) mode keep BER-captured parts which the DER re-encoders
/// refuse with a panic: that family gets one key (see known_findings.json); anything else is keyed by call site.
fn reenc_key(entry: &str, strict: bool, msgs: &[String]) -> String {
    let relaxed_path = !strict || entry == "sigmsg";
    if relaxed_path && msgs.iter().all(|m| m.contains("captured value with incompatible mode")) {
        format!("reencode-after-relaxed-decode:{entry}")
    } else {
        let other = msgs.iter().find(|m| !m.contains("captured value with incompatible mode")).unwrap_or(&msgs[0]);
        format!("reencode:{entry}:{}:{}", if strict { "strict" } else { "relaxed" }, other.split(':').next().unwrap_or(""))
    }
}

fn hex(b: &[u8]) -> String {
    b.iter().map(|x| format!("{x:02x}")).collect()
}

fn plan_of(c: &Value) -> Vec<(String, usize, usize)> {
    c["muts"].as_array().unwrap().iter().map(|m| (m[0].as_str().unwrap().to_string(), m[1].as_u64().unwrap() as usize, m[2].as_u64().unwrap() as usize)).collect()
}

/// Cap => Red cases: a BER shape inside a captured region, decoded in the capturing mode, then every accessor of the region
fn run_capred(ctx: &Ctx, c: &Value, s: &mut Summary) -> Result<(), (String, String)> {
    let (region, capmode, shape, accepts) = (c["region"].as_str().unwrap(), c["capmode"].as_str().unwrap(), c["shape"].as_str().unwrap(), c["accepts"].as_bool().unwrap());
    let (entry, item_name, path_tag): (&str, &str, u8) = match region {
        "MsgCrlRevoked" => ("sigmsg", "assembled-revoked", 0),
        "CrlRevoked" => ("crl", "built", 0),
        "ManifestFiles" => ("manifest", "built", 0),
        "RoaAddrs" => ("roa", "built", 0),
        "AspaProviders" => ("aspa", "built", 0),
        _ => return Err(("capred:unknown-region".into(), region.into())),
    };
    let _ = path_tag;
    if region == "MsgCrlRevoked" {
        // entries are shaped while the CRL is assembled, so that its signature covers them and validation reaches the lookup
        let k = match shape { "short" => 0, "long-nonmin" => 1, "indef" => 2, _ => { s.count("capred_shape_not_applicable", 1); return Ok(()); } };
        let c = json!({"f": {"digest": "ok", "attrs": "ok", "sig": "ok", "sid": "ok", "eetime": "ok", "eesig": "peer", "eeca": "no", "eeaki": "peer",
                             "crltime": "ok", "revoked": "big_ee", "crlsig": "peer", "crlaki": "peer", "key": "peer"}, "size": "plain"});
        crate::cmsmsg::CRL_ENTRY_SHAPE.store(k, Ordering::SeqCst);
        let bytes = crate::cmsmsg::assemble(&ctx.pki, &c).0;
        crate::cmsmsg::CRL_ENTRY_SHAPE.store(0, Ordering::SeqCst);
        let strict = capmode == "der";
        // the lookup is reached through validate_at (verify_not_revoked) and directly
        let b2 = bytes.clone();
        let direct = guarded(move || SignedMessage::decode(Bytes::from(b2), strict).map(|m| m.validate_at(&ctx.pki.pubkey("k0"), time_of(1)).is_ok()).ok());
        let v = run_one(ctx, entry, strict, &bytes);
        s.count(&format!("capred_{}", v.outcome), 1);
        return match (direct, v.outcome) {
            (Err(m), _) => Err((format!("capred:panic:{region}:{capmode}:{shape}"), format!("looking up a serial in the revocation list panics: {m}"))),
            (_, "panic") | (_, "blowup") => Err((format!("capred:{}:{region}:{capmode}:{shape}", v.outcome), v.detail)),
            (Ok(r), _) => {
                if accepts && r.is_none() {
                    return Err((format!("capred:refused:{region}:{capmode}:{shape}"), "the capturing decoder refuses a shape the table says it accepts".into()));
                }
                if accepts { s.count("capred_lookup_reached", 1); }
                Ok(())
            }
        };
    }
    let item = ctx.items.iter().find(|i| i.entry == entry && i.name == item_name).unwrap();
    let mut root = tlv::parse(&item.bytes).unwrap();
    // locate the region's first list element: the deepest-first SEQUENCE that holds the marker value
    let marker: Vec<u8> = match region {
        "MsgCrlRevoked" => vec![0x7f, 0xff, 0x00, 0x00],          // BIG_SERIAL
        "CrlRevoked" => vec![0x03],                                // serial 3
        "ManifestFiles" => b"a.cer".to_vec(),
        "RoaAddrs" => vec![0x00, 0x0a],                            // 10/8 as BIT STRING content
        _ => vec![0x03],                                           // provider AS3
    };
    let total = root.count();
    let mut target = None;
    for n in 0..total {
        let t = root.clone().node_mut(n).cloned().unwrap();
        if let tlv::Body::Prim(v) = &t.body {
            if *v == marker && matches!(t.utag(), Some(2 | 3 | 22)) {
                // the element is the parent (a SEQUENCE) unless the list holds bare values (ASPA providers)
                target = Some(if region == "AspaProviders" { n } else { root.parent_of(n).unwrap().0 });
            }
        }
    }
    let n = target.ok_or(("capred:marker-not-found".to_string(), region.to_string()))?;
    let node = root.node_mut(n).unwrap();
    match shape {
        "short" => {}
        "long-nonmin" => node.len = LenForm::NonMinimal(1),
        "indef" => node.len = LenForm::Indefinite,
        "cons-string" => { if !tlv::mutate(&mut root, "segment-string", n + 1, 0) { s.count("capred_shape_not_applicable", 1); return Ok(()); } }
        _ => {}
    }
    let bytes = root.encode();
    let strict = capmode == "der";
    let v = run_one(ctx, entry, strict, &bytes);
    s.count(&format!("capred_{}", v.outcome), 1);
    if !v.reenc.is_empty() {
        let k = reenc_key(entry, strict, &v.reenc);
        if !k.starts_with("reencode-after-relaxed-decode") {
            return Err((k, v.reenc.join(" | ")));
        }
    }
    match v.outcome {
        "panic" | "blowup" => Err((format!("capred:{}:{region}:{capmode}:{shape}", v.outcome), format!("{} ({} bytes: {})", v.detail, bytes.len(), hex(&bytes[..bytes.len().min(64)])))),
        "error" if accepts && shape == "short" => Err((format!("capred:baseline-refused:{region}"), "the unmodified object does not decode".into())),
        _ => Ok(()),
    }
}

pub fn replay(args: &[String]) {
    let cases = read_cases(&args[0]);
    let sites = arg_u64(args, "--sites", 12) as usize;
    let ctx = Ctx::new();
    let mut s = Summary::new();
    for (name, m) in &ctx.build_failures {
        s.violation(&format!("baseline:build:{name}"), format!("the library's builder panics on the valid object '{name}': {m}"), json!({"item": name}));
    }
    // baseline: every corpus item must decode (strict or relaxed) with its own entry point, within budget
    for it in &ctx.items {
        let a = run_one(&ctx, it.entry, true, &it.bytes);
        let b = run_one(&ctx, it.entry, false, &it.bytes);
        for (strict, v) in [(true, &a), (false, &b)] {
            if !v.reenc.is_empty() {
                s.violation(&reenc_key(it.entry, strict, &v.reenc), format!("re-encoding the decoded valid corpus item {} ({}) panics: {}", it.name, if strict { "strict" } else { "relaxed" }, v.reenc.join(" | ")),
                            json!({"item": it.name, "strict": strict}));
            }
            if v.outcome == "panic" || v.outcome == "blowup" {
                s.violation(&format!("baseline:{}:{}", v.outcome, it.name), format!("{} on the valid corpus item {}", v.detail, it.name), json!({"item": it.name}));
            }
        }
        if a.outcome == "value" || b.outcome == "value" { s.count("corpus_items_decoding", 1); } else { s.count("corpus_items_refused", 1); }
        s.set(&format!("peak_ratio_x100:{}", it.name), json!(a.peak.max(b.peak) * 100 / it.bytes.len().max(1)));
    }
    let (tx, rx) = std::sync::mpsc::channel::<(usize, Vec<(String, String, Value)>, [u64; 4])>();
    let cases2 = cases.clone();
    // the work runs on this thread (the meter is global); a watchdog thread aborts a runaway decode with a verdict
    // "did not finish" is measured in processor time this process actually got, per input (a loaded machine must not turn a slow
    // run into a verdict): 60 s of CPU on one input of at most a few hundred kilobytes is far beyond any fixed multiple of its size
    let progress = std::sync::Arc::new(AtomicUsize::new(0));
    let stamp = std::sync::Arc::new(std::sync::Mutex::new((Instant::now(), cpu_secs())));
    {
        let (progress, stamp, cases) = (progress.clone(), stamp.clone(), cases2);
        std::thread::spawn(move || loop {
            std::thread::sleep(Duration::from_millis(500));
            let (t0, c0) = *stamp.lock().unwrap();
            if t0.elapsed() > Duration::from_secs(60) && cpu_secs() - c0 > 60.0 {
                let i = progress.load(Ordering::SeqCst);
                let c = cases.get(i).cloned().unwrap_or(Value::Null);
                let mut s = Summary::new();
                s.violation("runaway", format!("decoding one input did not finish within 60 s of processor time (case {c})"), c);
                s.eval(None);
                s.print();
                std::process::exit(0);
            }
        });
    }
    drop((tx, rx));
    for (i, c) in cases.iter().enumerate() {
        progress.store(i, Ordering::SeqCst);
        *stamp.lock().unwrap() = (Instant::now(), cpu_secs());
        if c["op"] == "certshape" {
            if let Err((k, m)) = run_certshape(&ctx, c) {
                s.violation(&k, m, c.clone());
            }
            s.eval(Some(&format!("{c}")));
            continue;
        }
        if c["op"] == "capred" {
            if let Err((k, m)) = run_capred(&ctx, c, &mut s) {
                s.violation(&k, m, c.clone());
            }
            s.eval(Some(&format!("{c}")));
            continue;
        }
        let (entry, strict) = (c["entry"].as_str().unwrap(), c["strict"].as_bool().unwrap());
        let muts = plan_of(c);
        let mut applied = false;
        // (the 128 KiB objects of the size-limit corpus are decoded and swept as they are, not mutated: one of them costs as much as
        // the rest of its entry's corpus together)
        for it in ctx.items.iter().filter(|i| i.entry == entry && !i.name.starts_with("assembled-gen-s")) {
          for input in apply_plan(it, &muts, sites) {
            applied = true;
            *stamp.lock().unwrap() = (Instant::now(), cpu_secs());
            let v = run_one(&ctx, entry, strict, &input);
            s.count(&format!("outcome_{}", v.outcome), 1);
            s.count("accessor_calls", v.calls as u64);
            if v.outcome == "panic" || v.outcome == "blowup" {
                let kinds: Vec<&str> = muts.iter().map(|m| m.0.as_str()).collect();
                s.violation(&format!("{}:{entry}:{}", v.outcome, kinds.join("+")),
                            format!("{} — {entry} ({}) item {} plan {:?}, input {} bytes: {}", v.detail, if strict { "strict" } else { "relaxed" }, it.name, muts, input.len(), hex(&input[..input.len().min(48)])),
                            json!({"case": c, "item": it.name, "input_hex": if input.len() <= 6000 { hex(&input) } else { String::new() }}));
            }
            if !v.reenc.is_empty() {
                s.violation(&reenc_key(entry, strict, &v.reenc), format!("re-encoding a decoded value panics: {} — {entry} ({}) item {} plan {:?}", v.reenc.join(" | "), if strict { "strict" } else { "relaxed" }, it.name, muts),
                            json!({"case": c, "item": it.name, "input_hex": if input.len() <= 6000 { hex(&input) } else { String::new() }}));
            }
            s.evals(1);
          }
        }
        if applied { s.nontrivial(&format!("{c}")); } else { s.count("plans_not_applicable", 1); }
        if s.samples.len() < 4 && i % 1999 == 7 { s.sample(c.clone()); }
    }
    s.print();
}

// ---- impl -> spec: random multi-mutation fuzzing, each run recorded as one event
pub fn drive(args: &[String]) {
    let seed = arg_u64(args, "--seed", 1);
    let n = arg_u64(args, "--n", 1000);
    let mut out = TraceOut::create(&arg_val(args, "--out").unwrap());
    let mut rng = Rng::new(seed);
    let ctx = Ctx::new();
    let mut s = Summary::new();
    for _ in 0..n {
        let it = &ctx.items[rng.below(ctx.items.len() as u64) as usize];
        // entry points without a strict flag always decode DER
        let strict = rng.chance(1, 2) || !["manifest", "roa", "aspa", "rta", "sigmsg"].contains(&it.entry);
        let k = 1 + rng.below(3) as usize;
        let muts: Vec<(String, usize, usize)> = (0..k).map(|_| (rng.pick(tlv::KINDS).to_string(), rng.below(1000) as usize, rng.below(12) as usize)).collect();
        let mut inputs = apply_plan(it, &muts, 0);
        if inputs.is_empty() { continue; }
        let mut input = inputs.swap_remove(rng.below(inputs.len() as u64) as usize);
        // byte-level damage on top, sometimes
        match rng.below(6) {
            0 => { let cut = rng.below(input.len() as u64 + 1) as usize; input.truncate(cut); }
            1 => { if !input.is_empty() { let i = rng.below(input.len() as u64) as usize; input[i] ^= 1 << rng.below(8); } }
            2 => { let i = rng.below(input.len() as u64 + 1) as usize; let extra: Vec<u8> = (0..rng.below(9)).map(|_| rng.next() as u8).collect(); input.splice(i..i, extra); }
            _ => {}
        }
        let v = run_one(&ctx, it.entry, strict, &input);
        out.ev(json!({"ev": "decode", "entry": it.entry, "strict": strict, "outcome": v.outcome, "swept": v.outcome != "value" || v.calls > 0,
                      "reencode_ok": v.reenc.is_empty() || reenc_key(it.entry, strict, &v.reenc).starts_with("reencode-after-relaxed-decode"), "n": input.len(), "peak": v.peak.min(2_000_000_000), "budget": peak_budget(input.len()).min(2_000_000_000)}));
        if v.outcome == "panic" || v.outcome == "blowup" {
            s.count("bad_outcomes", 1);
            s.set("first_bad", json!({"item": it.name, "muts": muts.iter().map(|m| json!([m.0, m.1, m.2])).collect::<Vec<_>>(), "detail": v.detail, "input_hex": hex(&input[..input.len().min(3000)])}));
        }
        s.count(&format!("outcome_{}", v.outcome), 1);
        s.eval(None);
    }
    s.set("events", json!(out.finish()));
    s.print();
}
