//! C02 — binds spec/SignedObj.tla to SignedObject / Roa / Aspa / Manifest decoding and validation.
use crate::cms::*;
use crate::common::*;
use crate::der;
use crate::pki::*;
use bytes::Bytes;
use rpki::repository::aspa::Aspa;
use rpki::repository::cert::{Cert, ResourceCert};
use rpki::repository::error::ValidationError;
use rpki::repository::manifest::Manifest;
use rpki::repository::roa::Roa;
use rpki::repository::sigobj::SignedObject;
use rpki::repository::tal::TalInfo;
use rpki::repository::x509::{Time, Validity};
use serde_json::{json, Value};
use std::collections::HashMap;

pub struct Ctx {
    pub pki: Pki,
    pub router: (rpki::repository::x509::Name, rpki::crypto::keys::PublicKey),
    pub issuer: ResourceCert,
    /// a CA under the trust anchor (key k1) that holds AS numbers only
    pub issuer_as_only: ResourceCert,
    /// a CA (key k2) under the trimming policy whose certificate claims more than the trust anchor holds; validated: a1, a2
    pub issuer_trimmed: ResourceCert,
    pub issuer_trimmed_as: ResourceCert,
    ee_cache: HashMap<String, Vec<u8>>,
}

fn rc(c: &str, s: &[&str]) -> ResChoice {
    ResChoice { c: c.into(), s: s.iter().map(|x| x.to_string()).collect() }
}

/// what the trimmed CA's certificate claims: the trust anchor's a1 and a2, and 11.0.0.0/8 resp. AS65000-AS65010 on top
fn trimmed_claim() -> (rpki::repository::resources::IpResources, rpki::repository::resources::IpResources, rpki::repository::resources::AsResources) {
    use rpki::repository::resources::{AsBlock, AsBlocks, AsResources, Asn, IpBlock, IpBlocks, IpResources, Prefix};
    let v4: IpBlocks = [v4_atom("a1"), v4_atom("a2"), IpBlock::from(Prefix::from_v4_str("11.0.0.0/8").unwrap())].into_iter().collect();
    let asn: AsBlocks = [as_atom("a1"), as_atom("a2"), AsBlock::from((Asn::from_u32(65000), Asn::from_u32(65010)))].into_iter().collect();
    (IpResources::blocks(v4), IpResources::missing(), AsResources::blocks(asn))
}

impl Ctx {
    pub fn new() -> Self {
        let pki = Pki::new(4);
        let router = router_identity();
        let now = Time::now();
        let wide = Validity::new(now - chrono::TimeDelta::try_days(30).unwrap(), now + chrono::TimeDelta::try_days(30).unwrap());
        let ta = CertParams {
            kind: "ta".into(), key: "k0".into(), sig_key: "k0".into(), aki: "none".into(), ski_ok: true, tamper: "none".into(), nb: 0, na: 2,
            policy: "refuse".into(), v4: rc("blocks", &["a1", "a2"]), v6: rc("blocks", &["a1"]), asn: rc("blocks", &["a1", "a2"]), serial: 1, raw: None,
            validity: Some(wide),
        };
        let der = build_cert(&pki, &ta, &router);
        let issuer = Cert::decode(Bytes::from(der)).unwrap().validate_ta_at(TalInfo::from_name("t".into()).into_arc(), true, now).expect("TA validates");
        let ca = CertParams {
            kind: "ca".into(), key: "k1".into(), sig_key: "k0".into(), aki: "k0".into(), ski_ok: true, tamper: "none".into(), nb: 0, na: 2,
            policy: "refuse".into(), v4: rc("missing", &[]), v6: rc("missing", &[]), asn: rc("blocks", &["a1", "a2"]), serial: 2, raw: None,
            validity: Some(wide),
        };
        let issuer_as_only = Cert::decode(Bytes::from(build_cert(&pki, &ca, &router))).unwrap().validate_ca_at(&issuer, true, now).expect("AS-only CA validates");
        // two of them: one that claims addresses only (key k2), one that claims AS numbers only (key k3) - an EE certificate can then
        // carry exactly its issuer's extensions
        let mut trimmed = Vec::new();
        for (key, as_only) in [("k2", false), ("k3", true)] {
            use rpki::repository::resources::{AsResources, IpResources};
            let (v4, v6, asn) = trimmed_claim();
            let raw = if as_only { (IpResources::missing(), IpResources::missing(), asn) } else { (v4, v6, AsResources::missing()) };
            let ca = CertParams {
                kind: "ca".into(), key: key.into(), sig_key: "k0".into(), aki: "k0".into(), ski_ok: true, tamper: "none".into(), nb: 0, na: 2,
                policy: "trim".into(), v4: rc("missing", &[]), v6: rc("missing", &[]), asn: rc("missing", &[]), serial: 3, raw: Some(raw),
                validity: Some(wide),
            };
            trimmed.push(Cert::decode(Bytes::from(build_cert(&pki, &ca, &router))).unwrap().validate_ca_at(&issuer, true, now).expect("trimmed CA validates"));
        }
        let (issuer_trimmed_as, issuer_trimmed) = (trimmed.pop().unwrap(), trimmed.pop().unwrap());
        Ctx { pki, router, issuer, issuer_as_only, issuer_trimmed, issuer_trimmed_as, ee_cache: HashMap::new() }
    }

    /// EE certificate for an object of `kind` with EE facet `ee` and coverage facet `cover`.
    fn ee_cert(&mut self, kind: &str, ee: &str, cover: &str, fam: &str, pol: &str) -> Vec<u8> {
        let key = format!("{kind}/{ee}/{cover}/{fam}/{pol}");
        if let Some(d) = self.ee_cache.get(&key) {
            return d.clone();
        }
        let now = Time::now();
        let h = |n: i64| chrono::TimeDelta::try_hours(n).unwrap();
        // windows that have only just ended resp. only just begun (two to three seconds ago: X.509 times have whole seconds) - for
        // the entry points that read the clock themselves a window is as good as its edges, and "over" / "begun" stay true as the
        // clock moves on, so nothing here depends on how fast this runs
        let sec = |n: i64| chrono::TimeDelta::try_seconds(n).unwrap();
        let validity = match ee {
            "expired" => Validity::new(now - h(48), now - sec(2)),
            "notyet" => Validity::new(now + h(24), now + h(48)),
            _ => Validity::new(now - sec(2), now + h(24)),
        };
        let (v4, v6, asn) = match (kind, cover) {
            // the family the facet lives in holds atom a1; with "+" the other family holds a1 as well, otherwise nothing
            ("roa", _) => match fam {
                "v6" => (rc("missing", &[]), rc("blocks", &["a1"]), rc("missing", &[])),
                "v4+" | "v6+" => (rc("blocks", &["a1"]), rc("blocks", &["a1"]), rc("missing", &[])),
                _ => (rc("blocks", &["a1"]), rc("missing", &[]), rc("missing", &[])),
            },
            ("aspa", "inherit") => (rc("missing", &[]), rc("missing", &[]), rc("inherit", &[])),
            ("aspa", "ipinherit") => (rc("inherit", &[]), rc("missing", &[]), rc("blocks", &["a1"])),
            ("aspa", "hasip4") => (rc("blocks", &["a1"]), rc("missing", &[]), rc("blocks", &["a1"])),
            ("aspa", "hasip6") => (rc("missing", &[]), rc("blocks", &["a1"]), rc("blocks", &["a1"])),
            ("aspa", _) => (rc("missing", &[]), rc("missing", &[]), rc("blocks", &["a1"])),
            ("mft", _) => (rc("inherit", &[]), rc("inherit", &[]), rc("inherit", &[])),
            _ => (rc("blocks", &["a1"]), rc("missing", &[]), rc("missing", &[])),
        };
        let raw = if (kind, cover) == ("roa", "straddle") {
            use rpki::repository::resources::{Addr, IpBlock, IpBlocks, IpResources, AsResources};
            // three quarters of atom a1, as a range: the second ROA prefix (the upper half of a1) sticks out at the end
            let b4: IpBlocks = [IpBlock::from((Addr::from_bits(0x0A00_0000u128 << 96), Addr::from_bits((0x0A00_00BFu128 << 96) | ((1u128 << 96) - 1))))].into_iter().collect();
            let b6: IpBlocks = [IpBlock::from((Addr::from_bits(0x2001_0db8u128 << 96), Addr::from_bits((0x2001_0db8_0000_bfffu128 << 64) | ((1u128 << 64) - 1))))].into_iter().collect();
            let whole = |f: &str| IpResources::blocks(ip_blocks(f, &["a1".to_string()]));
            Some(match fam {
                "v6" => (IpResources::missing(), IpResources::blocks(b6), AsResources::missing()),
                "v6+" => (whole("v4"), IpResources::blocks(b6), AsResources::missing()),
                "v4+" => (IpResources::blocks(b4), whole("v6"), AsResources::missing()),
                _ => (IpResources::blocks(b4), IpResources::missing(), AsResources::missing()),
            })
        } else { None };
        // trimming policy: the certificate claims 10.0.0.0/8 and/or 2001:db8::/32, of which the issuer holds atoms a1 and a2 (a1)
        let raw = if kind == "roa" && pol == "trim" {
            use rpki::repository::resources::{IpBlock, IpBlocks, IpResources, AsResources, Prefix};
            let c4: IpBlocks = [IpBlock::from(Prefix::from_v4_str("10.0.0.0/8").unwrap())].into_iter().collect();
            let c6: IpBlocks = [IpBlock::from(Prefix::from_v6_str("2001:db8::/32").unwrap())].into_iter().collect();
            Some(match fam {
                "v6" => (IpResources::missing(), IpResources::blocks(c6), AsResources::missing()),
                "v4+" | "v6+" => (IpResources::blocks(c4), IpResources::blocks(c6), AsResources::missing()),
                _ => (IpResources::blocks(c4), IpResources::missing(), AsResources::missing()),
            })
        } else { raw };
        // ASPA under the trimming policy: the certificate claims AS64496-AS64510 in one span; the issuer holds AS64496 and
        // AS64500-AS64510, so AS64497-AS64499 are claimed but not validated
        let raw = if kind == "aspa" && pol == "trim" {
            use rpki::repository::resources::{AsBlock, AsBlocks, AsResources, Asn, IpResources};
            let span: AsBlocks = [AsBlock::from((Asn::from_u32(64496), Asn::from_u32(64510)))].into_iter().collect();
            Some((IpResources::missing(), IpResources::missing(), AsResources::blocks(span)))
        } else { raw };
        let raw = if ee == "overclaim" {
            use rpki::repository::resources::{AsResources, IpResources};
            let (v4, _, asn) = trimmed_claim();
            Some(if kind == "aspa" { (IpResources::missing(), IpResources::missing(), asn) } else { (v4, IpResources::missing(), AsResources::missing()) })
        } else { raw };
        // "resbad": a second, well-formed element follows the block that covers the object; its bounds are swapped below
        let (asn, raw) = if ee == "resbad" && kind == "aspa" { (rc("blocks", &["a1", "a2"]), raw) }
            else if ee == "resbad" && kind == "roa" {
                use rpki::repository::resources::{Addr, IpBlock, IpBlocks, IpResources, AsResources};
                let lo = Addr::from_bits(0x0A00_0201u128 << 96);
                let hi = Addr::from_bits((0x0A00_037Fu128 << 96) | ((1u128 << 96) - 1));
                let b4: IpBlocks = [v4_atom("a1"), IpBlock::from((lo, hi))].into_iter().collect();
                let v6r = if fam == "v4+" { IpResources::blocks(ip_blocks("v6", &["a1".to_string()])) } else { IpResources::missing() };
                (asn, Some((IpResources::blocks(b4), v6r, AsResources::missing())))
            } else { (asn, raw) };
        let p = CertParams {
            kind: if ee == "isca" { "ca".into() } else { "ee".into() }, key: "e0".into(),
            // the "ipinherit" object is issued by the AS-only CA (key k1)
            sig_key: if ee == "overclaim" && kind == "aspa" { "k3".into() } else if ee == "wrongissuer" || ee == "overclaim" { "k2".into() } else if cover == "ipinherit" { "k1".into() } else { "k0".into() },
            aki: if ee == "overclaim" && kind == "aspa" { "k3".into() } else if ee == "akibad" || ee == "overclaim" { "k2".into() } else if cover == "ipinherit" { "k1".into() } else { "k0".into() },
            ski_ok: ee != "skibad", tamper: "none".into(), nb: 0, na: 2, policy: pol.into(), v4, v6, asn, serial: 4711, raw, validity: Some(validity),
        };
        let mut d = build_cert(&self.pki, &p, &self.router);
        if ee == "resbad" {
            // AS64500-AS64510 resp. 10.0.2.1-10.0.3.127 with the two bounds in each other's place (read back per RFC 3779 that is
            // 10.0.3.0-10.0.2.1), signed again by the issuer
            let (a, b): (&[u8], &[u8]) = if kind == "aspa" { (&[0x02, 0x03, 0x00, 0xFB, 0xF4], &[0x02, 0x03, 0x00, 0xFB, 0xFE]) }
                                         else { (&[0x03, 0x05, 0x00, 0x0A, 0x00, 0x02, 0x01], &[0x03, 0x05, 0x07, 0x0A, 0x00, 0x03, 0x00]) };
            let (ab, ba) = ([a, b].concat(), [b, a].concat());
            d = resign_with(&d, &self.pki, "k0", |tbs| {
                let pos = tbs.windows(ab.len()).position(|w| w == &ab[..]).expect("harness: the range to damage is in the certificate");
                tbs[pos..pos + ab.len()].copy_from_slice(&ba);
            });
        }
        self.ee_cache.insert(key, d.clone());
        d
    }
}

fn roa_content(cover: &str, fam: &str, pol: &str) -> Vec<u8> {
    let pfx = |addr: u128, len: u8, ml: Option<u8>| {
        let mut v = vec![der::bits128(addr, len)];
        if let Some(m) = ml { v.push(der::uint(m as u128)); }
        der::seq(&v)
    };
    // per family: two prefixes inside atom a1 (its lower half with a max length, its upper half), a prefix outside (atom a2),
    // the prefix one bit less specific than a1
    // (plus a host prefix - the longest prefix length its family has - with and without a max length)
    let inside = |six: bool| if six { vec![pfx(0x2001_0db8u128 << 96, 49, Some(50)), pfx(0x2001_0db8_0000_8000u128 << 64, 49, None), pfx((0x2001_0db8u128 << 96) | 0x77, 128, Some(128))] }
                             else { vec![pfx(0x0A00_0000u128 << 96, 25, Some(26)), pfx(0x0A00_0080u128 << 96, 25, None), pfx(0x0A00_004Du128 << 96, 32, None)] };
    // (under the trimming policy the certificate's validated IPv4 resources include atom a2, so "outside" moves on to 10.0.4.0/24)
    let outside = |six: bool| if six { pfx(0x2001_0db8_0002u128 << 80, 48, None) } else if pol == "trim" { pfx(0x0A00_0400u128 << 96, 24, None) } else { pfx(0x0A00_0200u128 << 96, 24, None) };
    // (the less specific prefix carries a max length that reaches down to the covered one: it is the prefix that has to be covered)
    let wider = |six: bool| if six { pfx(0x2001_0db8u128 << 96, 47, Some(48)) } else { pfx(0x0A00_0000u128 << 96, 23, Some(24)) };
    let six = fam.starts_with("v6");
    let mut main = inside(six);
    // the second piece the trimmed certificate ends up with (atom a2, 10.0.2.0/23): a prefix in there is covered as well
    if pol == "trim" && !six { main.push(pfx(0x0A00_0300u128 << 96, 24, None)); }
    if cover == "outside" { main.push(outside(six)); }
    // less specific than the certificate's block: shares addresses with it but is not contained
    if cover == "wider" { main.push(wider(six)); }
    // ("straddle": the prefixes stay as they are; the certificate holds three quarters of a1, so the upper half sticks out)
    let mut v4: Vec<Vec<u8>> = Vec::new();
    let mut v6: Vec<Vec<u8>> = Vec::new();
    if six { v6 = main } else { v4 = main }
    if fam.ends_with('+') {
        if six { v4 = inside(false); if pol == "trim" { v4.push(pfx(0x0A00_0300u128 << 96, 24, None)); } } else { v6 = inside(true) }
    }
    // a prefix of the family the certificate has no resources for
    if cover == "nores" {
        if six { v4 = vec![pfx(0x0A00_0000u128 << 96, 24, None)] } else { v6 = vec![pfx(0x2001_0db8u128 << 96, 48, None)] }
    }
    let mut fams = Vec::new();
    if !v4.is_empty() { fams.push(der::seq(&[der::octets(&[0, 1]), der::seq(&v4)])); }
    if !v6.is_empty() { fams.push(der::seq(&[der::octets(&[0, 2]), der::seq(&v6)])); }
    der::seq(&[der::uint(64500), der::seq(&fams)])
}
fn aspa_content(customer: u32) -> Vec<u8> {
    der::seq(&[der::ctx(0, true, &der::uint(1)), der::uint(customer as u128), der::seq(&[der::uint(65000), der::uint(65001)])])
}
fn mft_content() -> Vec<u8> {
    let h = sha256(b"x");
    let files = vec![der::seq(&[der::ia5(b"a.cer"), der::bitstring(0, &h)]), der::seq(&[der::ia5(b"b_1-2.roa"), der::bitstring(0, &h)])];
    der::seq(&[der::uint(7), der::gentime("20240101000000Z"), der::gentime("20991231235959Z"), der::oid(OID_SHA256), der::seq(&files)])
}

/// content-type OID (DER) such that the three standard attributes total exactly `target` bytes (None: the plain OID)
fn gen_oid_for(target: Option<usize>, md: &[u8], st: &[u8]) -> Vec<u8> {
    let mut arcs: Vec<u64> = OID_CT_GBR.to_vec();
    let Some(target) = target else { return der::oid(&arcs) };
    for _ in 0..400 {
        let ct = attribute(OID_AT_CONTENT_TYPE, der::oid(&arcs));
        let total = ct.len() + md.len() + st.len();
        if total == target {
            return der::oid(&arcs);
        }
        if total > target {
            break;
        }
        // grow by one content octet per appended small arc; far from the target in one jump (the three length fields around the
        // OID may each grow by a few octets on the way, hence the margin), then octet by octet
        let gap = target - total;
        for _ in 0..gap.saturating_sub(16).max(1) {
            arcs.push(1);
        }
    }
    panic!("cannot size the signed attributes to {target} bytes");
}

pub fn assemble(ctx: &mut Ctx, c: &Value) -> (Vec<u8>, bool) {
    let kind = c["kind"].as_str().unwrap();
    let f = &c["f"];
    let g = |k: &str| f[k].as_str().unwrap();
    let content = match kind {
        // (a caller may bring its own eContent: C14 wraps its manifest contents in real signed manifests)
        _ if c["content"].is_array() => c["content"].as_array().unwrap().iter().map(|x| x.as_u64().unwrap() as u8).collect(),
        "roa" => roa_content(g("cover"), c["fam"].as_str().unwrap_or("v4"), c["pol"].as_str().unwrap_or("refuse")),
        "aspa" => {
            let trim = c["pol"].as_str().unwrap_or("refuse") == "trim";
            aspa_content(match (g("cover") == "outside", trim) { (true, false) => 64497, (false, false) => 64496, (true, true) => 64498, (false, true) => 64505 })
        }
        "mft" => mft_content(),
        _ => b"generic RPKI signed object content".to_vec(),
    };
    let mut digest = sha256(&content);
    match g("digest") { "bad" => digest[5] ^= 0x20, "short" => digest.truncate(31), "long" => digest.push(0x11), "empty" => digest.clear(), _ => {} }
    let md = attribute(OID_AT_MESSAGE_DIGEST, der::octets(&digest));
    let st = attribute(OID_AT_SIGNING_TIME, der::utctime("240301120000Z"));
    let size = match c["size"].as_str().unwrap() { "small" => None, s => Some(s[1..].parse::<usize>().unwrap()) };
    let ct_oid = match kind {
        "roa" => der::oid(OID_CT_ROA),
        "aspa" => der::oid(OID_CT_ASPA),
        "mft" => der::oid(OID_CT_MFT),
        _ => gen_oid_for(size, &md, &st),
    };
    let ct_attr_oid = if g("ctattr") == "mismatch" { der::oid(&[1, 2, 840, 113549, 1, 9, 16, 1, 36]) } else { ct_oid.clone() };
    let ct = attribute(OID_AT_CONTENT_TYPE, ct_attr_oid);
    let mut attrs = vec![ct.clone(), md.clone(), st.clone()];
    match g("attrs") {
        "missing_ct" => { attrs.retain(|a| *a != ct); }
        "missing_md" => { attrs.retain(|a| *a != md); }
        "missing_st" => { attrs.retain(|a| *a != st); }
        "dup_ct" => attrs.push(ct.clone()),
        "dup_md" => attrs.push(md.clone()),
        "dup_st" => attrs.push(st.clone()),
        "unknown" => attrs.push(attribute(OID_AT_BINARY_SIGNING_TIME, der::uint(1_700_000_000))),
        _ => {}
    }
    attrs.sort(); // DER SET OF order
    let to_sign = attrs_to_sign(&attrs);
    use rpki::crypto::Signer;
    let skey = ctx.pki.key(if g("sig") == "wrongkey" { "e1" } else { "e0" });
    let mut signature = ctx.pki.signer.sign(&skey, rpki::crypto::RpkiSignatureAlgorithm::default(), &to_sign).unwrap().value().to_vec();
    if g("sig") == "bitflip" { let n = signature.len(); signature[n / 2] ^= 0x04; }
    if g("sig") == "stale" {
        // what is embedded is not what was signed: the signing time moved on by a second
        let st2 = attribute(OID_AT_SIGNING_TIME, der::utctime("240301120001Z"));
        for a in attrs.iter_mut() { if *a == st { *a = st2.clone(); } }
        attrs.sort();
    }
    let mut sid = ctx.pki.pubkey("e0").key_identifier().as_slice().to_vec();
    if g("ee") == "skibad" { sid[19] ^= 0x01; }          // the signer identifier follows the certificate's (wrong) identifier
    if g("sid") == "bad" { sid[0] ^= 0x80; }
    if g("sid") == "long" { sid.push(0x00); }
    let ee = ctx.ee_cert(kind, g("ee"), g("cover"), c["fam"].as_str().unwrap_or("v4"), c["pol"].as_str().unwrap_or("refuse"));
    let bytes = signed_data(&SignedDataParts { content_type: ct_oid, content, attrs, certs: vec![ee], crls: vec![], sid, signature, algform: c["alg"].as_str().unwrap_or("aa").to_string() });
    (bytes, g("crl") == "revoked")
}

fn verdict(ctx: &Ctx, kind: &str, bytes: Vec<u8>, revoked: bool) -> (bool, String) {
    verdict_under(ctx, &ctx.issuer, kind, bytes, revoked, true)
}

/// serial number of the EE certificates `assemble` embeds
const EE_SERIAL: u64 = 4711;

fn verdict_under(ctx: &Ctx, issuer: &ResourceCert, kind: &str, bytes: Vec<u8>, revoked: bool, strict: bool) -> (bool, String) {
    let all = verdicts_under(ctx, issuer, kind, bytes, revoked, strict);
    // the first route is the one that sees every facet
    let (_, ok, why) = all.into_iter().next().unwrap();
    (ok, why)
}

/// Every public route that decides acceptance of the object, as (route, verdict, reason).  Routes that take no CRL callback are
/// left out when the object's only flaw is a revoked EE certificate (`revoked`).
fn verdicts_under(ctx: &Ctx, issuer: &ResourceCert, kind: &str, bytes: Vec<u8>, revoked: bool, strict: bool) -> Vec<(&'static str, bool, String)> {
    let _ = ctx;
    // the callback is a revocation list: with `revoked` it lists the serial number of the embedded EE certificate and nothing else,
    // so its verdict depends on the certificate it is shown
    let crl = |c: &Cert| -> Result<(), ValidationError> {
        if revoked && c.serial_number() == rpki::repository::x509::Serial::from(EE_SERIAL) {
            Err(rpki::repository::error::VerificationError::new("certificate revoked").into())
        } else { Ok(()) }
    };
    let b = Bytes::from(bytes);
    let mut out: Vec<(&'static str, Result<(), String>)> = Vec::new();
    let dec = |e: &dyn std::fmt::Display| format!("decode: {e}");
    let val = |e: ValidationError| format!("validate: {e}");
    match kind {
        "roa" => out.push(("process", Roa::decode(b, strict).map_err(|e| dec(&e)).and_then(|o| o.process(issuer, strict, crl).map(|_| ()).map_err(val)))),
        "aspa" => out.push(("process", Aspa::decode(b, strict).map_err(|e| dec(&e)).and_then(|o| o.process(issuer, strict, crl).map(|_| ()).map_err(val)))),
        "mft" => {
            out.push(("validate_at", Manifest::decode(b.clone(), strict).map_err(|e| dec(&e)).and_then(|o| o.validate_at(issuer, strict, Time::now()).map(|_| ()).map_err(val))));
            out.push(("validate", Manifest::decode(b, strict).map_err(|e| dec(&e)).and_then(|o| o.validate(issuer, strict).map(|_| ()).map_err(val))));
        }
        _ => {
            out.push(("process", SignedObject::decode(b.clone(), strict).map_err(|e| dec(&e)).and_then(|o| o.process(issuer, strict, crl).map(|_| ()).map_err(val))));
            if !revoked {
                out.push(("validate_at", SignedObject::decode(b.clone(), strict).map_err(|e| dec(&e)).and_then(|o| o.validate_at(issuer, strict, Time::now()).map(|_| ()).map_err(val))));
                out.push(("validate", SignedObject::decode(b.clone(), strict).map_err(|e| dec(&e)).and_then(|o| o.validate(issuer, strict).map(|_| ()).map_err(val))));
                // decode_if_type: the caller names the content type it expects
                let ct = SignedObject::decode(b.clone(), strict).ok().map(|o| o.content_type().clone());
                if let Some(ct) = ct {
                    out.push(("decode_if_type+validate", SignedObject::decode_if_type(b, &ct, strict).map_err(|e| dec(&e)).and_then(|o| o.validate(issuer, strict).map(|_| ()).map_err(val))));
                }
            }
        }
    }
    out.into_iter().map(|(n, r)| match r { Ok(()) => (n, true, String::new()), Err(m) => (n, false, m) }).collect()
}

pub fn replay(args: &[String]) {
    let cases = read_cases(&args[0]);
    let mut s = Summary::new();
    let mut ctx = Ctx::new();
    for c in &cases {
        let kind = c["kind"].as_str().unwrap().to_string();
        let want = c["accept"].as_bool().unwrap();
        // strict and relaxed mode; the statement is silent about unknown signed attributes, which relaxed mode skips
        for strict in [true, false] {
            if !strict && !c["relaxed"].as_bool().unwrap_or(true) {
                continue;
            }
            let fam = c["fam"].as_str().unwrap_or("v4");
            let pol = c["pol"].as_str().unwrap_or("refuse");
            let mode = format!("{}{}{}", if kind == "roa" && fam != "v4" { format!(":{fam}") } else { String::new() }, if pol == "trim" { ":trim" } else { "" }, if strict { "" } else { ":relaxed" });
            let r = guarded(|| {
                let (bytes, revoked) = assemble(&mut ctx, c);
                let issuer = if c["f"]["cover"] == "ipinherit" { &ctx.issuer_as_only } else if c["f"]["ee"] == "overclaim" { if kind == "aspa" { &ctx.issuer_trimmed_as } else { &ctx.issuer_trimmed } } else { &ctx.issuer };
                verdicts_under(&ctx, issuer, &kind, bytes, revoked, strict)
            });
            match r {
                Err(m) => s.violation("panic", m, c.clone()),
                Ok(routes) => for (route, got, why) in routes {
                    let mode = if route == "process" || route == "validate_at" { mode.clone() } else { format!("{mode}:{route}") };
                    if got != want {
                        let devs: Vec<String> = c["f"].as_object().unwrap().iter().filter(|(_, v)| *v != "ok").map(|(k, v)| format!("{k}={}", v.as_str().unwrap())).collect();
                        if want {
                            s.violation(&format!("rejects-valid:{kind}:{}{mode}", c["size"].as_str().unwrap()), format!("a conforming {kind} object (attribute size class {}) is rejected{mode}: {why}", c["size"]), c.clone());
                        } else {
                            s.violation(&format!("accepts-invalid:{kind}:{}{mode}", devs.join("+")), format!("{kind} object with {devs:?} is accepted{mode}"), c.clone());
                        }
                    }
                }
            }
            s.evals(if strict { 0 } else { 1 });
        }
        s.eval_if(!want, &format!("{c}"));
        if s.samples.len() < 3 && s.evaluations % 401 == 9 { s.sample(c.clone()); }
    }
    s.print();
}

// --------------------------------------------------------------------------
// impl -> spec: coverage of random ROAs / ASPAs by random EE resources
// --------------------------------------------------------------------------
use crate::reschain::rank_map;
use rpki::repository::resources::{Addr, AsBlock, AsResources, Asn, IpBlock, IpBlocks, IpResources};

pub fn drive(args: &[String]) {
    let seed = arg_u64(args, "--seed", 1);
    let n = arg_u64(args, "--n", 150);
    let out = arg_val(args, "--out").expect("--out");
    let mut rng = Rng::new(seed);
    let mut t = TraceOut::create(&out);
    let mut s = Summary::new();
    let mut ctx = Ctx::new();
    // an issuer holding everything, so that only the EE certificate's own resources matter
    let now = Time::now();
    let wide = Validity::new(now - chrono::TimeDelta::try_days(30).unwrap(), now + chrono::TimeDelta::try_days(30).unwrap());
    let all = CertParams {
        kind: "ta".into(), key: "k0".into(), sig_key: "k0".into(), aki: "none".into(), ski_ok: true, tamper: "none".into(), nb: 0, na: 2, policy: "refuse".into(),
        v4: rc("missing", &[]), v6: rc("missing", &[]), asn: rc("missing", &[]), serial: 2, validity: Some(wide),
        raw: Some((IpResources::blocks(IpBlocks::all()), IpResources::blocks(IpBlocks::all()), AsResources::blocks(rpki::repository::resources::AsBlocks::all()))),
    };
    let issuer = Cert::decode(Bytes::from(build_cert(&ctx.pki, &all, &ctx.router))).unwrap().validate_ta_at(TalInfo::from_name("t".into()).into_arc(), true, now).unwrap();
    ctx.issuer = issuer;
    let short = Validity::new(now - chrono::TimeDelta::try_hours(24).unwrap(), now + chrono::TimeDelta::try_hours(24).unwrap());
    for i in 0..n {
        let r = guarded(|| -> Result<Value, String> {
            use rpki::crypto::Signer;
            let is_roa = rng.chance(3, 4);
            if is_roa {
                // v4 resources: a few random blocks; prefixes derived from them (inside, straddling the edge, outside)
                let mut blocks: Vec<(u32, u32)> = Vec::new();
                for _ in 0..rng.range(1, 4) {
                    let len = rng.range(8, 30) as u32;
                    let base = (rng.next() as u32) >> (32 - len) << (32 - len);
                    let top = base | (u32::MAX >> len);
                    blocks.push(match rng.below(3) { 0 => (base, top), 1 => (base, top - rng.below(((top - base) as u64).max(1)) as u32), _ => (base + rng.below(((top - base) as u64).max(1)) as u32, top) });
                }
                let mut prefixes: Vec<(u32, u8, Option<u8>)> = Vec::new();
                for _ in 0..rng.range(1, 3) {
                    let (lo, hi) = *rng.pick(&blocks);
                    let len = rng.range(16, 32) as u8;
                    let anchor = match rng.below(5) { 0 => lo, 1 => hi, 2 => lo.wrapping_sub(1), 3 => hi.wrapping_add(1), _ => lo + ((hi - lo) / 2) };
                    let addr = if len == 32 { anchor } else { anchor >> (32 - len) << (32 - len) };
                    prefixes.push((addr, len, if rng.chance(1, 2) { Some(rng.range(len as u64, 32) as u8) } else { None }));
                }
                let ipb: IpBlocks = blocks.iter().map(|&(lo, hi)| IpBlock::from((Addr::from_bits((lo as u128) << 96), Addr::from_bits(((hi as u128) << 96) | ((1u128 << 96) - 1))))).collect();
                let ee = CertParams {
                    kind: "ee".into(), key: "e0".into(), sig_key: "k0".into(), aki: "k0".into(), ski_ok: true, tamper: "none".into(), nb: 0, na: 2, policy: "refuse".into(),
                    v4: rc("missing", &[]), v6: rc("missing", &[]), asn: rc("missing", &[]), serial: 100 + i, validity: Some(short),
                    raw: Some((IpResources::blocks(ipb.clone()), IpResources::missing(), AsResources::missing())),
                };
                let ee_der = build_cert(&ctx.pki, &ee, &ctx.router);
                let items: Vec<Vec<u8>> = prefixes.iter().map(|&(a, l, ml)| { let mut v = vec![der::bits128((a as u128) << 96, l)]; if let Some(m) = ml { v.push(der::uint(m as u128)); } der::seq(&v) }).collect();
                let content = der::seq(&[der::uint(64500), der::seq(&[der::seq(&[der::octets(&[0, 1]), der::seq(&items)])])]);
                let md = attribute(OID_AT_MESSAGE_DIGEST, der::octets(&sha256(&content)));
                let st = attribute(OID_AT_SIGNING_TIME, der::utctime("240301120000Z"));
                let ct = attribute(OID_AT_CONTENT_TYPE, der::oid(OID_CT_ROA));
                let mut attrs = vec![ct, md, st];
                attrs.sort();
                let signature = ctx.pki.signer.sign(&ctx.pki.key("e0"), rpki::crypto::RpkiSignatureAlgorithm::default(), &attrs_to_sign(&attrs)).unwrap().value().to_vec();
                let bytes = signed_data(&SignedDataParts { content_type: der::oid(OID_CT_ROA), content, attrs, certs: vec![ee_der], crls: vec![], sid: ctx.pki.pubkey("e0").key_identifier().as_slice().to_vec(), signature, algform: ["aa", "nn", "na", "an"][(seed as usize + i as usize) % 4].to_string() });
                let (ok, why) = verdict(&ctx, "roa", bytes, false);
                if !ok && !why.contains("not covered") && !why.contains("covered by") {
                    return Err(format!("unexpected rejection: {why}"));
                }
                // compress: canonical resources as the library sees them + prefix ranges
                let canon: Vec<(u128, u128)> = ipb.iter().map(|b| (b.min().to_bits() >> 96, b.max().to_bits() >> 96)).collect();
                let pr: Vec<(u128, u128)> = prefixes.iter().map(|&(a, l, _)| (a as u128, (a | if l == 32 { 0 } else { u32::MAX >> l }) as u128)).collect();
                let vals: Vec<u128> = canon.iter().chain(pr.iter()).flat_map(|&(a, b)| [a, b]).collect();
                let (vs, rk) = rank_map(0, u32::MAX as u128, vals).ok_or("too many values")?;
                let r = |v: u128| rk[vs.binary_search(&v).unwrap()];
                let ch = |u: &Vec<(u128, u128)>| Value::Array(u.iter().map(|&(a, b)| json!([r(a), r(b)])).collect());
                Ok(json!({"ev": "roa", "res": ch(&canon), "prefixes": ch(&pr), "ok": ok}))
            } else {
                let mut ranges: Vec<(u32, u32)> = Vec::new();
                for _ in 0..rng.range(1, 3) { let a = rng.next() as u32; let b = a.saturating_add(rng.below(20) as u32); ranges.push((a, b)); }
                let (lo, hi) = *rng.pick(&ranges);
                let customer = match rng.below(5) { 0 => lo, 1 => hi, 2 => lo.wrapping_sub(1), 3 => hi.wrapping_add(1), _ => lo + (hi - lo) / 2 };
                let asb: rpki::repository::resources::AsBlocks = ranges.iter().map(|&(a, b)| AsBlock::from((Asn::from_u32(a), Asn::from_u32(b)))).collect();
                let ee = CertParams {
                    kind: "ee".into(), key: "e0".into(), sig_key: "k0".into(), aki: "k0".into(), ski_ok: true, tamper: "none".into(), nb: 0, na: 2, policy: "refuse".into(),
                    v4: rc("missing", &[]), v6: rc("missing", &[]), asn: rc("missing", &[]), serial: 100 + i, validity: Some(short),
                    raw: Some((IpResources::missing(), IpResources::missing(), AsResources::blocks(asb.clone()))),
                };
                let ee_der = build_cert(&ctx.pki, &ee, &ctx.router);
                let prov = if customer == 65000 { 65001 } else { 65000 };
                let content = der::seq(&[der::ctx(0, true, &der::uint(1)), der::uint(customer as u128), der::seq(&[der::uint(prov)])]);
                let md = attribute(OID_AT_MESSAGE_DIGEST, der::octets(&sha256(&content)));
                let st = attribute(OID_AT_SIGNING_TIME, der::utctime("240301120000Z"));
                let ct = attribute(OID_AT_CONTENT_TYPE, der::oid(OID_CT_ASPA));
                let mut attrs = vec![ct, md, st];
                attrs.sort();
                let signature = ctx.pki.signer.sign(&ctx.pki.key("e0"), rpki::crypto::RpkiSignatureAlgorithm::default(), &attrs_to_sign(&attrs)).unwrap().value().to_vec();
                let bytes = signed_data(&SignedDataParts { content_type: der::oid(OID_CT_ASPA), content, attrs, certs: vec![ee_der], crls: vec![], sid: ctx.pki.pubkey("e0").key_identifier().as_slice().to_vec(), signature, algform: ["aa", "nn", "na", "an"][(seed as usize + i as usize) % 4].to_string() });
                let (ok, why) = verdict(&ctx, "aspa", bytes, false);
                if !ok && !why.contains("customer AS not covered") {
                    return Err(format!("unexpected rejection: {why}"));
                }
                let canon: Vec<(u128, u128)> = asb.iter().map(|b| (b.min().into_u32() as u128, b.max().into_u32() as u128)).collect();
                let vals: Vec<u128> = canon.iter().flat_map(|&(a, b)| [a, b]).chain([customer as u128]).collect();
                let (vs, rk) = rank_map(0, u32::MAX as u128, vals).ok_or("too many values")?;
                let r = |v: u128| rk[vs.binary_search(&v).unwrap()];
                Ok(json!({"ev": "aspa", "res": Value::Array(canon.iter().map(|&(a, b)| json!([r(a), r(b)])).collect()), "customer": r(customer as u128), "ok": ok}))
            }
        });
        match r {
            Ok(Ok(ev)) => { t.ev(ev); s.eval(Some(&format!("{i}"))); }
            Ok(Err(m)) => s.violation("trace:unexpected", m, json!({"seed": seed, "i": i})),
            Err(m) => s.violation("trace:panic", m, json!({"seed": seed, "i": i})),
        }
    }
    s.sample(json!({"seed": seed, "objects": n}));
    s.set("events", json!(t.finish()));
    s.print();
}
