//! Shared PKI scaffolding: keys, certificates, realised resource atoms.
use bytes::Bytes;
use rpki::crypto::keys::{PublicKey, PublicKeyFormat};
use rpki::crypto::signature::{Signature, SignatureAlgorithm};
use rpki::crypto::signer::{KeyError, Signer, SigningError};
use rpki::crypto::softsigner::{KeyId, SoftSigner};
use rpki::repository::cert::{Cert, ExtendedKeyUsage, KeyUsage, Overclaim, TbsCert};
use rpki::repository::resources::{AsBlock, AsBlocks, AsResources, Asn, IpBlock, IpBlocks, IpResources, Prefix};
use rpki::repository::x509::{Name, Serial, Time, Validity};
use rpki::uri;
use std::collections::HashMap;
use std::str::FromStr;
use std::sync::atomic::{AtomicUsize, Ordering};

/// A signer whose "one-off" keys come from a small pre-generated pool: building a signed
/// object then costs a signature, not an RSA key generation.
pub struct PoolSigner {
    pub inner: SoftSigner,
    pool: Vec<KeyId>,
    next: AtomicUsize,
    /// what the next rand() call of that length returns instead of random octets (the octets a signer hands out are an input
    /// of whatever the library builds from them, e.g. serial numbers)
    script: std::sync::Mutex<Option<Vec<u8>>>,
}
impl PoolSigner {
    pub fn new(pool_size: usize) -> Self {
        let inner = SoftSigner::new();
        let pool = (0..pool_size).map(|_| inner.create_key(PublicKeyFormat::Rsa).unwrap()).collect();
        PoolSigner { inner, pool, next: AtomicUsize::new(0), script: Default::default() }
    }
    pub fn script_rand(&self, octets: Option<Vec<u8>>) {
        *self.script.lock().unwrap() = octets;
    }
    /// the pool key the next sign_one_off will use
    pub fn peek_one_off(&self) -> KeyId {
        self.pool[self.next.load(Ordering::SeqCst) % self.pool.len()]
    }
}
impl Signer for PoolSigner {
    type KeyId = KeyId;
    type Error = std::io::Error;
    fn create_key(&self, algorithm: PublicKeyFormat) -> Result<KeyId, Self::Error> {
        self.inner.create_key(algorithm)
    }
    fn get_key_info(&self, key: &KeyId) -> Result<PublicKey, KeyError<Self::Error>> {
        self.inner.get_key_info(key)
    }
    fn destroy_key(&self, key: &KeyId) -> Result<(), KeyError<Self::Error>> {
        self.inner.destroy_key(key)
    }
    fn sign<Alg: SignatureAlgorithm, D: AsRef<[u8]> + ?Sized>(&self, key: &KeyId, algorithm: Alg, data: &D) -> Result<Signature<Alg>, SigningError<Self::Error>> {
        self.inner.sign(key, algorithm, data)
    }
    fn sign_one_off<Alg: SignatureAlgorithm, D: AsRef<[u8]> + ?Sized>(&self, algorithm: Alg, data: &D) -> Result<(Signature<Alg>, PublicKey), Self::Error> {
        let k = self.pool[self.next.fetch_add(1, Ordering::SeqCst) % self.pool.len()];
        let sig = self.inner.sign(&k, algorithm, data).map_err(|e| std::io::Error::other(e.to_string()))?;
        let info = self.inner.get_key_info(&k).map_err(|e| std::io::Error::other(e.to_string()))?;
        Ok((sig, info))
    }
    fn rand(&self, target: &mut [u8]) -> Result<(), Self::Error> {
        let mut s = self.script.lock().unwrap();
        if s.as_ref().map(|v| v.len()) == Some(target.len()) {
            target.copy_from_slice(&s.take().unwrap());
            return Ok(());
        }
        self.inner.rand(target)
    }
}

pub struct Pki {
    pub signer: PoolSigner,
    /// model key names "k0", "k1", "k2", ... -> signer keys
    pub keys: HashMap<String, KeyId>,
}

/// times 0, 1, 2 of the models (whole seconds, one hour apart) and far ends
pub fn time_of(t: i64) -> Time {
    // the epoch moves the models' instants next to the UTCTime / GeneralizedTime boundaries: 1 = 1950 (two-digit year "50", the
    // pivot), 2 = the last hour of 2049 (instant 0 is written as UTCTime, instants 1 and 2 as GeneralizedTime)
    let base = match EPOCH.load(std::sync::atomic::Ordering::SeqCst) {
        1 => Time::utc(1950, 3, 1, 12, 0, 0),
        2 => Time::utc(2049, 12, 31, 23, 0, 0),
        // 3 = around the wall clock: instant 1 lies a few seconds before the start of this process, so that for the next hour
        // "now" is strictly between instants 1 and 2 (for the entry points that read the clock themselves)
        3 => return wall_base() + chrono::TimeDelta::try_hours(t - 1).unwrap(),
        _ => Time::utc(2024, 3, 1, 12, 0, 0),
    };
    base + chrono::TimeDelta::try_hours(t).unwrap()
}
pub static EPOCH: std::sync::atomic::AtomicUsize = std::sync::atomic::AtomicUsize::new(0);
static WALL: std::sync::OnceLock<(Time, std::time::Instant)> = std::sync::OnceLock::new();
/// whole-second instant three seconds before the first call
pub fn wall_base() -> Time {
    WALL.get_or_init(|| {
        let n = Time::now();
        let whole = Time::utc(chrono::Datelike::year(&*n), chrono::Datelike::month(&*n), chrono::Datelike::day(&*n),
                              chrono::Timelike::hour(&*n), chrono::Timelike::minute(&*n), chrono::Timelike::second(&*n));
        (whole - chrono::TimeDelta::try_seconds(3).unwrap(), std::time::Instant::now())
    }).0
}
/// the wall-clock epoch may be used while the real clock is safely inside (instant 1, instant 2)
pub fn wall_usable() -> bool {
    let _ = wall_base();
    WALL.get().unwrap().1.elapsed() < std::time::Duration::from_secs(45 * 60)
}

pub fn rsync(s: &str) -> uri::Rsync {
    uri::Rsync::from_str(s).unwrap()
}

impl Pki {
    pub fn new(nkeys: usize) -> Self {
        let signer = PoolSigner::new(3);
        let mut keys = HashMap::new();
        for i in 0..nkeys {
            keys.insert(format!("k{i}"), signer.create_key(PublicKeyFormat::Rsa).unwrap());
        }
        // end-entity keys: e0 signs objects, e1 is "some other key"
        for i in 0..2 {
            keys.insert(format!("e{i}"), signer.create_key(PublicKeyFormat::Rsa).unwrap());
        }
        Pki { signer, keys }
    }
    pub fn key(&self, name: &str) -> KeyId {
        self.keys[name]
    }
    pub fn pubkey(&self, name: &str) -> PublicKey {
        self.signer.get_key_info(&self.keys[name]).unwrap()
    }
}

// ---- resource atoms: pairwise disjoint, non-adjacent concrete blocks per family
pub fn v4_atom(a: &str) -> IpBlock {
    match a {
        "a1" => Prefix::from_v4_str("10.0.0.0/24").unwrap().into(),
        "a2" => Prefix::from_v4_str("10.0.2.0/23").unwrap().into(),
        _ => IpBlock::from_v4_str("192.168.0.3-192.168.0.9").unwrap(),
    }
}
pub fn v6_atom(a: &str) -> IpBlock {
    match a {
        "a1" => Prefix::from_v6_str("2001:db8::/48").unwrap().into(),
        "a2" => Prefix::from_v6_str("2001:db8:2::/48").unwrap().into(),
        _ => Prefix::from_v6_str("ffff:ffff:ffff:ffff:ffff:ffff:ffff:ff00/120").unwrap().into(),
    }
}
pub fn as_atom(a: &str) -> AsBlock {
    match a {
        "a1" => AsBlock::Id(Asn::from_u32(64496)),
        "a2" => AsBlock::from((Asn::from_u32(64500), Asn::from_u32(64510))),
        _ => AsBlock::from((Asn::from_u32(u32::MAX - 1), Asn::from_u32(u32::MAX))),
    }
}
pub fn ip_blocks(fam: &str, atoms: &[String]) -> IpBlocks {
    atoms.iter().map(|a| if fam == "v4" { v4_atom(a) } else { v6_atom(a) }).collect()
}
pub fn as_blocks(atoms: &[String]) -> AsBlocks {
    atoms.iter().map(|a| as_atom(a)).collect()
}
/// which atoms a validated block set consists of (None if it is not a union of atoms)
pub fn atoms_of_ip(fam: &str, b: &IpBlocks) -> Option<Vec<String>> {
    let mut got = Vec::new();
    let mut rest = b.clone();
    for a in ["a1", "a2", "a3"] {
        let one: IpBlocks = [if fam == "v4" { v4_atom(a) } else { v6_atom(a) }].into_iter().collect();
        if b.contains(&one) {
            got.push(a.to_string());
            rest = rest.difference(&one);
        }
    }
    if rest.is_empty() { Some(got) } else { None }
}
pub fn atoms_of_as(b: &AsBlocks) -> Option<Vec<String>> {
    let mut got = Vec::new();
    let mut rest = b.clone();
    for a in ["a1", "a2", "a3"] {
        let one: AsBlocks = [as_atom(a)].into_iter().collect();
        if b.contains(&one) {
            got.push(a.to_string());
            rest = rest.difference(&one);
        }
    }
    if rest.is_empty() { Some(got) } else { None }
}

#[derive(Clone, Debug)]
pub struct ResChoice {
    pub c: String,
    pub s: Vec<String>,
}

#[derive(Clone, Debug)]
pub struct CertParams {
    pub kind: String, // ta | ca | ee | router
    pub key: String,
    pub sig_key: String,
    pub aki: String, // key name or "none"
    pub ski_ok: bool,
    pub tamper: String, // none | sigbit | tbsbyte
    pub nb: i64,
    pub na: i64,
    pub policy: String,
    pub v4: ResChoice,
    pub v6: ResChoice,
    pub asn: ResChoice,
    pub serial: u64,
    /// explicit resources instead of atoms (trace driver)
    pub raw: Option<(IpResources, IpResources, AsResources)>,
    /// explicit validity instead of nb/na (objects validated against the wall clock)
    pub validity: Option<Validity>,
}

fn ip_res(fam: &str, r: &ResChoice) -> IpResources {
    match r.c.as_str() {
        "missing" => IpResources::missing(),
        "inherit" => IpResources::inherit(),
        _ => IpResources::blocks(ip_blocks(fam, &r.s)),
    }
}
fn as_res(r: &ResChoice) -> AsResources {
    match r.c.as_str() {
        "missing" => AsResources::missing(),
        "inherit" => AsResources::inherit(),
        _ => AsResources::blocks(as_blocks(&r.s)),
    }
}

/// Subject name and key of the repository's sample router certificate (ECDSA P-256).
pub fn router_identity() -> (Name, PublicKey) {
    let data = std::fs::read("/repo/test-data/repository/router.cer").expect("router.cer");
    let cert = Cert::decode(Bytes::from(data)).expect("decode router.cer");
    (cert.subject().clone(), cert.subject_public_key_info().clone())
}

/// Build (and sign) the certificate described by `p`; tampering the builder cannot express
/// is applied to the DER afterwards.  Returns the DER bytes.
pub fn build_cert(pki: &Pki, p: &CertParams, router: &(Name, PublicKey)) -> Vec<u8> {
    use bcder::encode::Values;
    use bcder::Mode;
    let issuer_pub = pki.pubkey(&p.sig_key);
    let (subject_name, subject_key) = if p.kind == "router" { (Some(router.0.clone()), router.1.clone()) } else { (None, pki.pubkey(&p.key)) };
    let mut tbs = TbsCert::new(
        Serial::from(p.serial),
        issuer_pub.to_subject_name(),
        p.validity.unwrap_or_else(|| Validity::new(time_of(p.nb), time_of(p.na))),
        subject_name,
        subject_key,
        if p.kind == "ta" || p.kind == "ca" { KeyUsage::Ca } else { KeyUsage::Ee },
        if p.policy == "trim" { Overclaim::Trim } else { Overclaim::Refuse },
    );
    if p.kind == "ta" || p.kind == "ca" {
        tbs.set_basic_ca(Some(true));
        tbs.set_ca_repository(Some(rsync("rsync://repo.example/m/ca/")));
        tbs.set_rpki_manifest(Some(rsync("rsync://repo.example/m/ca/x.mft")));
    }
    if p.kind != "ta" {
        tbs.set_crl_uri(Some(rsync("rsync://repo.example/m/issuer.crl")));
        tbs.set_ca_issuer(Some(rsync("rsync://repo.example/m/issuer.cer")));
    }
    if p.kind == "ee" {
        tbs.set_signed_object(Some(rsync("rsync://repo.example/m/ca/obj.roa")));
    }
    if p.kind == "router" {
        tbs.set_extended_key_usage(Some(ExtendedKeyUsage::create_router()));
    }
    if p.aki == "long" {
        tbs.set_authority_key_identifier(Some(pki.pubkey(&p.sig_key).key_identifier()));
    } else if p.aki != "none" {
        tbs.set_authority_key_identifier(Some(pki.pubkey(&p.aki).key_identifier()));
    }
    match &p.raw {
        Some((a, b, c)) => {
            tbs.set_v4_resources(a.clone());
            tbs.set_v6_resources(b.clone());
            tbs.set_as_resources(c.clone());
        }
        None => {
            tbs.set_v4_resources(ip_res("v4", &p.v4));
            tbs.set_v6_resources(ip_res("v6", &p.v6));
            tbs.set_as_resources(as_res(&p.asn));
        }
    }
    let ski = tbs.subject_key_identifier();
    let cert = tbs.into_cert(&pki.signer, &pki.key(&p.sig_key)).unwrap();
    let mut der = cert.to_captured().into_bytes().to_vec();
    if !p.ski_ok {
        // patch the SKI inside the TBS and sign the patched TBS again with the same key: one bit wrong, or (every other case) the
        // right twenty octets followed by one more
        let long = (p.nb + p.na + p.serial as i64) % 2 == 1;
        der = resign_with(&der, pki, &p.sig_key, |tbs| {
            let pat = ski.as_slice();
            if long {
                *tbs = lengthen_octets(tbs, pat).expect("SKI in TBS");
            } else {
                let pos = tbs.windows(20).position(|w| w == pat).expect("SKI in TBS");
                tbs[pos + 19] ^= 0x01;
            }
        });
    }
    if p.aki == "long" {
        // the issuer's identifier followed by one more octet (re-signed)
        let id = pki.pubkey(&p.sig_key).key_identifier();
        der = resign_with(&der, pki, &p.sig_key, |tbs| {
            // the AKI is the second occurrence when issuer and subject key are the same (trust anchors), otherwise the only one
            *tbs = lengthen_octets(tbs, id.as_slice()).expect("AKI in TBS");
        });
    }
    match p.tamper.as_str() {
        "sigbit" => {
            let n = der.len();
            der[n - 5] ^= 0x10;
        }
        "tbsbyte" => {
            // flip a bit of the serial number (first INTEGER after the version) without re-signing
            let pos = der.windows(3).position(|w| w == [0xa0, 0x03, 0x02]).expect("version") + 5;
            der[pos + 2] ^= 0x01;
        }
        _ => {}
    }
    let _ = Mode::Der;
    der
}

/// split Certificate ::= SEQUENCE { tbs, alg, sig } , let `f` edit the TBS, re-sign, reassemble
pub fn resign_with(der: &[u8], pki: &Pki, sig_key: &str, f: impl FnOnce(&mut Vec<u8>)) -> Vec<u8> {
    let (_, outer_hl, _) = tlv_at(der, 0);
    let (_, hl, len) = tlv_at(der, outer_hl);
    let mut tbs = der[outer_hl..outer_hl + hl + len].to_vec();
    f(&mut tbs);
    let alg_start = outer_hl + hl + len;
    let (_, ahl, alen) = tlv_at(der, alg_start);
    let alg = &der[alg_start..alg_start + ahl + alen];
    let sig = pki.signer.sign(&pki.key(sig_key), rpki::crypto::RpkiSignatureAlgorithm::default(), &tbs).unwrap();
    let sigbits = crate::der::bitstring(0, sig.value().as_ref());
    crate::der::seq(&[tbs, alg.to_vec(), sigbits])
}

/// (tag, header length, content length) of the TLV starting at `pos`
pub fn tlv_at(b: &[u8], pos: usize) -> (u8, usize, usize) {
    let tag = b[pos];
    let l = b[pos + 1];
    if l < 0x80 {
        (tag, 2, l as usize)
    } else {
        let n = (l & 0x7f) as usize;
        let mut len = 0usize;
        for i in 0..n {
            len = (len << 8) | b[pos + 2 + i] as usize;
        }
        (tag, 2 + n, len)
    }
}


/// the DER structure `der` with the LAST primitive value equal to `needle` made one octet longer (all enclosing lengths follow)
pub fn lengthen_octets(der: &[u8], needle: &[u8]) -> Option<Vec<u8>> {
    use crate::tlv::{self, Body, Tlv};
    fn walk(t: &mut Tlv, needle: &[u8], hit: &mut Option<*mut Vec<u8>>) {
        match &mut t.body {
            Body::Prim(v) => { if v.as_slice() == needle { *hit = Some(v as *mut Vec<u8>); } }
            Body::Cons(kids) | Body::Encap(_, kids) => for k in kids.iter_mut() { walk(k, needle, hit); },
        }
    }
    let mut root = tlv::parse(der)?;
    let mut hit = None;
    walk(&mut root, needle, &mut hit);
    let p = hit?;
    // (the pointer stays valid: the tree is not restructured between the walk and this push)
    unsafe { (*p).push(0x00); }
    Some(root.encode())
}

/// A certificate under construction whose resources nobody has touched yet (one key for the whole process).
pub fn blank_tbs() -> TbsCert {
    thread_local! { static PK: PublicKey = { let s = SoftSigner::new(); let k = s.create_key(PublicKeyFormat::Rsa).unwrap(); s.get_key_info(&k).unwrap() }; }
    let pk = PK.with(|p| p.clone());
    TbsCert::new(Serial::from(1u64), pk.to_subject_name(), Validity::new(time_of(0), time_of(1)), None, pk, KeyUsage::Ca, Overclaim::Refuse)
}

/// The same instant obtained the k-th way the API offers: as given, through Time::new, and parsed from RFC 3339 text written in
/// UTC and in two other offsets (an instant does not depend on the zone it is written in).
pub fn respell(t: Time, k: usize) -> Time {
    use chrono::{FixedOffset, SecondsFormat};
    let text = |secs: i32| (*t).with_timezone(&FixedOffset::east_opt(secs).unwrap()).to_rfc3339_opts(SecondsFormat::Millis, secs == 0);
    let got = match k % 5 {
        0 => return t,
        1 => Time::new(*t),
        2 => Time::from_str(&text(0)).expect("RFC 3339 text in UTC"),
        3 => Time::from_str(&text(7200)).expect("RFC 3339 text at +02:00"),
        _ => Time::from_str(&text(-5400)).expect("RFC 3339 text at -01:30"),
    };
    got
}

/// A signer whose keys come in the usual RSA sizes (SoftSigner makes 2048-bit keys only; nothing in RFC 6492 / 8181 / 8183 says
/// an identity key or a one-off key has that size).
pub struct SizedSigner {
    keys: std::sync::Mutex<Vec<std::sync::Arc<aws_lc_rs::rsa::KeyPair>>>,
    pub one_off: std::sync::Mutex<std::sync::Arc<aws_lc_rs::rsa::KeyPair>>,
    rng: aws_lc_rs::rand::SystemRandom,
}
impl SizedSigner {
    pub fn new(one_off: aws_lc_rs::rsa::KeySize) -> Self {
        SizedSigner { keys: Default::default(), one_off: std::sync::Mutex::new(std::sync::Arc::new(aws_lc_rs::rsa::KeyPair::generate(one_off).unwrap())),
                      rng: aws_lc_rs::rand::SystemRandom::new() }
    }
    pub fn add_key(&self, size: aws_lc_rs::rsa::KeySize) -> usize {
        let mut k = self.keys.lock().unwrap();
        k.push(std::sync::Arc::new(aws_lc_rs::rsa::KeyPair::generate(size).unwrap()));
        k.len() - 1
    }
    fn info(key: &aws_lc_rs::rsa::KeyPair) -> PublicKey {
        use aws_lc_rs::signature::KeyPair as _;
        let der = aws_lc_rs::encoding::AsDer::<aws_lc_rs::encoding::PublicKeyX509Der>::as_der(key.public_key()).unwrap();
        PublicKey::decode(Bytes::copy_from_slice(der.as_ref())).unwrap()
    }
    fn raw_sign<Alg: SignatureAlgorithm>(&self, key: &aws_lc_rs::rsa::KeyPair, alg: Alg, data: &[u8]) -> Signature<Alg> {
        let mut sig = vec![0; key.public_modulus_len()];
        key.sign(&aws_lc_rs::signature::RSA_PKCS1_SHA256, &self.rng, data, &mut sig).unwrap();
        Signature::new(alg, sig.into())
    }
}
impl Signer for SizedSigner {
    type KeyId = usize;
    type Error = std::io::Error;
    fn create_key(&self, _: PublicKeyFormat) -> Result<usize, Self::Error> { Ok(self.add_key(aws_lc_rs::rsa::KeySize::Rsa2048)) }
    fn get_key_info(&self, key: &usize) -> Result<PublicKey, KeyError<Self::Error>> {
        self.keys.lock().unwrap().get(*key).map(|k| Self::info(k)).ok_or(KeyError::KeyNotFound)
    }
    fn destroy_key(&self, _: &usize) -> Result<(), KeyError<Self::Error>> { Ok(()) }
    fn sign<Alg: SignatureAlgorithm, D: AsRef<[u8]> + ?Sized>(&self, key: &usize, algorithm: Alg, data: &D) -> Result<Signature<Alg>, SigningError<Self::Error>> {
        let key = self.keys.lock().unwrap().get(*key).cloned().ok_or(SigningError::KeyNotFound)?;
        Ok(self.raw_sign(&key, algorithm, data.as_ref()))
    }
    fn sign_one_off<Alg: SignatureAlgorithm, D: AsRef<[u8]> + ?Sized>(&self, algorithm: Alg, data: &D) -> Result<(Signature<Alg>, PublicKey), Self::Error> {
        let key = self.one_off.lock().unwrap().clone();
        Ok((self.raw_sign(&key, algorithm, data.as_ref()), Self::info(&key)))
    }
    fn rand(&self, target: &mut [u8]) -> Result<(), Self::Error> {
        use aws_lc_rs::rand::SecureRandom;
        self.rng.fill(target).map_err(|_| std::io::Error::other("rng"))
    }
}
