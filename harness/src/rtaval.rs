//! Beyond the listed properties — binds spec/RtaValidation.tla to rpki::repository::rta::Validation: every behaviour of the
//! model (an attestation, Validation::new_at, supply_ca / supply_tal in some order, finalize) is stepped through the real
//! object and the result of every public call is compared.
use crate::common::*;
use crate::pki::*;
use bytes::Bytes;
use rpki::crypto::keys::PublicKeyFormat;
use rpki::crypto::signer::Signer;
use rpki::crypto::{DigestAlgorithm, RpkiSignatureAlgorithm};
use rpki::repository::cert::{Cert, ResourceCert};
use rpki::repository::crl::{Crl, CrlEntry, TbsCertList};
use rpki::repository::rta::{AttestationBuilder, Rta, Validation};
use rpki::repository::tal::{Tal, TalInfo};
use rpki::repository::x509::Serial;
use serde_json::{json, Value};
use std::collections::HashMap;

const MODES: [&str; 4] = ["v4", "v6", "as", "all"];

struct World {
    pki: Pki,
    router: (rpki::repository::x509::Name, rpki::crypto::keys::PublicKey),
    /// (mode, key) -> the CA certificate the caller holds, validated under the trust anchor
    ext: HashMap<(String, String), ResourceCert>,
    tals: HashMap<String, Tal>,
    certs: HashMap<String, Cert>,
    crls: HashMap<String, Crl>,
}

fn atoms(v: &Value) -> Vec<String> {
    v.as_array().map(|a| a.iter().map(|x| x.as_str().unwrap().to_string()).collect()).unwrap_or_default()
}

fn choice(on: bool, inh: bool, s: &[String]) -> ResChoice {
    if !on || (!inh && s.is_empty()) {
        ResChoice { c: "missing".into(), s: vec![] }
    } else if inh {
        ResChoice { c: "inherit".into(), s: vec![] }
    } else {
        ResChoice { c: "blocks".into(), s: s.to_vec() }
    }
}

fn params(kind: &str, key: &str, sig: &str, aki: &str, serial: u64, live: bool, trim: bool, mode: &str, inh: bool, s: &[String]) -> CertParams {
    CertParams {
        kind: kind.into(), key: key.into(), sig_key: sig.into(), aki: aki.into(), ski_ok: true, tamper: "none".into(),
        nb: if live { 0 } else { -5 }, na: if live { 2 } else { -3 },
        policy: if trim { "trim".into() } else { "refuse".into() },
        v4: choice(mode == "v4" || mode == "all", inh, s),
        v6: choice(mode == "v6" || mode == "all", inh, s),
        asn: choice(mode == "as" || mode == "all", inh, s),
        serial, raw: None, validity: None,
    }
}

impl World {
    fn new() -> Self {
        let mut pki = Pki::new(0);
        for k in ["t", "x1", "x2", "y", "m1", "m2", "m3", "r", "e1", "e2", "e3"] {
            let id = pki.signer.create_key(PublicKeyFormat::Rsa).unwrap();
            pki.keys.insert(k.to_string(), id);
        }
        let router = router_identity();
        let now = time_of(1);
        let all: Vec<String> = ["a1", "a2", "a3"].iter().map(|s| s.to_string()).collect();
        let mut ext = HashMap::new();
        for mode in MODES {
            let ta = Cert::decode(Bytes::from(build_cert(&pki, &params("ta", "t", "t", "none", 1, true, false, "all", false, &all), &router))).unwrap()
                .validate_ta_at(TalInfo::from_name("t".into()).into_arc(), true, now).unwrap();
            for (k, res) in [("x1", vec!["a1", "a2"]), ("x2", vec!["a2", "a3"]), ("y", vec!["a1", "a2", "a3"])] {
                let res: Vec<String> = res.iter().map(|s| s.to_string()).collect();
                let c = Cert::decode(Bytes::from(build_cert(&pki, &params("ca", k, "t", "t", 2, true, false, mode, false, &res), &router))).unwrap()
                    .validate_ca_at(&ta, true, now).unwrap();
                ext.insert((mode.to_string(), k.to_string()), c);
            }
        }
        let mut tals = HashMap::new();
        for k in ["t", "r", "m1"] {
            use bcder::encode::Values;
            let der = pki.pubkey(k).encode_ref().to_captured(bcder::Mode::Der).into_bytes();
            let b64 = base64::Engine::encode(&base64::engine::general_purpose::STANDARD, &der);
            let text = format!("rsync://repo.example/m/{k}.cer\n\n{b64}\n");
            tals.insert(k.to_string(), Tal::read_named(k.into(), &mut text.as_bytes()).unwrap());
        }
        World { pki, router, ext, tals, certs: HashMap::new(), crls: HashMap::new() }
    }

    fn cert(&mut self, c: &Value, mode: &str) -> Cert {
        let k = format!("{mode}|{c}");
        if let Some(x) = self.certs.get(&k) {
            return x.clone();
        }
        let s = atoms(&c["s"]);
        let p = params(if c["ca"].as_bool().unwrap() { "ca" } else { "ee" }, c["key"].as_str().unwrap(), c["sig"].as_str().unwrap(), c["aki"].as_str().unwrap(),
                       c["serial"].as_u64().unwrap(), c["live"].as_bool().unwrap(), c["trim"].as_bool().unwrap(), mode, c["inh"].as_bool().unwrap(), &s);
        let cert = Cert::decode(Bytes::from(build_cert(&self.pki, &p, &self.router))).expect("built certificate decodes");
        self.certs.insert(k, cert.clone());
        cert
    }

    fn crl(&mut self, c: &Value) -> Crl {
        let k = c.to_string();
        if let Some(x) = self.crls.get(&k) {
            return x.clone();
        }
        let by = c["by"].as_str().unwrap();
        let entries: Vec<CrlEntry> = c["revoked"].as_array().unwrap().iter().map(|s| CrlEntry::new(Serial::from(s.as_u64().unwrap()), time_of(0))).collect();
        let crl = TbsCertList::new(RpkiSignatureAlgorithm::default(), self.pki.pubkey(by).to_subject_name(), time_of(0), time_of(2), entries,
                                   self.pki.pubkey(by).key_identifier(), Serial::from(7u64))
            .into_crl(&self.pki.signer, &self.pki.key(by)).unwrap();
        self.crls.insert(k, crl.clone());
        crl
    }

    /// the attestation of `w` over the atoms `att`, encoded and decoded again
    fn build(&mut self, w: &Value, att: &[String], mode: &str, cas_first: bool) -> Rta {
        let digest = DigestAlgorithm::default().digest(b"the attested document");
        let mut ab = AttestationBuilder::new(DigestAlgorithm::default(), digest.into());
        for k in w["subj"].as_array().unwrap() {
            ab.push_key(self.pki.pubkey(k.as_str().unwrap()).key_identifier());
        }
        for a in att {
            if mode == "v4" || mode == "all" { ab.push_v4(v4_atom(a)); }
            if mode == "v6" || mode == "all" { ab.push_v6(v6_atom(a)); }
            if mode == "as" || mode == "all" { ab.push_as(as_atom(a)); }
        }
        let mut b = ab.into_rta_builder();
        let ees: Vec<Cert> = w["ees"].as_array().unwrap().iter().map(|c| self.cert(c, mode)).collect();
        let cas: Vec<Cert> = w["cas"].as_array().unwrap().iter().map(|c| self.cert(c, mode)).collect();
        if cas_first {
            cas.iter().chain(ees.iter()).for_each(|c| b.push_cert(c.clone()));
        } else {
            ees.iter().chain(cas.iter()).for_each(|c| b.push_cert(c.clone()));
        }
        for c in w["crls"].as_array().unwrap() {
            let crl = self.crl(c);
            b.push_crl(crl);
        }
        for s in w["signers"].as_array().unwrap() {
            b.sign(&self.pki.signer, &self.pki.key(s.as_str().unwrap()), time_of(1)).unwrap();
        }
        let built = b.finalize();
        if att.is_empty() {
            // the decoder refuses an attestation without resources ("no resources in RTA"); the built object is validated as it is
            return built;
        }
        Rta::decode(built.to_captured().into_bytes(), true).expect("built attestation decodes")
    }
}

fn run_case(w: &mut World, c: &Value, idx: usize) -> Result<(), (String, String)> {
    let mode = MODES[idx % 4];
    let steps = c["steps"].as_array().unwrap();
    let att = match steps.last() {
        Some(s) if s["op"] == "fin" => atoms(&s["arg"]),
        _ => vec!["a1".to_string()],
    };
    let rta = w.build(&c["world"], &att, mode, (idx / 4) % 2 == 1);
    let now = time_of(1);
    let first = &steps[0];
    let mut v = match (Validation::new_at(&rta, true, now), first["ok"].as_bool().unwrap()) {
        (Ok(v), true) => v,
        (Err(_), false) => return Ok(()),
        (Ok(_), false) => return Err(("rta:new:accepted".into(), format!("[{mode}] Validation::new_at succeeds, the specification fails it ({})", first["arg"]))),
        (Err(e), true) => return Err(("rta:new:refused".into(), format!("[{mode}] Validation::new_at fails ({e}), the specification passes it"))),
    };
    for (i, s) in steps.iter().enumerate().skip(1) {
        let op = s["op"].as_str().unwrap();
        let want_ok = s["ok"].as_bool().unwrap();
        if op == "fin" {
            let got = v.finalize();
            return match (got.is_ok(), want_ok) {
                (true, false) => Err(("rta:finalize:accepted".into(), format!("[{mode}] finalize accepts the attestation of {att:?}, the specification rejects it"))),
                (false, true) => Err(("rta:finalize:rejected".into(), format!("[{mode}] finalize rejects the attestation of {att:?} ({}), the specification accepts it", got.err().map(|e| e.to_string()).unwrap_or_default()))),
                _ => Ok(()),
            };
        }
        let key = s["arg"].as_str().unwrap();
        let got = if op == "ca" { v.supply_ca(&w.ext[&(mode.to_string(), key.to_string())]) } else { v.supply_tal(&w.tals[key]) };
        match (got, want_ok) {
            (Ok(done), true) => {
                if done != s["done"].as_bool().unwrap() {
                    return Err((format!("rta:supply_{op}:done"), format!("[{mode}] step {i}: supply_{op}({key}) returns {done}, specification {}", s["done"])));
                }
            }
            (Err(_), false) => return Ok(()),
            (Ok(_), false) => return Err((format!("rta:supply_{op}:accepted"), format!("[{mode}] step {i}: supply_{op}({key}) succeeds, the specification fails it"))),
            (Err(e), true) => return Err((format!("rta:supply_{op}:refused"), format!("[{mode}] step {i}: supply_{op}({key}) fails ({e}), the specification passes it"))),
        }
    }
    Ok(())
}

pub fn replay(args: &[String]) {
    let cases = read_cases(&args[0]);
    let mut s = Summary::new();
    let mut w = World::new();
    for (idx, c) in cases.iter().enumerate() {
        let r = guarded(|| run_case(&mut w, c, idx));
        match r {
            Ok(Ok(())) => {}
            Ok(Err((k, m))) => s.violation(&k, m, c.clone()),
            Err(m) => s.violation("rta:panic", m, c.clone()),
        }
        let last = c["steps"].as_array().unwrap().last().cloned().unwrap_or(Value::Null);
        s.eval(Some(&format!("{}|{}", c["world"], c["steps"])));
        s.count(&format!("end_{}_{}", last["op"].as_str().unwrap_or("?"), last["ok"]), 1);
        if s.samples.len() < 3 && idx % 4999 == 7 {
            s.sample(c.clone());
        }
    }
    s.print();
}

/// The advance loop of Validation::new_at on embedded CA certificates that name each other: the specification's PathBounded
/// fails on these worlds (MC_RtaCycle.cfg); here the real call is given `ms` milliseconds.
pub fn cycle(args: &[String]) {
    let cases = read_cases(&args[0]);
    let ms = arg_u64(args, "--ms", 3000);
    let mut s = Summary::new();
    let mut w = World::new();
    let mut spinning = 0;
    for (idx, c) in cases.iter().enumerate() {
        let rta = w.build(&c["world"], &["a1".to_string()], MODES[idx % 4], false);
        let (tx, rx) = std::sync::mpsc::channel();
        std::thread::spawn(move || {
            let r = guarded(|| Validation::new_at(&rta, true, time_of(1)).map(|_| ()).map_err(|e| e.to_string()));
            let _ = tx.send(r);
        });
        match rx.recv_timeout(std::time::Duration::from_millis(ms)) {
            Ok(r) => s.set(&format!("returned_{idx}"), json!(format!("{r:?}"))),
            Err(_) => spinning += 1,
        }
        s.eval(Some(&c.to_string()));
    }
    s.set("still_running_after_ms", json!(ms));
    s.set("calls_not_returned", json!(spinning));
    s.print();
    // the spinning threads never end
    std::process::exit(0);
}

/// impl -> spec: random attestations (any resource sets, up to three embedded CA certificates in any arrangement without cycles,
/// up to three signers, occasional static defects), random supply schedules; every public call and its result is recorded and
/// checked against spec/Trace_RtaValidation.tla.
pub fn drive(args: &[String]) {
    let seed = arg_u64(args, "--seed", 1);
    let n = arg_u64(args, "--n", 40);
    let out = arg_val(args, "--out").expect("--out");
    let mut rng = Rng::new(seed ^ 0x5274_6156);
    let mut t = TraceOut::create(&out);
    let mut w = World::new();
    let mut s = Summary::new();
    let exts = ["x1", "x2", "y"];
    let res = |rng: &mut Rng| -> (bool, Vec<String>) {
        if rng.chance(3, 10) { (true, vec![]) } else {
            let m = rng.range(1, 7);
            (false, ["a1", "a2", "a3"].iter().enumerate().filter(|(i, _)| m >> i & 1 == 1).map(|(_, a)| a.to_string()).collect())
        }
    };
    for run in 0..n {
        let ncas = rng.below(4) as usize;
        let nsig = 1 + rng.below(3) as usize;
        let ca_keys = ["m1", "m2", "m3"];
        let ee_keys = ["e1", "e2", "e3"];
        let mut cas = vec![];
        for i in 0..ncas {
            let parent = if i + 1 < ncas && rng.chance(1, 2) { ca_keys[rng.range(i as u64 + 1, ncas as u64 - 1) as usize] } else { *rng.pick(&exts) };
            let (inh, sv) = res(&mut rng);
            cas.push(json!({"key": ca_keys[i], "aki": parent, "sig": parent, "ca": true, "inh": inh, "s": sv, "trim": rng.chance(1, 3), "serial": 21 + i, "live": !rng.chance(1, 40)}));
        }
        let mut ees = vec![];
        for i in 0..nsig {
            let parent = if ncas > 0 && rng.chance(2, 3) { ca_keys[rng.below(ncas as u64) as usize] } else { *rng.pick(&exts) };
            let (inh, sv) = res(&mut rng);
            ees.push(json!({"key": ee_keys[i], "aki": parent, "sig": parent, "ca": false, "inh": inh, "s": sv, "trim": rng.chance(1, 3), "serial": 11 + i, "live": !rng.chance(1, 40)}));
        }
        let mut crls: Vec<Value> = (0..ncas).map(|i| {
            let revoked: Vec<u64> = if rng.chance(1, 8) { vec![*rng.pick(&[11u64, 12, 13, 21, 22, 23])] } else { vec![] };
            json!({"by": ca_keys[i], "revoked": revoked})
        }).collect();
        if !crls.is_empty() && rng.chance(1, 15) { crls.pop(); }
        if rng.chance(1, 20) { crls.push(json!({"by": *rng.pick(&["m1", "x1"]), "revoked": []})); }
        if rng.chance(1, 3) { crls.reverse(); }
        if rng.chance(1, 3) { cas.reverse(); }
        let signers: Vec<&str> = ee_keys[..nsig].to_vec();
        let mut subj: Vec<&str> = signers.clone();
        if rng.chance(1, 3) { subj.reverse(); }
        if rng.chance(1, 25) { subj.pop(); }
        if rng.chance(1, 25) { subj.push("e1"); }
        let world = json!({"subj": subj, "signers": signers, "ees": ees, "cas": cas, "crls": crls});
        let mut sched: Vec<(bool, &str)> = (0..rng.below(5)).map(|_| if rng.chance(4, 5) { (true, *rng.pick(&exts)) } else { (false, *rng.pick(&["t", "r", "m1"])) }).collect();
        if rng.chance(3, 5) {
            // every CA the caller has, in a random order, so that the chains can all be validated
            let mut all = vec![(true, "x1"), (true, "x2"), (true, "y")];
            for i in (1..all.len()).rev() { all.swap(i, rng.below(i as u64 + 1) as usize); }
            let at = rng.below(sched.len() as u64 + 1) as usize;
            sched.splice(at..at, all);
        }
        let mode = MODES[(run % 4) as usize];
        for m in 0..8u64 {
            let att: Vec<String> = ["a1", "a2", "a3"].iter().enumerate().filter(|(i, _)| m >> i & 1 == 1).map(|(_, a)| a.to_string()).collect();
            let r = guarded(|| {
                let rta = w.build(&world, &att, mode, run % 2 == 1);
                let mut evs = vec![json!({"ev": "world", "world": world, "mode": mode})];
                let mut v = match Validation::new_at(&rta, true, time_of(1)) {
                    Ok(v) => { evs.push(json!({"ev": "new", "ok": true})); v }
                    Err(e) => { evs.push(json!({"ev": "new", "ok": false, "err": e.to_string()})); return evs; }
                };
                for (is_ca, key) in &sched {
                    let got = if *is_ca { v.supply_ca(&w.ext[&(mode.to_string(), key.to_string())]) } else { v.supply_tal(&w.tals[*key]) };
                    let ev = if *is_ca { "ca" } else { "tal" };
                    match got {
                        Ok(done) => evs.push(json!({"ev": ev, "key": key, "ok": true, "done": done})),
                        Err(e) => { evs.push(json!({"ev": ev, "key": key, "ok": false, "done": false, "err": e.to_string()})); return evs; }
                    }
                }
                let fin = v.finalize();
                evs.push(json!({"ev": "fin", "att": att, "ok": fin.is_ok(), "err": fin.err().map(|e| e.to_string()).unwrap_or_default()}));
                evs
            });
            match r {
                Ok(evs) => {
                    let last = evs.last().unwrap().clone();
                    s.count(&format!("end_{}_{}", last["ev"].as_str().unwrap(), last["ok"]), 1);
                    let stop = last["ev"] != "fin";
                    for e in evs { t.ev(e); }
                    s.eval(Some(&format!("{world}|{sched:?}|{m}")));
                    if stop { break; }       // the attested set plays no part before finalize
                }
                Err(m) => s.violation("rta:panic", m, world.clone()),
            }
        }
    }
    s.set("events", json!(t.finish()));
    s.print();
}
