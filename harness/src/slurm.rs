//! C15 — binds spec/Slurm.tla to rpki::slurm.
use crate::common::*;
use rpki::crypto::keys::KeyIdentifier;
use rpki::resources::addr::{MaxLenPrefix, Prefix};
use rpki::resources::asn::Asn;
use rpki::rtr::payload::{Payload, RouteOrigin};
use rpki::rtr::pdu::{ProviderAsns, RouterKeyInfo};
use rpki::slurm::*;
use serde_json::{json, Value};
use std::net::{IpAddr, Ipv4Addr, Ipv6Addr};
use std::str::FromStr;

fn asn(v: &Value) -> Option<Asn> {
    match v.as_u64().unwrap() {
        0 => None,
        1 => Some(Asn::from_u32(64496)),
        _ => Some(Asn::from_u32(u32::MAX)),
    }
}
fn ski(v: &Value) -> Option<KeyIdentifier> {
    match v.as_str().unwrap() {
        "none" => None,
        "k1" => Some(KeyIdentifier::from([0x11u8; 20])),
        _ => Some(KeyIdentifier::from([0xFEu8; 20])),
    }
}
/// variant 0: model bits at the top of the address; variant 1: inside 10.0.0.0/8 resp. 2001:db8::/32;
/// variant 2: model bits at the bottom of the address (prefix lengths /30../32 and /126../128: host prefixes included)
fn prefix(v: &Value, variant: u32) -> Option<Prefix> {
    let (f, a, l) = (v[0].as_u64().unwrap(), v[1].as_u64().unwrap() as u128, v[2].as_u64().unwrap() as u8);
    match f {
        4 => {
            let (addr, len) = match variant { 0 => ((a as u32) << 30, l), 1 => (0x0A00_0000 | ((a as u32) << 22), 8 + l), _ => (0xC000_0200 | a as u32, 30 + l) };
            Some(Prefix::new(IpAddr::V4(Ipv4Addr::from(addr)), len).unwrap())
        }
        6 => {
            // (variant 3: IPv4-mapped IPv6 addresses, ::ffff:192.0.2.x/126..128 - still IPv6 prefixes)
            let (addr, len) = match variant { 0 => (a << 126, l), 1 => ((0x2001_0db8u128 << 96) | (a << 94), 32 + l), 2 => ((0x2001_0db8u128 << 96) | 0xff00 | a, 126 + l),
                                              _ => ((0xffffu128 << 32) | 0xC000_0200 | a, 126 + l) };
            Some(Prefix::new(IpAddr::V6(Ipv6Addr::from(addr)), len).unwrap())
        }
        _ => None,
    }
}

fn build_file(c: &Value, variant: u32, with_comments: bool) -> (SlurmFile, Payload) {
    let cm = |i: usize| if with_comments && i % 2 == 0 { Some(format!("comment \"{i}\" <&> \\ é")) } else { None };
    let (mut pf, mut bf, mut af) = (Vec::new(), Vec::new(), Vec::new());
    for (i, f) in c["file"].as_array().unwrap().iter().enumerate() {
        match f["kind"].as_str().unwrap() {
            "prefix" => pf.push(PrefixFilter::new(prefix(&f["prefix"], variant), asn(&f["asn"]), cm(i))),
            "bgpsec" => bf.push(BgpsecFilter::new(ski(&f["ski"]), asn(&f["asn"]), cm(i))),
            _ => af.push(AspaFilter::new(asn(&f["customer"]), cm(i))),
        }
    }
    let mut filters = ValidationOutputFilters::new(pf, bf);
    let has_aspa_filter = !af.is_empty();
    if has_aspa_filter {
        filters.aspa = Some(af);
    }
    let it = &c["item"];
    let key_info = RouterKeyInfo::try_from(vec![0xfbu8, 0xef, 0xbe, 0xff, 0x00, 0x3e, 1, 2, 3]).unwrap();
    // an assertion's provider list is handed on as it is: sorted (variant 0), unsorted with a repeat (others)
    let providers = if variant == 0 { ProviderAsns::try_from_iter([Asn::from_u32(65000), Asn::from_u32(65001)]).unwrap() }
                    else { ProviderAsns::try_from_iter([Asn::from_u32(65001), Asn::from_u32(65000), Asn::from_u32(70000), Asn::from_u32(65001)]).unwrap() };
    let mut assertions = LocallyAddedAssertions::new(Vec::new(), Vec::new());
    let item = match it["kind"].as_str().unwrap() {
        "prefix" => {
            let p = prefix(&it["prefix"], variant).unwrap();
            // no max length / one longer / equal to the prefix length (written explicitly)
            let ml = match variant { 1 => Some(p.len() + 1), 2 => Some(p.len()), _ => None };
            let m = MaxLenPrefix::new(p, ml).unwrap();
            assertions.prefix.push(PrefixAssertion::new(m, asn(&it["asn"]).unwrap(), cm(0)));
            Payload::origin(m, asn(&it["asn"]).unwrap())
        }
        "bgpsec" => {
            assertions.bgpsec.push(BgpsecAssertion::new(asn(&it["asn"]).unwrap(), ski(&it["ski"]).unwrap(), Base64KeyInfo::try_from(key_info.as_slice().to_vec()).unwrap(), cm(1)));
            Payload::router_key(ski(&it["ski"]).unwrap(), asn(&it["asn"]).unwrap(), key_info)
        }
        _ => {
            assertions.aspa = Some(vec![AspaAssertion::new(asn(&it["customer"]).unwrap(), providers.clone(), cm(2))]);
            Payload::aspa(asn(&it["customer"]).unwrap(), providers)
        }
    };
    (SlurmFile::new(filters, assertions), item)
}

/// every field of a payload item, as text (for multiset comparison)
fn payload_fields(p: &Payload) -> String {
    match p {
        Payload::Origin(o) => format!("origin {} {:?} {}", o.prefix.prefix(), o.prefix.max_len(), o.asn),
        Payload::RouterKey(k) => format!("key {} {} {:?}", k.key_identifier, k.asn, k.key_info.as_slice()),
        Payload::Aspa(a) => format!("aspa {} {:?}", a.customer, a.providers.iter().collect::<Vec<_>>()),
    }
}

/// A file whose assertion lists have several entries around `item`, with repeats, and the items they stand for.
fn multi_assertions(item: &Payload) -> (SlurmFile, Vec<String>) {
    let mut a = LocallyAddedAssertions::new(Vec::new(), Vec::new());
    let mut want = Vec::new();
    let p4 = MaxLenPrefix::new(Prefix::new("192.0.2.0".parse().unwrap(), 24).unwrap(), Some(26)).unwrap();
    let p6 = MaxLenPrefix::new(Prefix::new("2001:db8::".parse().unwrap(), 32).unwrap(), None).unwrap();
    let mut origins = vec![(p4, Asn::from_u32(64496)), (p6, Asn::from_u32(64496)), (p4, Asn::from_u32(64497)), (p4, Asn::from_u32(64496))];
    let info = |b: u8| RouterKeyInfo::try_from(vec![b, 0xef, 0xbe, 0xff, 0x00, 0x3e, 1, 2, 3]).unwrap();
    let kid = |b: u8| KeyIdentifier::from([b; 20]);
    let mut keys = vec![(kid(1), Asn::from_u32(64496), info(1)), (kid(1), Asn::from_u32(64497), info(1)), (kid(2), Asn::from_u32(64496), info(2)), (kid(1), Asn::from_u32(64496), info(1))];
    let prov = |v: &[u32]| ProviderAsns::try_from_iter(v.iter().map(|x| Asn::from_u32(*x))).unwrap();
    let mut aspas = vec![(Asn::from_u32(64500), prov(&[65001, 65000, 65001])), (Asn::from_u32(64500), prov(&[65002])), (Asn::from_u32(64501), prov(&[65000, 65001])),
                         (Asn::from_u32(64500), prov(&[65001, 65000, 65001]))];
    match item {
        Payload::Origin(o) => { origins.insert(1, (o.prefix, o.asn)); origins.push((o.prefix, o.asn)); }
        Payload::RouterKey(k) => { keys.insert(1, (k.key_identifier, k.asn, k.key_info.clone())); keys.push((k.key_identifier, k.asn, k.key_info.clone())); }
        Payload::Aspa(x) => { aspas.insert(1, (x.customer, x.providers.clone())); aspas.push((x.customer, prov(&[65009]))); }
    }
    for (m, asn) in origins {
        a.prefix.push(PrefixAssertion::new(m, asn, None));
        want.push(format!("origin {} {:?} {}", m.prefix(), m.max_len(), asn));
    }
    for (k, asn, i) in keys {
        a.bgpsec.push(BgpsecAssertion::new(asn, k, Base64KeyInfo::try_from(i.as_slice().to_vec()).unwrap(), None));
        want.push(format!("key {} {} {:?}", k, asn, i.as_slice()));
    }
    let mut list = Vec::new();
    for (c, p) in aspas {
        list.push(AspaAssertion::new(c, p.clone(), None));
        want.push(format!("aspa {} {:?}", c, p.iter().collect::<Vec<_>>()));
    }
    a.aspa = Some(list);
    (SlurmFile::new(ValidationOutputFilters::new(Vec::new(), Vec::new()), a), want)
}

/// The same file grown the way the specification builds it: an empty file, then one filter / assertion at a time through the
/// public fields (the file's format version stays what `new` chose for the empty file).
fn grow_file(c: &Value, variant: u32) -> (SlurmFile, Payload) {
    let (full, item) = build_file(c, variant, false);
    let mut file = SlurmFile::new(ValidationOutputFilters::new(Vec::new(), Vec::new()), LocallyAddedAssertions::new(Vec::new(), Vec::new()));
    for f in full.filters.prefix.iter() { file.filters.prefix.push(f.clone()); }
    for f in full.filters.bgpsec.iter() { file.filters.bgpsec.push(f.clone()); }
    if let Some(af) = full.filters.aspa.as_ref() {
        for f in af { file.filters.aspa.get_or_insert_with(Vec::new).push(f.clone()); }
    }
    file.assertions = full.assertions.clone();
    (file, item)
}


/// A reader that hands out three octets at a time (a file, a socket: nothing promises a parser its input in one piece).
struct Dribble<'a>(&'a [u8]);
impl std::io::Read for Dribble<'_> {
    fn read(&mut self, buf: &mut [u8]) -> std::io::Result<usize> {
        let n = buf.len().min(3).min(self.0.len());
        buf[..n].copy_from_slice(&self.0[..n]);
        self.0 = &self.0[n..];
        Ok(n)
    }
}
/// Every way the library offers to read a file must tell the same story: FromStr, and from_reader over a whole slice and over a
/// reader that delivers in pieces.
fn parse_every_way(text: &str) -> Result<SlurmFile, (String, String)> {
    let a = SlurmFile::from_str(text).map_err(|e| e.to_string());
    let b = SlurmFile::from_reader(text.as_bytes()).map_err(|e| e.to_string());
    let c = SlurmFile::from_reader(Dribble(text.as_bytes())).map_err(|e| e.to_string());
    match (a, b, c) {
        (Ok(a), Ok(b), Ok(c)) => if a == b && b == c { Ok(a) } else { Err(("json:routes".into(), format!("from_str and from_reader read different files from {text}"))) },
        (Err(e), Err(_), Err(_)) => Err(("json:parse".into(), format!("own JSON does not parse: {e}: {text}"))),
        (a, b, c) => Err(("json:routes".into(), format!("from_str / from_reader / from_reader in pieces disagree: {:?} / {:?} / {:?} on {text}", a.err(), b.err(), c.err()))),
    }
}
/// ... and every way to write one: the writers must produce what the to_string twins produce.
fn texts_every_way(file: &SlurmFile) -> Result<[String; 2], (String, String)> {
    let (s1, s2) = (file.to_string(), file.to_string_pretty());
    let mut w1 = Vec::new();
    let mut w2 = Vec::new();
    file.to_writer(&mut w1).map_err(|e| ("json:write".to_string(), e.to_string()))?;
    file.to_writer_pretty(&mut w2).map_err(|e| ("json:write".to_string(), e.to_string()))?;
    if w1 != s1.as_bytes() || w2 != s2.as_bytes() {
        return Err(("json:routes".into(), "to_writer and to_string write different texts".into()));
    }
    Ok([s1, s2])
}

// ---- spec/SlurmAssert.tla: assertion lists grown one assertion at a time
fn a_asn(v: &Value) -> Asn {
    match v.as_u64().unwrap() { 0 => Asn::from_u32(0), 1 => Asn::from_u32(64496), _ => Asn::from_u32(u32::MAX) }
}
fn a_prefix(a: &Value) -> (MaxLenPrefix, String) {
    let fam = a["fam"].as_u64().unwrap();
    let (addr, len, top): (IpAddr, u8, u8) = match (fam, a["len"].as_str().unwrap()) {
        (4, "zero") => ("0.0.0.0".parse().unwrap(), 0, 32),
        (4, "mid") => ("192.0.2.0".parse().unwrap(), 24, 32),
        (4, _) => ("192.0.2.1".parse().unwrap(), 32, 32),
        (_, "zero") => ("::".parse().unwrap(), 0, 128),
        (_, "mid") => ("2001:db8::".parse().unwrap(), 32, 128),
        _ => ("2001:db8::1".parse().unwrap(), 128, 128),
    };
    let max = match a["maxlen"].as_str().unwrap() { "none" => None, "same" => Some(len), "more" => Some(len + 1), _ => Some(top) };
    (MaxLenPrefix::new(Prefix::new(addr, len).unwrap(), max).unwrap(), format!("{addr}/{len} max {max:?}"))
}
fn a_keyinfo(a: &Value) -> Vec<u8> {
    [0xfbu8, 0xef, 0xbe, 0x00][..a["keylen"].as_u64().unwrap() as usize].to_vec()
}
fn a_ski(v: &Value) -> KeyIdentifier {
    if v == "k1" { KeyIdentifier::from([0x11u8; 20]) } else { KeyIdentifier::from([0xFEu8; 20]) }
}
fn a_providers(a: &Value) -> Vec<u32> {
    a["providers"].as_array().unwrap().iter().map(|x| if x.as_u64().unwrap() == 1 { 65000 } else { u32::MAX }).collect()
}
/// what an item of the specification looks like as a payload item, field by field
fn describe(p: &Payload) -> String {
    match p {
        Payload::Origin(o) => format!("origin {}/{} max {:?} {}", o.prefix.prefix().addr(), o.prefix.prefix().len(), o.prefix.max_len(), o.asn),
        Payload::RouterKey(k) => format!("key {} {} {:?}", k.key_identifier, k.asn, k.key_info.as_slice()),
        Payload::Aspa(a) => format!("aspa {} {:?}", a.customer, a.providers.iter().map(|x| x.into_u32()).collect::<Vec<_>>()),
    }
}
fn replay_assert(c: &Value) -> Result<(), (String, String)> {
    let cm = |a: &Value| if a["comment"] == true { Some("a \"comment\" <&> \\ é".to_string()) } else { None };
    let mut asr = LocallyAddedAssertions::new(Vec::new(), Vec::new());
    for a in c["alist"].as_array().unwrap() {
        match a["kind"].as_str().unwrap() {
            "prefix" => asr.prefix.push(PrefixAssertion::new(a_prefix(a).0, a_asn(&a["asn"]), cm(a))),
            "bgpsec" => {
                let ki = Base64KeyInfo::try_from(a_keyinfo(a)).map_err(|e| ("assert:keyinfo".to_string(), format!("key information of {} octets refused: {e}", a["keylen"])))?;
                asr.bgpsec.push(BgpsecAssertion::new(a_asn(&a["asn"]), a_ski(&a["ski"]), ki, cm(a)))
            }
            _ => {
                // the provider list as the library's own type holds it (whether that type keeps order and repeats is its business)
                let pr = match ProviderAsns::try_from_iter(a_providers(a).into_iter().map(Asn::from_u32)) { Ok(p) => p, Err(_) => return Ok(()) };
                asr.aspa.get_or_insert_with(Vec::new).push(AspaAssertion::new(a_asn(&a["customer"]), pr, cm(a)))
            }
        }
    }
    let file = SlurmFile::new(ValidationOutputFilters::new(Vec::new(), Vec::new()), asr);
    // each assertion yields the payload item with exactly its fields, the three lists one after the other
    let want: Vec<String> = c["yield"].as_array().unwrap().iter().map(|it| match it["kind"].as_str().unwrap() {
        "prefix" => { let (m, _) = a_prefix(it); format!("origin {}/{} max {:?} {}", m.prefix().addr(), m.prefix().len(), m.max_len(), a_asn(&it["asn"])) }
        "bgpsec" => format!("key {} {} {:?}", a_ski(&it["ski"]), a_asn(&it["asn"]), a_keyinfo(it)),
        _ => format!("aspa {} {:?}", a_asn(&it["customer"]),
                     ProviderAsns::try_from_iter(a_providers(it).into_iter().map(Asn::from_u32)).unwrap().iter().map(|x| x.into_u32()).collect::<Vec<_>>()),
    }).collect();
    let got: Vec<String> = file.assertions.iter_payload().map(|p| describe(&p)).collect();
    if got != want {
        return Err(("assert:payload".into(), format!("iter_payload = {got:?}, specification {want:?}")));
    }
    // JSON there and back: an equal file that yields the same items
    for text in texts_every_way(&file).map_err(|(k, m)| (format!("assert:{k}"), m))? {
        let back = parse_every_way(&text).map_err(|(k, m)| (format!("assert:{k}"), m))?;
        if back != file {
            return Err(("assert:json:roundtrip".into(), format!("JSON round trip changed the file: {text}")));
        }
        let again: Vec<String> = back.assertions.iter_payload().map(|p| describe(&p)).collect();
        if again != want {
            return Err(("assert:json:payload".into(), format!("the parsed-back file yields {again:?}, specification {want:?}")));
        }
        // the members the specification's Json1 names, nothing null
        let v: Value = serde_json::from_str(&text).map_err(|e| ("assert:json:wellformed".to_string(), e.to_string()))?;
        let la = &v["locallyAddedAssertions"];
        for (list, model_kind) in [("prefixAssertions", "prefix"), ("bgpsecAssertions", "bgpsec"), ("aspaAssertions", "aspa")] {
            let model: Vec<&Value> = c["alist"].as_array().unwrap().iter().filter(|a| a["kind"] == model_kind).collect();
            let objs = la[list].as_array().cloned().unwrap_or_default();
            if objs.len() != model.len() {
                return Err(("assert:json:members".into(), format!("{list} has {} entries, the file {}", objs.len(), model.len())));
            }
            for (o, a) in objs.iter().zip(model) {
                let has = |m: &str| o.get(m).map(|x| !x.is_null()).unwrap_or(false);
                if has("comment") != (a["comment"] == true) || (model_kind == "prefix" && has("maxPrefixLength") != (a["maxlen"] != "none")) || o.as_object().unwrap().values().any(|x| x.is_null()) {
                    return Err(("beyond:assert:json:members".into(), format!("{list}: written as {o}, the assertion is {a}")));
                }
            }
        }
    }
    Ok(())
}

/// The drop rule with long filter lists: hundreds of filters that do not match and one that does, at the front, in the middle, at
/// the end - and none that does.  (Slurm.tla's law is about "some filter of its kind", however many there are.)
fn long_filter_lists(s: &mut Summary) {
    let origin = Payload::origin(MaxLenPrefix::new(Prefix::new("192.0.2.0".parse().unwrap(), 24).unwrap(), Some(26)).unwrap(), Asn::from_u32(64496));
    let key = Payload::router_key(KeyIdentifier::from([7u8; 20]), Asn::from_u32(64496), RouterKeyInfo::try_from(vec![1u8, 2, 3]).unwrap());
    let aspa = Payload::aspa(Asn::from_u32(64496), ProviderAsns::try_from_iter([Asn::from_u32(65000)]).unwrap());
    for n in [1usize, 15, 16, 17, 63, 64, 65, 255, 256, 257, 600] {
        for hit in [None, Some(0), Some(n / 2), Some(n - 1)] {
            let r = guarded(|| -> Result<(), String> {
                let miss_as = |i: usize| Asn::from_u32(70000 + i as u32);
                let pf: Vec<PrefixFilter> = (0..n).map(|i| if hit == Some(i) { PrefixFilter::new(Some(Prefix::new("192.0.0.0".parse().unwrap(), 16).unwrap()), None, None) }
                                                           else { PrefixFilter::new(Some(Prefix::new(std::net::IpAddr::V4(std::net::Ipv4Addr::from(0x0B00_0000u32 + ((i as u32) << 8))), 24).unwrap()), Some(miss_as(i)), None) }).collect();
                let bf: Vec<BgpsecFilter> = (0..n).map(|i| if hit == Some(i) { BgpsecFilter::new(Some(KeyIdentifier::from([7u8; 20])), None, None) }
                                                           else { BgpsecFilter::new(Some(KeyIdentifier::from([(i % 200) as u8 + 8; 20])), Some(miss_as(i)), None) }).collect();
                let af: Vec<AspaFilter> = (0..n).map(|i| AspaFilter::new(Some(if hit == Some(i) { Asn::from_u32(64496) } else { miss_as(i) }), None)).collect();
                let mut filters = ValidationOutputFilters::new(pf, bf);
                filters.aspa = Some(af);
                let file = SlurmFile::new(filters, LocallyAddedAssertions::new(Vec::new(), Vec::new()));
                let back = parse_every_way(&file.to_string()).map_err(|(_, m)| m)?;
                for f in [&file, &back] {
                    for (what, item) in [("origin", &origin), ("router key", &key), ("aspa", &aspa)] {
                        if f.drop_payload(item) != hit.is_some() {
                            return Err(format!("{what}: drop_payload = {}, although {}", !hit.is_some(), match hit { Some(i) => format!("filter {i} of {n} matches"), None => format!("none of the {n} filters matches") }));
                        }
                    }
                }
                Ok(())
            });
            match r {
                Ok(Ok(())) => {}
                Ok(Err(m)) => s.violation(if hit.is_some() { "drop:long-list:missed" } else { "drop:long-list:spurious" }, m, json!({"filters": n, "hit": hit})),
                Err(m) => s.violation("drop:panic", m, json!({"filters": n, "hit": hit})),
            }
            s.evals(1);
        }
    }
}

pub fn replay(args: &[String]) {
    let cases = read_cases(&args[0]);
    let mut s = Summary::new();
    if cases.iter().any(|c| c["op"] == "drop") { long_filter_lists(&mut s); }
    for c in &cases {
        if c["op"] == "assert" {
            match guarded(|| replay_assert(c)) {
                Ok(Ok(())) => {}
                Ok(Err((k, m))) => s.violation(&k, m, c.clone()),
                Err(m) => s.violation("assert:panic", m, c.clone()),
            }
            s.eval(Some(&c["alist"].to_string()));
            if s.evaluations % 9001 == 17 { s.sample(c.clone()); }
            continue;
        }
        let exp = c["drop"].as_bool().unwrap();
        for variant in 0..4u32 {
            let case = json!({"case": c, "variant": variant});
            let r = guarded(|| -> Result<(), (String, String)> {
                let (file, item) = build_file(c, variant, variant == 1);
                let got = file.drop_payload(&item);
                if got != exp {
                    let kind = c["item"]["kind"].as_str().unwrap();
                    return Err((format!("drop:{kind}:{}", if exp { "missed" } else { "spurious" }),
                                format!("drop_payload = {got}, specification {exp}")));
                }
                let (grown, _) = grow_file(c, variant);
                if grown.drop_payload(&item) != exp {
                    let kind = c["item"]["kind"].as_str().unwrap();
                    return Err((format!("drop:{kind}:grown"), format!("the same filters added one at a time through the public fields: drop_payload = {}, specification {exp}", !exp)));
                }
                // JSON round trip (compact and pretty)
                for text in texts_every_way(&file)? {
                    let back = parse_every_way(&text)?;
                    if back != file {
                        return Err(("json:roundtrip".into(), format!("JSON round trip changed the file: {text}")));
                    }
                    if back.drop_payload(&item) != exp {
                        return Err(("json:drop".into(), "parsed-back file drops differently".into()));
                    }
                }
                // the assertion yields the payload item with exactly its fields
                let items: Vec<Payload> = file.assertions.iter_payload().collect();
                if items.len() != 1 || items[0] != item {
                    return Err(("assertion:payload".into(), format!("iter_payload = {items:?}, expected [{item:?}]")));
                }
                match (&items[0], &item) {
                    (Payload::Origin(a), Payload::Origin(b)) => {
                        let (a, b): (&RouteOrigin, &RouteOrigin) = (a, b);
                        if a.prefix.prefix() != b.prefix.prefix() || a.prefix.max_len() != b.prefix.max_len() || a.asn != b.asn {
                            return Err(("assertion:payload".into(), "origin fields differ".into()));
                        }
                    }
                    (Payload::RouterKey(a), Payload::RouterKey(b)) => {
                        if a.key_identifier != b.key_identifier || a.asn != b.asn || a.key_info.as_slice() != b.key_info.as_slice() {
                            return Err(("assertion:payload".into(), "router key fields differ".into()));
                        }
                    }
                    (Payload::Aspa(a), Payload::Aspa(b)) => {
                        if a.customer != b.customer || a.providers != b.providers {
                            return Err(("assertion:payload".into(), "aspa fields differ".into()));
                        }
                        // the provider list exactly as the assertion holds it (the expected item above went through the library's
                        // own constructor, which must not be what defines "its fields")
                        let raw: Vec<u32> = if variant == 0 { vec![65000, 65001] } else { vec![65001, 65000, 70000, 65001] };
                        let got: Vec<u32> = a.providers.iter().map(|x| x.into_u32()).collect();
                        let held: Vec<u32> = file.assertions.aspa.as_ref().unwrap()[0].provider_asns.iter().map(|x| x.into_u32()).collect();
                        if held != raw {
                            return Err(("assertion:held".into(), format!("the assertion holds providers {held:?}, it was given {raw:?}")));
                        }
                        if got != raw {
                            return Err(("assertion:payload".into(), format!("the ASPA item lists providers {got:?}, the assertion {raw:?}")));
                        }
                    }
                    _ => return Err(("assertion:payload".into(), "payload kind differs".into())),
                }
                // several assertions of every kind, with repeats (the same prefix twice, the same customer under two provider
                // sets and once more verbatim, the same router key twice): EACH assertion yields its item
                if variant == 0 {
                    let (multi, want) = multi_assertions(&item);
                    let mut got: Vec<String> = multi.assertions.iter_payload().map(|p| payload_fields(&p)).collect();
                    let mut want: Vec<String> = want;
                    got.sort();
                    want.sort();
                    if got != want {
                        return Err(("assertion:payload:list".into(), format!("{} assertions yield {} items; missing or altered: {:?}", want.len(), got.len(),
                                                                             want.iter().filter(|w| !got.contains(w)).take(3).collect::<Vec<_>>())));
                    }
                    let text = multi.to_string();
                    let back = SlurmFile::from_str(&text).map_err(|e| ("json:parse".to_string(), format!("own JSON does not parse: {e}: {text}")))?;
                    if back != multi {
                        return Err(("json:roundtrip".into(), format!("JSON round trip changed the file: {text}")));
                    }
                }
                Ok(())
            });
            match r {
                Ok(Ok(())) => {}
                Ok(Err((k, m))) => s.violation(&k, m, case),
                Err(m) => s.violation("panic", m, case),
            }
            s.eval_if(!c["file"].as_array().unwrap().is_empty(), &format!("{}|{}|{variant}", c["file"], c["item"]));
        }
        if s.samples.len() < 3 && s.evaluations % 1999 < 2 {
            let (file, _) = build_file(c, 1, true);
            s.sample(json!({"case": c, "json": file.to_string()}));
        }
    }
    s.print();
}

// --------------------------------------------------------------------------
// impl -> spec: random SLURM files with full-size values
// --------------------------------------------------------------------------
pub fn drive(args: &[String]) {
    let seed = arg_u64(args, "--seed", 1);
    let n = arg_u64(args, "--n", 1500);
    let out = arg_val(args, "--out").expect("--out");
    let mut rng = Rng::new(seed);
    let mut t = TraceOut::create(&out);
    let mut s = Summary::new();
    const WB: u32 = 10;
    for i in 0..n {
        // per-case dictionaries: a few real ASNs / SKIs / a window of the address space
        let asns: Vec<u32> = (0..3).map(|k| if k == 0 && rng.chance(1, 4) { u32::MAX } else if rng.chance(1, 6) { 0 } else { rng.next() as u32 }).collect();
        let skis: Vec<[u8; 20]> = (0..3).map(|_| { let mut b = [0u8; 20]; for x in b.iter_mut() { *x = rng.next() as u8; } b }).collect();
        let (sh4, hi4) = (rng.below((32 - WB + 1) as u64) as u32, rng.next() as u32);
        let (sh6, hi6) = (rng.below((128 - WB + 1) as u64) as u32, rng.u128());
        let mk_prefix = |f: u64, a: u64, l: u32| -> Prefix {
            if f == 4 {
                let above = 32 - sh4 - WB;
                let hi = if above == 0 { 0 } else { (hi4 & ((1u32 << above) - 1)) << (sh4 + WB) };
                Prefix::new(IpAddr::V4(Ipv4Addr::from(hi | ((a as u32) << sh4))), (above + l) as u8).unwrap()
            } else {
                let above = 128 - sh6 - WB;
                let hi = if above == 0 { 0 } else { (hi6 & ((1u128 << above) - 1)) << (sh6 + WB) };
                Prefix::new(IpAddr::V6(Ipv6Addr::from(hi | ((a as u128) << sh6))), (above + l) as u8).unwrap()
            }
        };
        let mut rand_prefix = |rng: &mut Rng| -> (u64, u64, u32) {
            let f = if rng.chance(1, 2) { 4 } else { 6 };
            let l = rng.below(WB as u64) as u32; // < WB so that window and concrete host parts agree
            let host = 1u64 << (WB - l);
            let a = rng.below(1 << WB) / host * host;
            (f, a, l)
        };
        let r = guarded(|| {
            let nf = rng.below(5) as usize;
            let mut model_filters = Vec::new();
            let (mut pf, mut bf, mut af) = (Vec::new(), Vec::new(), Vec::new());
            let base = rand_prefix(&mut rng);
            for _ in 0..nf {
                match rng.below(3) {
                    0 => {
                        let p = if rng.chance(1, 3) { None } else if rng.chance(1, 2) {
                            // a relative of the item's prefix: shorter / longer / sibling
                            let l = rng.below(WB as u64) as u32;
                            let host = 1u64 << (WB - l);
                            Some((base.0, base.1 / host * host, l))
                        } else { Some(rand_prefix(&mut rng)) };
                        let a = if rng.chance(1, 3) { None } else { Some(rng.below(3) as usize) };
                        pf.push(PrefixFilter::new(p.map(|(f, a, l)| mk_prefix(f, a, l)), a.map(|k| Asn::from_u32(asns[k])), None));
                        model_filters.push(json!({"kind": "prefix", "prefix": p.map(|(f, a, l)| json!([f, a, l])).unwrap_or(json!([9, 9, 9])),
                            "asn": a.map(|k| dict_asn(&asns, k)).unwrap_or(0)}));
                    }
                    1 => {
                        let k = if rng.chance(1, 3) { None } else { Some(rng.below(3) as usize) };
                        let a = if rng.chance(1, 3) { None } else { Some(rng.below(3) as usize) };
                        bf.push(BgpsecFilter::new(k.map(|k| KeyIdentifier::from(skis[k])), a.map(|k| Asn::from_u32(asns[k])), None));
                        model_filters.push(json!({"kind": "bgpsec", "ski": k.map(|k| format!("k{k}")).unwrap_or("none".into()),
                            "asn": a.map(|k| dict_asn(&asns, k)).unwrap_or(0)}));
                    }
                    _ => {
                        let a = if rng.chance(1, 4) { None } else { Some(rng.below(3) as usize) };
                        af.push(AspaFilter::new(a.map(|k| Asn::from_u32(asns[k])), None));
                        model_filters.push(json!({"kind": "aspa", "customer": a.map(|k| dict_asn(&asns, k)).unwrap_or(0)}));
                    }
                }
            }
            // the file's lists are per kind; the model's list must have the same per-kind order (it has)
            let mut filters = ValidationOutputFilters::new(pf, bf);
            if !af.is_empty() || rng.chance(1, 2) { filters.aspa = Some(af); }
            let mut assertions = LocallyAddedAssertions::new(Vec::new(), Vec::new());
            let ia = rng.below(3) as usize;
            let (item, model_item) = match rng.below(3) {
                0 => {
                    let p = mk_prefix(base.0, base.1, base.2);
                    let ml = if rng.chance(1, 2) { None } else { Some(p.len()) };
                    let m = MaxLenPrefix::new(p, ml).unwrap();
                    assertions.prefix.push(PrefixAssertion::new(m, Asn::from_u32(asns[ia]), None));
                    (Payload::origin(m, Asn::from_u32(asns[ia])), json!({"kind": "prefix", "prefix": [base.0, base.1, base.2], "asn": dict_asn(&asns, ia)}))
                }
                1 => {
                    let k = rng.below(3) as usize;
                    let info: Vec<u8> = (0..rng.range(1, 90)).map(|_| rng.next() as u8).collect();
                    let ki = RouterKeyInfo::try_from(info.clone()).unwrap();
                    assertions.bgpsec.push(BgpsecAssertion::new(Asn::from_u32(asns[ia]), KeyIdentifier::from(skis[k]), Base64KeyInfo::try_from(info).unwrap(), None));
                    (Payload::router_key(KeyIdentifier::from(skis[k]), Asn::from_u32(asns[ia]), ki), json!({"kind": "bgpsec", "ski": format!("k{}", dict_ski(&skis, k)), "asn": dict_asn(&asns, ia)}))
                }
                _ => {
                    let mut provs: Vec<u32> = (0..rng.range(1, 5)).map(|_| rng.next() as u32).collect();
                    provs.sort();
                    provs.dedup();
                    let providers = ProviderAsns::try_from_iter(provs.into_iter().map(Asn::from_u32)).unwrap();
                    assertions.aspa = Some(vec![AspaAssertion::new(Asn::from_u32(asns[ia]), providers.clone(), None)]);
                    (Payload::aspa(Asn::from_u32(asns[ia]), providers), json!({"kind": "aspa", "customer": dict_asn(&asns, ia)}))
                }
            };
            // filters' ski indices must go through the same dictionary as the item's
            for f in model_filters.iter_mut() {
                if f["kind"] == "bgpsec" && f["ski"] != "none" {
                    let k: usize = f["ski"].as_str().unwrap()[1..].parse().unwrap();
                    f["ski"] = json!(format!("k{}", dict_ski(&skis, k)));
                }
            }
            let file = SlurmFile::new(filters, assertions);
            let res = file.drop_payload(&item);
            let text = file.to_string();
            let json_ok = SlurmFile::from_str(&text).map(|b| b == file && b.drop_payload(&item) == res).unwrap_or(false);
            let items: Vec<Payload> = file.assertions.iter_payload().collect();
            let payload_ok = items.len() == 1 && items[0] == item;
            (json!({"ev": "drop", "file": model_filters, "item": model_item, "res": res, "json_ok": json_ok, "payload_ok": payload_ok}), text)
        });
        match r {
            Ok((ev, text)) => {
                if s.samples.len() < 2 && i % 97 == 3 { s.sample(json!({"json": text})); }
                t.ev(ev);
                s.eval(Some(&format!("{i}")));
            }
            Err(m) => s.violation("trace:panic", m, json!({"seed": seed, "i": i})),
        }
    }
    let nev = t.finish();
    s.set("events", json!(nev));
    s.print();
}

/// dictionary index of a real ASN (equal real values share one index), 1-based
fn dict_asn(asns: &[u32], k: usize) -> u64 {
    (asns.iter().position(|x| *x == asns[k]).unwrap() + 1) as u64
}
fn dict_ski(skis: &[[u8; 20]], k: usize) -> usize {
    skis.iter().position(|x| *x == skis[k]).unwrap()
}
