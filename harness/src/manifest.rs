//! C14 — binds spec/Manifest.tla to rpki::repository::manifest::ManifestContent.
use crate::common::*;
use crate::der;
use bcder::Mode;
use rpki::repository::manifest::ManifestContent;
use rpki::uri;
use serde_json::{json, Value};
use std::str::FromStr;

fn sha256(data: &[u8]) -> Vec<u8> {
    aws_lc_rs::digest::digest(&aws_lc_rs::digest::SHA256, data).as_ref().to_vec()
}

fn render(name: &Value, variant: usize) -> Vec<u8> {
    name.as_array()
        .unwrap()
        .iter()
        .map(|c| {
            let c = c.as_str().unwrap();
            match (c, variant) {
                ("a", 0) => b'a',
                ("a", _) => b'x',
                ("Z", 0) => b'Z',
                ("Z", _) => b'Q',
                ("1", 0) => b'1',
                ("1", _) => b'0',
                (" ", 0) => b' ',
                (" ", _) => 0x7e, // '~': a valid URI character that is not a valid file name character
                (o, _) => o.as_bytes()[0],
            }
        })
        .collect()
}

/// An independent encoder for ManifestContent (RFC 9286).
fn manifest_der(entries: &[(Vec<u8>, Vec<u8>)], this: &str, next: &str, explicit_version: bool) -> Vec<u8> {
    let files: Vec<Vec<u8>> = entries.iter().map(|(n, h)| der::seq(&[der::ia5(n), der::bitstring(0, h)])).collect();
    let mut parts = Vec::new();
    if explicit_version {
        parts.push(der::ctx(0, true, &der::uint(0)));
    }
    parts.push(der::uint(0x1234));
    parts.push(time_tlv(this));
    parts.push(time_tlv(next));
    parts.push(der::oid(&[2, 16, 840, 1, 101, 3, 4, 2, 1]));
    parts.push(der::seq(&files));
    der::seq(&parts)
}

/// five instants in chronological order; 13 characters = UTCTime, 15 = GeneralizedTime
const TIMES: [&str; 5] = ["500601000000Z", "20240101000000Z", "240101000001Z", "491231235959Z", "20500101000000Z"];
fn time_tlv(t: &str) -> Vec<u8> {
    if t.len() == 13 { der::utctime(t) } else { der::gentime(t) }
}
const BASES: [&str; 3] = ["rsync://h/m/d/", "rsync://h/m/d", "rsync://Host.example/module/"];

fn check_decoded(c: &Value, m: &ManifestContent, entries: &[(Vec<u8>, Vec<u8>)], data: &[u8]) -> Result<(), (String, String)> {
    let listed: Vec<_> = m.iter().collect();
    if m.len() != listed.len() || listed.len() != entries.len() {
        return Err(("len".into(), format!("len() = {}, iterator yields {}, encoded {}", m.len(), listed.len(), entries.len())));
    }
    if m.this_update() > m.next_update() {
        return Err(("times".into(), "thisUpdate after nextUpdate in a decoded manifest".into()));
    }
    // what the iterators promise about their length holds too (size_hint brackets the number of entries they go on to yield)
    let (lo, hi) = m.iter().size_hint();
    let base0 = uri::Rsync::from_str(BASES[0]).unwrap();
    let (lo2, hi2) = m.iter_uris(&base0).size_hint();
    for (what, lo, hi) in [("iter", lo, hi), ("iter_uris", lo2, hi2)] {
        if lo > entries.len() || hi.map(|h| h < entries.len()).unwrap_or(false) {
            return Err(("len".into(), format!("{what}().size_hint() = ({lo}, {hi:?}) but the iterator yields {} entries", entries.len())));
        }
    }
    for base in BASES {
        let base = uri::Rsync::from_str(base).unwrap();
        let mut dir = base.clone();
        dir.path_into_dir();
        let uris: Vec<_> = m.iter_uris(&base).collect();
        for ((u, h), (name, hash)) in uris.iter().zip(entries) {
            if u.parent().as_ref() != Some(&dir) || u.relative_to(&base) != Some(std::str::from_utf8(name).unwrap_or("?")) {
                return Err(("uri:outside".into(), format!("entry {:?} resolves to {u}, not directly inside {dir}", String::from_utf8_lossy(name))));
            }
            let want = hash == &sha256(data);
            if h.verify(data).is_ok() != want {
                return Err(("hash".into(), format!("listed hash of {} octets verifies = {}, SHA-256 equality = {want}", hash.len(), h.verify(data).is_ok())));
            }
            if h.verify(b"other data").is_ok() {
                return Err(("hash".into(), "hash verifies against unrelated data".into()));
            }
        }
    }
    let _ = c;
    Ok(())
}

/// The same content inside a real signed manifest: `Manifest::decode` (strict and relaxed) must decide as `ManifestContent::take_from`
/// did, `content()` must pass the same checks, and the object validates under its issuer.
fn signed_route(sc: &mut crate::sigobj::Ctx, c: &Value, content: &[u8], accepted: bool, entries: &[(Vec<u8>, Vec<u8>)], data: &[u8]) -> Result<(), (String, String)> {
    use rpki::repository::manifest::Manifest;
    let case = json!({"kind": "mft", "size": "small", "fam": "v4", "content": content,
                      "f": {"attrs": "ok", "digest": "ok", "sig": "ok", "sid": "ok", "ee": "ok", "ctattr": "ok", "cover": "ok", "crl": "ok"}});
    let (bytes, _) = crate::sigobj::assemble(sc, &case);
    for strict in [true, false] {
        match Manifest::decode(bytes::Bytes::from(bytes.clone()), strict) {
            Err(e) => {
                if accepted {
                    return Err(("signed:decode".into(), format!("ManifestContent::take_from accepts the content, Manifest::decode(strict={strict}) refuses the signed manifest: {e}")));
                }
            }
            Ok(m) => {
                if !accepted {
                    return Err(("signed:accepts-invalid".into(), format!("Manifest::decode(strict={strict}) accepts a signed manifest whose content ManifestContent::take_from refuses")));
                }
                check_decoded(c, m.content(), entries, data)?;
                // the entries as listed
                let listed: Vec<(Vec<u8>, Vec<u8>)> = m.content().iter().map(|f| (f.file().to_vec(), f.hash().to_vec())).collect();
                if listed != entries {
                    return Err(("signed:entries".into(), format!("listed entries {listed:?} differ from the encoded ones")));
                }
                if m.content().is_empty() != entries.is_empty() {
                    return Err(("len".into(), format!("is_empty() = {} with {} entries", m.content().is_empty(), entries.len())));
                }
                let base = uri::Rsync::from_str(BASES[0]).unwrap();
                for ((_, h), (_, hash)) in m.content().iter_uris(&base).zip(entries) {
                    if h.as_slice() != hash.as_slice() {
                        return Err(("hash".into(), format!("ManifestHash::as_slice has {} octets, the manifest lists {}", h.as_slice().len(), hash.len())));
                    }
                }
                m.validate_at(&sc.issuer, strict, rpki::repository::x509::Time::now()).map_err(|e| ("signed:validate".to_string(), format!("a correctly signed manifest does not validate (strict={strict}): {e}")))?;
            }
        }
    }
    Ok(())
}

/// "A listed hash verifies against data exactly when it equals the SHA-256 of the data" - for data of every size a digest
/// routine might cut into pieces: none, one octet, around 64 octets (the hash's own block), around 4 KiB, 64 KiB, 128 KiB, 1 MiB.
fn hash_sizes(s: &mut Summary) {
    let mut sizes: Vec<usize> = vec![0, 1, 55, 56, 63, 64, 65, 119, 127, 128, 129, 4095, 4096, 4097, 65_535, 65_536, 65_537, 70_001, 131_071, 131_072, 131_073, 200_000, 1_048_576, 1_048_577];
    sizes.extend((1..=40).map(|k| k * 997));
    for n in sizes {
        let data: Vec<u8> = (0..n).map(|i| (i * 31 + (i >> 8)) as u8).collect();
        let r = guarded(|| -> Result<(), String> {
            let right = sha256(&data);
            let entries = vec![(b"a.cer".to_vec(), right.clone())];
            let bytes = manifest_der(&entries, "20240101000000Z", "20991231235959Z", false);
            let m = Mode::Der.decode(bytes.as_ref(), ManifestContent::take_from).map_err(|e| e.to_string())?;
            let h = m.iter().next().ok_or("no entry")?.hash().to_vec();
            let mh = rpki::repository::manifest::ManifestHash::new(bytes::Bytes::from(h), rpki::crypto::DigestAlgorithm::sha256());
            if mh.verify(&data).is_err() { return Err("the SHA-256 of the object is listed, verify() says mismatch".into()); }
            if n > 0 {
                // the same object one octet shorter, and with its last octet changed
                let mut other = data.clone(); other.pop();
                if mh.verify(&other).is_ok() { return Err("verifies against the object cut short by one octet".into()); }
                let mut other = data.clone(); *other.last_mut().unwrap() ^= 1;
                if mh.verify(&other).is_ok() { return Err("verifies against the object with its last octet changed".into()); }
            }
            Ok(())
        });
        match r {
            Ok(Ok(())) => {}
            Ok(Err(m)) => s.violation("hash:size", format!("object of {n} octets: {m}"), json!({"size": n})),
            Err(m) => s.violation("hash:panic", m, json!({"size": n})),
        }
        s.evals(1);
    }
}

/// Lists of many entries: every listed name comes out, once, in order, with its own hash - also past 64, 256 and 1000 entries.
fn long_lists(s: &mut Summary) {
    for n in [1usize, 2, 63, 64, 65, 127, 128, 129, 255, 256, 257, 1000, 1025] {
        let entries: Vec<(Vec<u8>, Vec<u8>)> = (0..n).map(|i| (format!("f{i:04}_{}.roa", if i % 2 == 0 { "a-b" } else { "Z_9" }).into_bytes(), sha256(format!("object {i}").as_bytes()))).collect();
        let r = guarded(|| -> Result<(), String> {
            let bytes = manifest_der(&entries, "20240101000000Z", "20991231235959Z", false);
            let m = Mode::Der.decode(bytes.as_ref(), ManifestContent::take_from).map_err(|e| format!("does not decode: {e}"))?;
            if m.len() != n || m.is_empty() { return Err(format!("len() = {}", m.len())); }
            let listed: Vec<(Vec<u8>, Vec<u8>)> = m.iter().map(|f| (f.file().to_vec(), f.hash().to_vec())).collect();
            if listed != entries { return Err(format!("iter() yields {} entries, not the {n} listed ones in order", listed.len())); }
            let base = uri::Rsync::from_str("rsync://h/m/d/").unwrap();
            let uris: Vec<_> = m.iter_uris(&base).collect();
            if uris.len() != n { return Err(format!("iter_uris() yields {} entries", uris.len())); }
            for (i, ((u, h), (name, _))) in uris.iter().zip(&entries).enumerate() {
                if u.relative_to(&base) != Some(std::str::from_utf8(name).unwrap()) || h.verify(format!("object {i}").as_bytes()).is_err() {
                    return Err(format!("entry {i} resolves to {u} / its hash does not verify against its object"));
                }
            }
            Ok(())
        });
        match r {
            Ok(Ok(())) => {}
            Ok(Err(m)) => s.violation("list:long", format!("a manifest of {n} entries: {m}"), json!({"entries": n})),
            Err(m) => s.violation("list:panic", m, json!({"entries": n})),
        }
        s.evals(1);
    }
}

pub fn replay(args: &[String]) {
    let cases = read_cases(&args[0]);
    let mut s = Summary::new();
    hash_sizes(&mut s);
    long_lists(&mut s);
    let data = b"manifest entry data";
    let mut sc = crate::sigobj::Ctx::new();
    let mut nth = 0usize;
    // times that name no real instant (second 60, month 13, ...) written where an earlier nextUpdate follows: whatever such a
    // manifest "means", it must not come out of the decoder as one whose thisUpdate is not after its nextUpdate
    for (this, next) in [("20240630115960Z", "20240630115959Z"), ("240630115960Z", "240630115959Z"), ("20241330000000Z", "20241231000000Z"), ("20240230000000Z", "20240229000000Z")] {
        let entries = vec![(b"a.cer".to_vec(), sha256(data))];
        let bytes = manifest_der(&entries, this, next, false);
        match guarded(|| Mode::Der.decode(bytes.as_ref(), ManifestContent::take_from)) {
            Err(m) => s.violation("decode:panic", m, json!({"this": this, "next": next})),
            Ok(Err(_)) => {}
            Ok(Ok(m)) => s.violation("times", format!("a manifest written with thisUpdate {this} and nextUpdate {next} decodes (as {:?} / {:?})", m.this_update(), m.next_update()), json!({"this": this, "next": next})),
        }
        s.evals(1);
    }
    for c in &cases {
        match c["op"].as_str().unwrap_or("") {
            "name" => {
                for variant in 0..2 {
                    let name = render(&c["name"], variant);
                    let entries = vec![(name.clone(), sha256(data))];
                    let bytes = manifest_der(&entries, TIMES[1], TIMES[2], variant == 1);
                    let case = json!({"case": c, "variant": variant, "name": String::from_utf8_lossy(&name)});
                    match guarded(|| Mode::Der.decode(bytes.as_ref(), ManifestContent::take_from)) {
                        Err(m) => s.violation("decode:panic", m, case),
                        Ok(Err(_)) => {}
                        Ok(Ok(m)) => {
                            s.count("accepted", 1);
                            if !c["ok"].as_bool().unwrap() {
                                s.violation("name:accepts-invalid", format!("manifest listing {:?} decodes, but the name is not an RFC 9286 file name", String::from_utf8_lossy(&name)), case.clone());
                            }
                            match guarded(|| check_decoded(c, &m, &entries, data)) {
                                Ok(Ok(())) => {}
                                Ok(Err((k, w))) => s.violation(&k, w, case),
                                Err(p) => s.violation("accessor:panic", format!("accessor panicked on decoded manifest listing {:?}: {p}", String::from_utf8_lossy(&name)), case),
                            }
                        }
                    }
                    nth += 1;
                    if nth % 25 == 0 {
                        let accepted = matches!(guarded(|| Mode::Der.decode(bytes.as_ref(), ManifestContent::take_from)), Ok(Ok(_)));
                        match guarded(|| signed_route(&mut sc, c, &bytes, accepted, &entries, data)) {
                            Ok(Ok(())) => {}
                            Ok(Err((k, w))) => s.violation(&k, w, json!({"case": c, "variant": variant, "signed": true})),
                            Err(p) => s.violation("accessor:panic", format!("[signed manifest] {p}"), json!({"case": c, "variant": variant, "signed": true})),
                        }
                        s.count("signed_manifests", 1);
                    }
                    s.eval_if(name.len() >= 4, &format!("{}|{variant}", c["name"]));
                }
            }
            "manifest" => {
                let entries: Vec<(Vec<u8>, Vec<u8>)> = c["entries"]
                    .as_array()
                    .unwrap()
                    .iter()
                    .map(|e| {
                        let mut h = sha256(data);
                        h.push(0xAA);
                        h.truncate(e["hlen"].as_u64().unwrap() as usize);
                        (render(&e["name"], 0), h)
                    })
                    .collect();
                let bytes = manifest_der(&entries, TIMES[c["this"].as_u64().unwrap() as usize], TIMES[c["next"].as_u64().unwrap() as usize], false);
                match guarded(|| Mode::Der.decode(bytes.as_ref(), ManifestContent::take_from)) {
                    Err(m) => s.violation("decode:panic", m, c.clone()),
                    Ok(Err(_)) => {}
                    Ok(Ok(m)) => {
                        s.count("accepted", 1);
                        if !c["decodes"].as_bool().unwrap() {
                            s.violation("manifest:accepts-invalid", "a manifest with an invalid name or thisUpdate after nextUpdate decodes".into(), c.clone());
                        }
                        match guarded(|| check_decoded(c, &m, &entries, data)) {
                            Ok(Ok(())) => {}
                            Ok(Err((k, w))) => s.violation(&k, w, c.clone()),
                            Err(p) => s.violation("accessor:panic", p, c.clone()),
                        }
                    }
                }
                nth += 1;
                if nth % 25 == 0 {
                    let accepted = matches!(guarded(|| Mode::Der.decode(bytes.as_ref(), ManifestContent::take_from)), Ok(Ok(_)));
                    match guarded(|| signed_route(&mut sc, c, &bytes, accepted, &entries, data)) {
                        Ok(Ok(())) => {}
                        Ok(Err((k, w))) => s.violation(&k, w, json!({"case": c, "signed": true})),
                        Err(p) => s.violation("accessor:panic", format!("[signed manifest] {p}"), json!({"case": c, "signed": true})),
                    }
                    s.count("signed_manifests", 1);
                }
                s.eval_if(!entries.is_empty(), &format!("{c}"));
            }
            o => { eprintln!("unknown op {o}"); std::process::exit(2) }
        }
        if s.samples.len() < 3 && s.evaluations % 70001 == 11 { s.sample(c.clone()); }
    }
    s.print();
}

/// impl -> spec: random manifests with long / odd names (logged as character sequences).
pub fn drive(args: &[String]) {
    let seed = arg_u64(args, "--seed", 1);
    let n = arg_u64(args, "--n", 1500);
    let out = arg_val(args, "--out").expect("--out");
    let mut rng = Rng::new(seed);
    let mut t = TraceOut::create(&out);
    let mut s = Summary::new();
    let data = b"manifest entry data";
    const POOL: &[u8] = b"abcXYZ019-_../ ~%";
    for i in 0..n {
        let k = rng.below(4) as usize;
        let mut entries = Vec::new();
        for _ in 0..k {
            let mut name: Vec<u8> = (0..rng.range(1, 12)).map(|_| if rng.chance(1, 12) { *rng.pick(POOL) } else { *rng.pick(b"abcdefgXYZ0189-_") }).collect();
            if rng.chance(4, 5) {
                name.push(b'.');
                name.extend((0..3).map(|_| if rng.chance(1, 15) { b'1' } else { *rng.pick(b"acemrftlQ") }));
            }
            if rng.chance(1, 40) { name = vec![b'a'; 300]; name.extend_from_slice(b".cer"); }
            let mut h = sha256(data);
            if rng.chance(1, 6) { h.truncate(rng.below(33) as usize); }
            entries.push((name, h));
        }
        let (ti, ni) = (rng.below(5) as usize, rng.below(5) as usize);
        let bytes = manifest_der(&entries, TIMES[ti], TIMES[ni], rng.chance(1, 2));
        let names: Vec<Value> = entries.iter().map(|(n, _)| Value::Array(n.iter().map(|b| {
            let c = *b as char;
            json!(if c.is_ascii_lowercase() { "a".to_string() } else if c.is_ascii_uppercase() { "Z".to_string() } else if c.is_ascii_digit() { "1".to_string() } else { c.to_string() })
        }).collect())).collect();
        match guarded(|| Mode::Der.decode(bytes.as_ref(), ManifestContent::take_from)) {
            Err(m) => s.violation("trace:panic", m, json!({"seed": seed, "i": i})),
            Ok(Err(_)) => t.ev(json!({"ev": "decode", "names": names, "this": ti, "next": ni, "ok": false, "checked": true})),
            Ok(Ok(m)) => {
                let checked = matches!(guarded(|| check_decoded(&json!(null), &m, &entries, data)), Ok(Ok(())));
                t.ev(json!({"ev": "decode", "names": names, "this": ti, "next": ni, "ok": true, "checked": checked}));
            }
        }
        s.eval_if(k > 0, &format!("{i}"));
    }
    s.set("events", json!(t.finish()));
    s.print();
}
