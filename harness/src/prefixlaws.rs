//! C13 — binds spec/PrefixLaws.tla and spec/AsnSet.tla to rpki::resources::{addr, asn}
//! and rpki::rtr::payload::RouteOrigin.
use crate::common::*;
use rpki::resources::addr::{MaxLenPrefix, Prefix};
use rpki::resources::asn::{Asn, SmallAsnSet};
use rpki::rtr::payload::RouteOrigin;
use serde_json::{json, Value};
use std::cmp::Ordering;
use std::hash::{Hash, Hasher};
use std::net::{IpAddr, Ipv4Addr, Ipv6Addr};
use std::str::FromStr;

fn ord_name(o: Ordering) -> &'static str {
    match o {
        Ordering::Less => "lt",
        Ordering::Equal => "eq",
        Ordering::Greater => "gt",
    }
}
fn h<T: Hash>(t: &T) -> u64 {
    let mut s = std::collections::hash_map::DefaultHasher::new();
    t.hash(&mut s);
    s.finish()
}

/// Window embedding of a W-bit model address into the N-bit family:
/// concrete = hi << (shift + W) | a << shift;  concrete length = N - shift - W + l.
#[derive(Clone, Copy, Debug)]
pub struct Win {
    pub shift: u32,
    pub hi: u128,
}

fn fam_n(f: u64) -> u32 {
    if f == 4 { 32 } else { 128 }
}

impl Win {
    fn addr(&self, f: u64, w: u32, a: u128) -> u128 {
        let n = fam_n(f);
        let above = n - self.shift - w;
        let hi = if above == 0 { 0 } else { (self.hi & ((1u128 << above) - 1)) << (self.shift + w) };
        hi | (a << self.shift)
    }
    /// lengths: l <= W maps into the window; W+1 -> N+1; W+2 -> 255
    fn len(&self, f: u64, w: u32, l: u64) -> u8 {
        let n = fam_n(f);
        if l as u32 <= w {
            if l as u32 == w && self.shift > 0 {
                // the window's host prefix: model length W stands for "all bits", i.e. N
                n as u8
            } else {
                (n - self.shift - w + l as u32) as u8
            }
        } else if l as u32 == w + 1 {
            (n + 1) as u8
        } else {
            255
        }
    }
    fn ip(&self, f: u64, w: u32, a: u128) -> IpAddr {
        let v = self.addr(f, w, a);
        if f == 4 { IpAddr::V4(Ipv4Addr::from(v as u32)) } else { IpAddr::V6(Ipv6Addr::from(v)) }
    }
}

fn wins(f: u64, w: u32) -> Vec<(&'static str, Win)> {
    let n = fam_n(f);
    let v = vec![
        ("top", Win { shift: n - w, hi: 0 }),
        ("bot0", Win { shift: 0, hi: 0 }),
        ("bot1", Win { shift: 0, hi: u128::MAX }),
        ("mid", Win { shift: (n - w) / 2, hi: 0x2001_0db8_5a5a_a5a5_1234_5678_9abc_def0 }),
    ];
    let mut v = v;
    if f == 6 && w <= 16 {
        // IPv4-mapped IPv6 addresses (::ffff:a.b.c.d): their text form ends in a dotted quad
        v.push(("map_bot", Win { shift: 0, hi: 0xffffu128 << (32 - w) }));
        v.push(("map_top", Win { shift: 32 - w, hi: 0xffff }));
    }
    v
}

fn mk_prefix(win: &Win, f: u64, w: u32, a: u128, l: u64) -> Result<Prefix, String> {
    Prefix::new(win.ip(f, w, a), win.len(f, w, l)).map_err(|e| e.to_string())
}
fn ml_opt(win: &Win, f: u64, w: u32, ml: u64) -> Option<u8> {
    if ml == 255 { None } else { Some(win.len(f, w, ml)) }
}

/// `cmp` as a caller sees it: `partial_cmp` and the four operators have to agree with it ("ops-disagree" otherwise)
fn ord_obs<T: Ord>(a: &T, b: &T) -> &'static str {
    let c = a.cmp(b);
    let ops = (a < b, a > b, a <= b, a >= b, a.partial_cmp(b) == Some(c));
    let want = match c {
        std::cmp::Ordering::Less => (true, false, true, false, true),
        std::cmp::Ordering::Greater => (false, true, false, true, true),
        std::cmp::Ordering::Equal => (false, false, true, true, true),
    };
    if ops == want { ord_name(c) } else { "ops-disagree" }
}

struct PairObs {
    covers: bool,
    cmp: &'static str,
    eq: bool,
    hash_eq: bool,
    mlcmp: &'static str,
    mleq: bool,
    ocmp: &'static str,
    oeq: bool,
    ohash_eq: bool,
}

fn observe_pair(p: Prefix, pml: Option<u8>, q: Prefix, qml: Option<u8>, asn: (Asn, Asn)) -> Result<PairObs, String> {
    let m = MaxLenPrefix::new(p, pml).map_err(|e| format!("MaxLenPrefix::new({p},{pml:?}): {e}"))?;
    let n = MaxLenPrefix::new(q, qml).map_err(|e| format!("MaxLenPrefix::new({q},{qml:?}): {e}"))?;
    let (o, r) = (RouteOrigin::new(m, asn.0), RouteOrigin::new(n, asn.1));
    // the fields are public: a value written as a struct expression is as good as one from `new`, and the two kinds meet
    let (o2, r2) = (RouteOrigin { prefix: m, asn: asn.0 }, RouteOrigin { prefix: n, asn: asn.1 });
    let routes = [(o, r), (o2, r2), (o, r2), (o2, r)];
    let all_same = |f: &dyn Fn(&RouteOrigin, &RouteOrigin) -> String| -> Option<String> {
        let v: Vec<String> = routes.iter().map(|(a, b)| f(a, b)).collect();
        if v.iter().all(|x| *x == v[0]) { None } else { Some(format!("{v:?}")) }
    };
    if let Some(d) = all_same(&|a, b| format!("{} {} {}", ord_obs(a, b), a == b, h(a) == h(b))) {
        return Err(format!("RouteOrigin values made by `new` and by struct expression compare differently (cmp, ==, hash equality per pairing): {d}"));
    }
    Ok(PairObs {
        covers: p.covers(q),
        cmp: ord_obs(&p, &q),
        eq: p == q,
        hash_eq: h(&p) == h(&q),
        mlcmp: ord_obs(&m, &n),
        mleq: m == n,
        ocmp: ord_obs(&o, &r),
        oeq: o == r,
        ohash_eq: h(&o) == h(&r),
    })
}

fn asn_of(x: u64) -> Asn {
    Asn::from_u32(if x == 0 { 64496 } else { u32::MAX })
}

fn check_pair(s: &mut Summary, c: &Value, tag: &str, obs: Result<Result<PairObs, String>, String>) {
    let case = json!({"case": c, "emb": tag});
    let o = match obs {
        Ok(Ok(o)) => o,
        Ok(Err(m)) => {
            s.violation("pair:construct", format!("[{tag}] {m}"), case);
            return;
        }
        Err(m) => {
            s.violation("pair:panic", format!("[{tag}] {m}"), case);
            return;
        }
    };
    let exp_cmp = c["cmp"].as_str().unwrap();
    let mut bad = |key: &str, what: String| s.violation(key, format!("[{tag}] {what}"), case.clone());
    if o.covers != c["covers"].as_bool().unwrap() {
        bad("covers", format!("covers = {}, specification {}", o.covers, c["covers"]));
    }
    if o.cmp != exp_cmp {
        bad("cmp", format!("Prefix cmp = {}, specification {}", o.cmp, exp_cmp));
    }
    if o.eq != (exp_cmp == "eq") {
        bad("eq", format!("Prefix == is {}, order says {}", o.eq, exp_cmp));
    }
    if o.eq && !o.hash_eq {
        bad("hash", "equal prefixes hash differently".into());
    }
    let exp_ml = c["mlcmp"].as_str().unwrap();
    if o.mlcmp != exp_ml {
        bad("mlcmp", format!("MaxLenPrefix cmp = {}, specification {}", o.mlcmp, exp_ml));
    }
    if o.mleq != (exp_ml == "eq") {
        bad("mleq", format!("MaxLenPrefix == is {}, order says {}", o.mleq, exp_ml));
    }
    let exp_o = c["ocmp"].as_str().unwrap();
    if o.ocmp != exp_o {
        bad("ocmp", format!("RouteOrigin cmp = {}, specification {}", o.ocmp, exp_o));
    }
    if o.oeq != c["oeq"].as_bool().unwrap() {
        bad("oeq", format!("RouteOrigin == is {}, specification {}", o.oeq, c["oeq"]));
    }
    if o.oeq && !o.ohash_eq {
        bad("ohash", "equal route origins hash differently".into());
    }
}

fn replay_pair(s: &mut Summary, c: &Value) {
    let (w4, w6) = (c["w4"].as_u64().unwrap() as u32, c["w6"].as_u64().unwrap() as u32);
    let pf = |v: &Value| (v["f"].as_u64().unwrap(), v["a"].as_u64().unwrap() as u128, v["l"].as_u64().unwrap());
    let (p, q) = (pf(&c["p"]), pf(&c["q"]));
    let (pml, qml) = (c["pml"].as_u64().unwrap(), c["qml"].as_u64().unwrap());
    let asn = (asn_of(c["asn"][0].as_u64().unwrap()), asn_of(c["asn"][1].as_u64().unwrap()));
    let wd = |f: u64| if f == 4 { w4 } else { w6 };
    let names = ["top", "bot0", "bot1", "mid"];
    for (i, name) in names.iter().enumerate() {
        let (wp, wq) = (wins(p.0, wd(p.0))[i].1, wins(q.0, wd(q.0))[i].1);
        let obs = guarded(|| -> Result<PairObs, String> {
            let pp = mk_prefix(&wp, p.0, wd(p.0), p.1, p.2)?;
            let qq = mk_prefix(&wq, q.0, wd(q.0), q.1, q.2)?;
            // text round trips and address range of p
            let back = Prefix::from_str(&pp.to_string()).map_err(|e| format!("'{pp}' does not parse back: {e}"))?;
            if back != pp {
                return Err(format!("'{pp}' parses back to {back}"));
            }
            let (emin, emax) = (c["pmin"].as_u64().unwrap() as u128, c["pmax"].as_u64().unwrap() as u128);
            let want_min = wp.ip(p.0, wd(p.0), emin);
            // model length W in a shifted window stands for the host prefix /N: no host bits
            let host = if wp.shift == 0 || p.2 as u32 == wd(p.0) { 0 } else { (1u128 << wp.shift) - 1 };
            let want_max_bits = wp.addr(p.0, wd(p.0), emax) | host;
            let want_max: IpAddr = if p.0 == 4 { IpAddr::V4(Ipv4Addr::from(want_max_bits as u32)) } else { IpAddr::V6(Ipv6Addr::from(want_max_bits)) };
            if pp.min_addr() != want_min || pp.max_addr() != want_max {
                return Err(format!("{pp}: min/max addr {} - {}, specification {want_min} - {want_max}", pp.min_addr(), pp.max_addr()));
            }
            let m = MaxLenPrefix::new(pp, ml_opt(&wp, p.0, wd(p.0), pml)).map_err(|e| e.to_string())?;
            let mb = MaxLenPrefix::from_str(&m.to_string()).map_err(|e| format!("'{m}' does not parse back: {e}"))?;
            if mb != m {
                return Err(format!("'{m}' parses back to {mb}"));
            }
            observe_pair(pp, ml_opt(&wp, p.0, wd(p.0), pml), qq, ml_opt(&wq, q.0, wd(q.0), qml), asn)
        });
        check_pair(s, c, name, obs);
        let key = format!("pp:{}:{}:{}:{}:{}:{name}", c["p"], c["q"], pml, qml, c["asn"]);
        s.eval(if c["p"] != c["q"] { Some(&key) } else { None });
    }
}

fn replay_ctor(s: &mut Summary, c: &Value) {
    let (w4, w6) = (c["w4"].as_u64().unwrap() as u32, c["w6"].as_u64().unwrap() as u32);
    let f = c["f"].as_u64().unwrap();
    let w = if f == 4 { w4 } else { w6 };
    let (a, l, ml) = (c["a"].as_u64().unwrap() as u128, c["l"].as_u64().unwrap(), c["ml"].as_u64().unwrap());
    let (ok, rok, mlok) = (c["ok"].as_bool().unwrap(), c["relaxed_ok"].as_bool().unwrap(), c["ml_ok"].as_bool().unwrap());
    let relaxed = c["relaxed"].as_u64().unwrap() as u128;
    for (name, win) in wins(f, w) {
        let case = json!({"case": c, "emb": name});
        let (ip, len) = (win.ip(f, w, a), win.len(f, w, l));
        let r = guarded(|| {
            let strict = Prefix::new(ip, len);
            let rel = Prefix::new_relaxed(ip, len);
            let rel_text = Prefix::from_str_relaxed(&format!("{ip}/{len}"));
            let strict_text = Prefix::from_str(&format!("{ip}/{len}"));
            (strict, rel, rel_text, strict_text)
        });
        match r {
            Err(m) => s.violation("ctor:panic", m, case.clone()),
            Ok((strict, rel, rel_text, strict_text)) => {
                if strict.is_ok() != ok || strict_text.is_ok() != ok {
                    s.violation("ctor:strict", format!("[{name}] Prefix::new({ip},{len}) ok={} / from_str ok={}, specification {ok}", strict.is_ok(), strict_text.is_ok()), case.clone());
                }
                if rel.is_ok() != rok || rel_text.is_ok() != rok {
                    s.violation("ctor:relaxed", format!("[{name}] new_relaxed({ip},{len}) ok={}, specification {rok}", rel.is_ok()), case.clone());
                }
                if let (Ok(p), true) = (rel, rok) {
                    let want = win.ip(f, w, relaxed);
                    if p.addr() != want || p.len() != len || rel_text.ok() != Some(p) {
                        s.violation("ctor:relaxed-value", format!("[{name}] new_relaxed({ip},{len}) = {p}, specification {want}/{len}"), case.clone());
                    }
                    let mlv = ml_opt(&win, f, w, ml);
                    match guarded(|| MaxLenPrefix::new(p, mlv)) {
                        Ok(r) => {
                            if r.is_ok() != mlok {
                                s.violation("ctor:maxlen", format!("[{name}] MaxLenPrefix::new({p},{mlv:?}) ok={}, specification {mlok}", r.is_ok()), case.clone());
                            }
                        }
                        Err(m) => s.violation("ctor:maxlen-panic", m, case.clone()),
                    }
                }
            }
        }
        let key = format!("ct:{f}:{a}:{l}:{ml}:{name}");
        s.eval(Some(&key));
    }
}

fn asn_emb(v: u64) -> Asn {
    Asn::from_u32([0u32, 1, 65536, u32::MAX][v as usize])
}

fn replay_asnset(s: &mut Summary, c: &Value) {
    let seq = |v: &Value| -> Vec<Asn> { v.as_array().unwrap().iter().map(|x| asn_emb(x.as_u64().unwrap())).collect() };
    let (xs, ys) = (seq(&c["xs"]), seq(&c["ys"]));
    let r = guarded(|| {
        let a: SmallAsnSet = xs.iter().copied().collect();
        let b: SmallAsnSet = ys.iter().copied().collect();
        let v = |i: &mut dyn Iterator<Item = Asn>| i.collect::<Vec<Asn>>();
        (
            v(&mut a.iter()),
            v(&mut b.iter()),
            v(&mut a.difference(&b)),
            v(&mut a.symmetric_difference(&b)),
            v(&mut a.intersection(&b)),
            v(&mut a.union(&b)),
            a.len(),
            xs.iter().all(|x| a.contains(*x)),
        )
    });
    match r {
        Err(m) => s.violation("asnset:panic", m, c.clone()),
        Ok((a, b, d, sy, i, u, len, has)) => {
            for (key, got, exp) in [("from_iter", &a, "a"), ("from_iter", &b, "b"), ("difference", &d, "diff"), ("symmetric_difference", &sy, "sym"), ("intersection", &i, "inter"), ("union", &u, "union")] {
                if *got != seq(&c[exp]) {
                    s.violation(&format!("asnset:{key}"), format!("{key} = {got:?}, specification {}", c[exp]), c.clone());
                }
            }
            if len != a.len() || !has {
                s.violation("asnset:len-contains", "len()/contains() disagree with the items".into(), c.clone());
            }
        }
    }
    let key = format!("as:{}:{}", c["xs"], c["ys"]);
    s.eval(if xs.len() + ys.len() >= 2 { Some(&key) } else { None });
}

/// The same laws as AsnSet.tla states them (sorted, duplicate-free, the four operations are the mathematical ones), natively on
/// sets of up to 300 numbers drawn with repeats from a small range, so that whatever is done differently past some size - a
/// sort, a bisection, a bulk copy - is done here too.
fn asnset_sizes(s: &mut Summary) {
    use std::collections::BTreeSet;
    let mut rng = Rng::new(20260925);
    for round in 0..400u64 {
        let (na, nb) = (rng.below(if round % 4 == 0 { 300 } else { 24 }) as usize, rng.below(if round % 3 == 0 { 300 } else { 24 }) as usize);
        let span = [8u64, 40, 400][(round % 3) as usize];
        let base = [0u32, 64496, u32::MAX - 400][(round % 3) as usize];
        let xs: Vec<Asn> = (0..na).map(|_| Asn::from_u32(base + rng.below(span) as u32)).collect();
        let ys: Vec<Asn> = (0..nb).map(|_| Asn::from_u32(base + rng.below(span) as u32)).collect();
        let r = guarded(|| -> Result<(), String> {
            let (a, b): (SmallAsnSet, SmallAsnSet) = (xs.iter().copied().collect(), ys.iter().copied().collect());
            let (ma, mb): (BTreeSet<Asn>, BTreeSet<Asn>) = (xs.iter().copied().collect(), ys.iter().copied().collect());
            let v = |i: &mut dyn Iterator<Item = Asn>| i.collect::<Vec<Asn>>();
            let m = |i: &mut dyn Iterator<Item = &Asn>| i.copied().collect::<Vec<Asn>>();
            for (what, got, want) in [("from_iter", v(&mut a.iter()), m(&mut ma.iter())), ("union", v(&mut a.union(&b)), m(&mut ma.union(&mb))),
                                      ("intersection", v(&mut a.intersection(&b)), m(&mut ma.intersection(&mb))), ("difference", v(&mut a.difference(&b)), m(&mut ma.difference(&mb))),
                                      ("symmetric_difference", v(&mut a.symmetric_difference(&b)), m(&mut ma.symmetric_difference(&mb)))] {
                if got != want { return Err(format!("{what} of sets built from {na} and {nb} numbers has {} members, the mathematical one {}", got.len(), want.len())); }
            }
            if a.len() != ma.len() || xs.iter().any(|x| !a.contains(*x)) || (0..span as u32).any(|d| a.contains(Asn::from_u32(base + d)) != ma.contains(&Asn::from_u32(base + d))) {
                return Err("len() / contains() disagree with the members".into());
            }
            Ok(())
        });
        match r {
            Ok(Ok(())) => {}
            Ok(Err(m)) => s.violation("asnset:sizes", m, json!({"round": round, "na": na, "nb": nb})),
            Err(m) => s.violation("asnset:panic", m, json!({"round": round})),
        }
        s.evals(1);
    }
}

pub fn replay(args: &[String]) {
    let cases = read_cases(&args[0]);
    let mut s = Summary::new();
    asnset_sizes(&mut s);
    for c in &cases {
        match c["op"].as_str().unwrap_or("") {
            "pair" => replay_pair(&mut s, c),
            "ctor" => replay_ctor(&mut s, c),
            "asnset" => replay_asnset(&mut s, c),
            o => {
                eprintln!("unknown op {o}");
                std::process::exit(2)
            }
        }
        if s.samples.len() < 3 && s.evaluations % 1013 == 5 {
            s.sample(c.clone());
        }
    }
    if s.samples.is_empty() {
        if let Some(c) = cases.first() {
            s.sample(c.clone());
        }
    }
    s.print();
}

/// impl -> spec: random prefixes in random windows of the real address space,
/// logged in model coordinates for Trace_PrefixLaws (W4 = 12, W6 = 14).
pub fn drive(args: &[String]) {
    let seed = arg_u64(args, "--seed", 1);
    let n = arg_u64(args, "--n", 2000);
    let out = arg_val(args, "--out").expect("--out");
    let (w4, w6) = (12u32, 14u32);
    let mut rng = Rng::new(seed);
    let mut t = TraceOut::create(&out);
    let mut s = Summary::new();
    for i in 0..n {
        let f = if rng.chance(1, 2) { 4u64 } else { 6 };
        let w = if f == 4 { w4 } else { w6 };
        let nbits = fam_n(f);
        let win = Win { shift: rng.below((nbits - w + 1) as u64) as u32, hi: rng.u128() };
        let genp = |rng: &mut Rng, near: Option<(u128, u64)>| -> (u128, u64) {
            let l = match near {
                Some((_, l0)) if rng.chance(1, 2) => (l0 as i64 + rng.range(0, 4) as i64 - 2).clamp(0, w as i64) as u64,
                _ => rng.range(0, w as u64),
            };
            let raw = match near {
                Some((a0, _)) if rng.chance(2, 3) => a0 ^ (1u128 << rng.below(w as u64)) * rng.below(2) as u128,
                _ => rng.u128() & ((1u128 << w) - 1),
            };
            let host = 1u128 << (w as u64 - l);
            (raw / host * host, l)
        };
        let p = genp(&mut rng, None);
        let q = genp(&mut rng, Some(p));
        let mlp = if rng.chance(1, 3) { 255 } else { rng.range(p.1, w as u64) };
        let mlq = if rng.chance(1, 3) { 255 } else { rng.range(q.1, w as u64) };
        let asn = (rng.below(2), rng.below(2));
        let obs = guarded(|| -> Result<PairObs, String> {
            let pp = mk_prefix(&win, f, w, p.0, p.1)?;
            let qq = mk_prefix(&win, f, w, q.0, q.1)?;
            observe_pair(pp, ml_opt(&win, f, w, mlp), qq, ml_opt(&win, f, w, mlq), (asn_of(asn.0), asn_of(asn.1)))
        });
        let pj = |x: (u128, u64)| json!([f, x.0 as u64, x.1]);
        match obs {
            Ok(Ok(o)) => t.ev(json!({"ev": "pair", "p": pj(p), "q": pj(q), "pml": mlp, "qml": mlq, "asn": [asn.0, asn.1],
                "covers": o.covers, "cmp": o.cmp, "eq": o.eq, "mlcmp": o.mlcmp, "mleq": o.mleq, "ocmp": o.ocmp, "oeq": o.oeq,
                "hash_ok": (!o.eq || o.hash_eq) && (!o.oeq || o.ohash_eq), "shift": win.shift})),
            Ok(Err(m)) | Err(m) => t.ev(json!({"ev": "fail", "p": pj(p), "q": pj(q), "what": m})),
        }
        let key = format!("{i}");
        s.eval(if p != q { Some(&key) } else { None });
        if s.samples.len() < 2 {
            if let Ok(pp) = mk_prefix(&win, f, w, p.0, p.1) {
                s.sample(json!({"concrete_p": pp.to_string(), "model_p": pj(p), "window_shift": win.shift}));
            }
        }
    }
    let nev = t.finish();
    s.set("events", json!(nev));
    s.print();
}
