//! Beyond the listed properties — binds spec/RtrPacing.tla to the real rtr::client::Client talking to the real rtr::server::Server
//! over a wire whose two directions deliver only when the behaviour says so (paused clock, single-threaded runtime).
use crate::common::*;
use crate::rtrconn::{CtlSock, Wire};
use crate::rtrsession::{Source, SrcState, Version};
use rpki::rtr::client::{Client, PayloadError, PayloadTarget};
use rpki::rtr::payload::{Action, Payload, Timing};
use rpki::rtr::server::{NotifySender, Server};
use serde_json::{json, Value};
use std::sync::atomic::{AtomicUsize, Ordering};
use std::sync::{Arc, Mutex};
use std::time::Duration;

struct Count(Arc<AtomicUsize>);
impl PayloadTarget for Count {
    type Update = Vec<(Action, Payload)>;
    fn start(&mut self, _reset: bool) -> Self::Update { Vec::new() }
    fn apply(&mut self, _update: Self::Update, _timing: Timing) -> Result<(), PayloadError> {
        self.0.fetch_add(1, Ordering::SeqCst);
        Ok(())
    }
}

/// moves what an endpoint wrote since the last call into `buf`
fn drain(w: &Arc<Mutex<Wire>>, buf: &mut Vec<u8>) {
    for (k, b, _) in std::mem::take(&mut w.lock().unwrap().events) {
        if k == "write" { buf.extend_from_slice(&b); }
    }
}
fn deliver(w: &Arc<Mutex<Wire>>, bytes: &[u8]) {
    let mut g = w.lock().unwrap();
    g.inbox.extend(bytes);
    if let Some(wk) = g.waker.take() { wk.wake(); }
}
/// length of the first message in a server-to-client byte string: a Serial Notify, or a whole response up to its End of Data /
/// a Cache Reset / an Error PDU
fn first_message(b: &[u8]) -> Option<usize> {
    let mut i = 0;
    loop {
        if b.len() < i + 8 { return None; }
        let typ = b[i + 1];
        let len = u32::from_be_bytes([b[i + 4], b[i + 5], b[i + 6], b[i + 7]]) as usize;
        if b.len() < i + len { return None; }
        i += len;
        if (typ == 0 && i == len) || typ == 7 || typ == 8 || typ == 10 { return Some(i); }
    }
}

fn run(c: &Value) -> Result<(), (String, String)> {
    let refresh = c["refresh"].as_u64().unwrap();
    let log = c["log"].as_array().unwrap();
    // timing 3 of the harness' source: refresh 20 s; one tick of the model is refresh / Refresh (5 s: IO_TIMEOUT, 10 s, is Patience = 2)
    let tick = Duration::from_millis(20_000 / refresh);
    let src = Source(Arc::new(Mutex::new(SrcState {
        evlog: None,
        hist: vec![Version { session: 1, serial: 5, data: vec![(0, "o4".into(), 0), (1, "k1".into(), 0)] }],
        timing: 3, window: 1, serial_base: 0, calls: 0, pending: vec![], ready: true, cut_at: None, dead: Default::default(), order_desc: false,
    })));
    let (wc, ws) = (Arc::new(Mutex::new(Wire::default())), Arc::new(Mutex::new(Wire::default())));
    let applied = Arc::new(AtomicUsize::new(0));
    let rt = tokio::runtime::Builder::new_current_thread().enable_time().start_paused(true).build().unwrap();
    let mut verdict: Result<(), (String, String)> = Ok(());
    rt.block_on(async {
        let mut notify = NotifySender::new();
        let listener = Box::pin(futures_util::stream::iter(vec![Ok::<CtlSock, std::io::Error>(CtlSock(ws.clone()))]));
        let server = Server::new(listener, notify.clone(), src.clone());
        let hs = tokio::spawn(async move { let _ = server.run().await; });
        let mut client = Client::with_initial_version(1, CtlSock(wc.clone()), Count(applied.clone()), None);
        let ended: Arc<Mutex<Option<String>>> = Arc::new(Mutex::new(None));
        let e2 = ended.clone();
        let hc = tokio::spawn(async move {
            let r = client.run().await;
            *e2.lock().unwrap() = Some(match r { Ok(()) => "eof".to_string(), Err(e) => e.to_string() });
        });
        let settle = || async { for _ in 0..40 { tokio::task::yield_now().await; } };
        let (mut c2s, mut s2c): (Vec<u8>, Vec<u8>) = (vec![], vec![]);
        let mut queries = 0usize;       // queries the client has written so far
        let mut consumed = 0usize;      // bytes of c2s already handed to the server
        let mut c2s_all: Vec<u8> = vec![];
        for (i, a) in log.iter().enumerate() {
            let act = a[0].as_str().unwrap();
            match act {
                "start" | "timeout" | "giveup" => {}          // the client does these by itself (at spawn, at the tick that reaches the deadline)
                "tick" => tokio::time::sleep(tick).await,
                "notify" => notify.notify(),
                "serve" => {
                    // the next whole query: serial query 12 bytes, reset query 8
                    let n = if c2s.len() >= 8 { u32::from_be_bytes([c2s[4], c2s[5], c2s[6], c2s[7]]) as usize } else { 0 };
                    if n == 0 || c2s.len() < n {
                        verdict = Err(("pacing:no-query".into(), format!("step {i} ({act}): the specification has a query in flight, the client has written {:?}", c2s)));
                        break;
                    }
                    let q: Vec<u8> = c2s.drain(..n).collect();
                    consumed += n;
                    deliver(&ws, &q);
                }
                _ => {
                    let Some(n) = first_message(&s2c) else {
                        verdict = Err(("pacing:no-message".into(), format!("step {i} ({act}): the specification has a message for the client in flight, the server has written {:?}", s2c)));
                        break;
                    };
                    let m: Vec<u8> = s2c.drain(..n).collect();
                    deliver(&wc, &m);
                }
            }
            settle().await;
            let before = c2s_all.len();
            let mut fresh = vec![];
            drain(&wc, &mut fresh);
            c2s.extend_from_slice(&fresh);
            c2s_all.extend_from_slice(&fresh);
            drain(&ws, &mut s2c);
            // count whole queries written so far
            let mut p = 0; let mut n = 0;
            while c2s_all.len() >= p + 8 { let l = u32::from_be_bytes([c2s_all[p + 4], c2s_all[p + 5], c2s_all[p + 6], c2s_all[p + 7]]) as usize; if l < 8 || c2s_all.len() < p + l { break; } p += l; n += 1; }
            queries = n;
            let _ = (before, consumed);
            // a query may only appear where the specification sends one: at start, at a timeout (or the tick before it), on a delivery
            if act == "notify" || act == "serve" {
                if c2s_all.len() != before {
                    verdict = Err(("pacing:unprompted-query".into(), format!("step {i} ({act}): the client wrote {:?} although nothing reached it and no timer was due", &c2s_all[before..])));
                    break;
                }
            }
        }
        if verdict.is_ok() {
            let failed = ended.lock().unwrap().clone();
            let want_failed = c["failed"].as_bool().unwrap() || c["timedout"].as_bool().unwrap();
            if let (Some(why), true) = (&failed, want_failed) {
                let timed = why.contains("timed out");
                if timed != c["timedout"].as_bool().unwrap() {
                    verdict = Err(("pacing:why".into(), format!("client ended with '{why}', specification: timedout = {} (log {})", c["timedout"], c["log"])));
                }
            }
            let (asked, answered) = (c["asked"].as_u64().unwrap() as usize, c["answered"].as_u64().unwrap() as usize);
            if verdict.is_err() {
            } else if failed.is_some() != want_failed {
                verdict = Err((format!("pacing:{}", if want_failed { "survived" } else { "gave-up" }),
                               format!("client ended = {failed:?}, specification failed = {want_failed} (log {})", c["log"])));
            } else if queries != asked || applied.load(Ordering::SeqCst) != answered {
                verdict = Err(("pacing:counts".into(), format!("client sent {queries} queries and completed {} updates, specification {asked} and {answered} (log {})", applied.load(Ordering::SeqCst), c["log"])));
            }
        }
        hc.abort();
        hs.abort();
    });
    verdict
}

pub fn replay(args: &[String]) {
    let cases = read_cases(&args[0]);
    let mut s = Summary::new();
    for (i, c) in cases.iter().enumerate() {
        match guarded(|| run(c)) {
            Ok(Ok(())) => {}
            Ok(Err((k, m))) => s.violation(&k, m, c.clone()),
            Err(m) => s.violation("pacing:panic", m, c.clone()),
        }
        s.eval(Some(&c["log"].to_string()));
        s.count(if c["failed"] == true { "behaviours_crossing_kills_client" } else if c["timedout"] == true { "behaviours_client_times_out" } else { "behaviours_client_survives" }, 1);
        if i % 4999 == 3 { s.sample(c.clone()); }
    }
    let _ = json!(null);
    s.print();
}

/// impl -> spec: one long randomly scheduled conversation (real client, real server, commanded wire, paused clock); after every
/// action the observable counters are recorded; spec/Trace_RtrPacing.tla must explain every line (time in milliseconds).
pub fn drive(args: &[String]) {
    let seed = arg_u64(args, "--seed", 1);
    let n = arg_u64(args, "--n", 120);
    let runs = arg_u64(args, "--runs", 6);
    let out = arg_val(args, "--out").expect("--out");
    let mut t = TraceOut::create(&out);
    let mut s = Summary::new();
    for run in 0..runs {
        let mut rng = Rng::new(seed.wrapping_mul(1000) + run);
        let src = Source(Arc::new(Mutex::new(SrcState {
            evlog: None,
            hist: vec![Version { session: 1, serial: 5, data: vec![(0, "o4".into(), 0), (1, "k1".into(), 0)] }],
            timing: 3, window: 1, serial_base: 0, calls: 0, pending: vec![], ready: true, cut_at: None, dead: Default::default(), order_desc: false,
        })));
        let (wc, ws) = (Arc::new(Mutex::new(Wire::default())), Arc::new(Mutex::new(Wire::default())));
        let applied = Arc::new(AtomicUsize::new(0));
        let rt = tokio::runtime::Builder::new_current_thread().enable_time().start_paused(true).build().unwrap();
        let mut evs: Vec<Value> = vec![json!({"ev": "reset"})];
        rt.block_on(async {
            let mut notify = NotifySender::new();
            let listener = Box::pin(futures_util::stream::iter(vec![Ok::<CtlSock, std::io::Error>(CtlSock(ws.clone()))]));
            let server = Server::new(listener, notify.clone(), src.clone());
            let hs = tokio::spawn(async move { let _ = server.run().await; });
            let mut client = Client::with_initial_version(1, CtlSock(wc.clone()), Count(applied.clone()), None);
            let ended: Arc<Mutex<Option<String>>> = Arc::new(Mutex::new(None));
            let e2 = ended.clone();
            let hc = tokio::spawn(async move {
                let r = client.run().await;
                *e2.lock().unwrap() = Some(match r { Ok(()) => "eof".to_string(), Err(e) => e.to_string() });
            });
            let settle = || async { for _ in 0..40 { tokio::task::yield_now().await; } };
            let (mut c2s, mut s2c): (Vec<u8>, Vec<u8>) = (vec![], vec![]);
            let mut queries = 0u64;
            let steps: [u64; 14] = [1, 500, 2500, 4999, 5000, 5001, 9999, 10000, 10001, 15000, 19999, 20000, 20001, 30000];
            for i in 0..=n {
                let mut ev = if i == 0 { json!({"ev": "start"}) } else {
                    // mostly keep the conversation going (serve and deliver promptly), now and then let things cross or time out
                    let busy = queries as usize > applied.load(Ordering::SeqCst);
                    let mut opts: Vec<&str> = vec![];
                    for _ in 0..(if busy { 1 } else { 5 }) { opts.push("advance"); }
                    if applied.load(Ordering::SeqCst) >= 1 { opts.push("notify"); if !busy { opts.push("notify"); } }
                    if c2s.len() >= 8 { for _ in 0..8 { opts.push("serve"); } }
                    if first_message(&s2c).is_some() { for _ in 0..8 { opts.push("deliver"); } }
                    match *rng.pick(&opts) {
                        "advance" => {
                            let dt = if busy && rng.chance(5, 6) { rng.range(1, 1500) } else if rng.chance(1, 4) { rng.range(1, 25000) } else { *rng.pick(&steps) };
                            tokio::time::sleep(Duration::from_millis(dt)).await;   // (the paused clock auto-advances from timer to timer: every timer fires at its own instant)
                            json!({"ev": "advance", "dt": dt})
                        }
                        "notify" => { notify.notify(); json!({"ev": "notify"}) }
                        "serve" => {
                            let l = u32::from_be_bytes([c2s[4], c2s[5], c2s[6], c2s[7]]) as usize;
                            let q: Vec<u8> = c2s.drain(..l).collect();
                            deliver(&ws, &q);
                            json!({"ev": "serve"})
                        }
                        _ => {
                            let l = first_message(&s2c).unwrap();
                            let m: Vec<u8> = s2c.drain(..l).collect();
                            deliver(&wc, &m);
                            json!({"ev": "deliver"})
                        }
                    }
                };
                settle().await;
                let mut fresh = vec![];
                drain(&wc, &mut fresh);
                // whole queries only (a query is written in one go)
                let mut p = 0;
                while fresh.len() >= p + 8 { let l = u32::from_be_bytes([fresh[p + 4], fresh[p + 5], fresh[p + 6], fresh[p + 7]]) as usize; if l < 8 || fresh.len() < p + l { break; } p += l; queries += 1; }
                c2s.extend_from_slice(&fresh);
                drain(&ws, &mut s2c);
                let end = ended.lock().unwrap().clone();
                ev["q"] = json!(queries);
                ev["a"] = json!(applied.load(Ordering::SeqCst));
                ev["end"] = json!(match &end { None => "no", Some(w) if w.contains("timed out") => "timedout", Some(_) => "failed" });
                evs.push(ev);
                if end.is_some() { break; }
            }
            hc.abort();
            hs.abort();
        });
        let last = evs.last().unwrap()["end"].as_str().unwrap().to_string();
        s.count(&format!("runs_end_{last}"), 1);
        s.evals(evs.len() as u64);
        for e in evs { t.ev(e); }
    }
    s.set("events", json!(t.finish()));
    s.print();
}
