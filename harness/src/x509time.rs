//! C17 — binds spec/X509Time.tla to rpki::repository::x509::{Time, Validity, Serial}.
use crate::common::*;
use crate::der;
use bcder::encode::{PrimitiveContent, Values};
use bcder::Mode;
use rpki::repository::x509::{Serial, Time, Validity};
use serde_json::{json, Value};
use std::str::FromStr;

fn joined(v: &Value) -> String {
    v.as_array().unwrap().iter().map(|c| c.as_str().unwrap()).collect()
}
fn tvec(v: &Value) -> Option<[i64; 6]> {
    let a = v.as_array()?;
    if a.len() != 6 {
        return None;
    }
    let mut r = [0i64; 6];
    for (i, x) in a.iter().enumerate() {
        r[i] = x.as_i64().unwrap();
    }
    Some(r)
}
fn mk_time(t: [i64; 6]) -> Time {
    Time::utc(t[0] as i32, t[1] as u32, t[2] as u32, t[3] as u32, t[4] as u32, t[5] as u32)
}
fn parts(t: &Time) -> [i64; 6] {
    use chrono::{Datelike, Timelike};
    [t.year() as i64, t.month() as i64, t.day() as i64, t.hour() as i64, t.minute() as i64, t.second() as i64]
}
fn tagbyte(tag: &str) -> u8 {
    if tag == "utc" { 0x17 } else { 0x18 }
}
fn decode_time(tag: &str, s: &str) -> Result<Result<Time, String>, String> {
    let bytes = der::tlv(tagbyte(tag), s.as_bytes());
    guarded(|| Mode::Der.decode(bytes.as_ref(), Time::take_from).map_err(|e| e.to_string()))
}
/// A writer that takes at most `0` octets per call (a socket, a pipe: `write` may always take less than it is given).
struct Pieces(usize, Vec<u8>);
impl std::io::Write for Pieces {
    fn write(&mut self, buf: &[u8]) -> std::io::Result<usize> {
        let n = buf.len().min(self.0);
        self.1.extend_from_slice(&buf[..n]);
        Ok(n)
    }
    fn flush(&mut self) -> std::io::Result<()> { Ok(()) }
}
/// The DER a value writes, whatever it is written into: the captured form, and the same through writers that take one octet
/// and five octets per call.  If they differ the odd one out is returned (the caller's comparison then reports it).
fn der_of<V: bcder::encode::Values>(v: V) -> Vec<u8> {
    use bcder::encode::Values;
    let whole = v.to_captured(Mode::Der).into_bytes().to_vec();
    for k in [1usize, 5] {
        let mut w = Pieces(k, Vec::new());
        if v.write_encoded(Mode::Der, &mut w).is_err() || w.1 != whole {
            return w.1;
        }
    }
    whole
}
fn encode_time(t: Time) -> Vec<u8> {
    der_of(t.encode_varied())
}

fn replay_time(s: &mut Summary, c: &Value) {
    let t = tvec(&c["t"]).unwrap();
    let valid = c["valid"].as_bool().unwrap();
    let (gent, utc) = (joined(&c["gen"]), joined(&c["utc"]));
    if valid {
        let tag = c["tag"].as_str().unwrap();
        let text = joined(&c["str"]);
        match guarded(|| encode_time(mk_time(t))) {
            Ok(bytes) => {
                let want = der::tlv(tagbyte(tag), text.as_bytes());
                if bytes != want {
                    s.violation("encode", format!("{t:?} encodes to {:02x?} ('{}'), specification tag {tag} '{text}'", &bytes[..2], String::from_utf8_lossy(&bytes[2..])), c.clone());
                }
            }
            Err(m) => s.violation("encode:panic", m, c.clone()),
        }
        // the instant read from RFC 3339 text is the same instant whatever zone the text is written in
        {
            use chrono::{FixedOffset, SecondsFormat};
            use std::str::FromStr;
            let inst = mk_time(t);
            for secs in [0i32, 7200, -5400, 50400, -43200] {
                let text = (*inst).with_timezone(&FixedOffset::east_opt(secs).unwrap()).to_rfc3339_opts(SecondsFormat::Secs, secs == 0);
                match guarded(|| Time::from_str(&text)) {
                    Ok(Ok(got)) if got == inst => {}
                    Ok(Ok(got)) => s.violation("text:offset", format!("Time::from_str('{text}') = {got:?}, the instant is {inst:?}"), c.clone()),
                    Ok(Err(e)) => s.violation("text:offset", format!("Time::from_str('{text}') fails: {e}"), c.clone()),
                    Err(m) => s.violation("text:panic", m, c.clone()),
                }
            }
        }
        // canonical form must decode back to the same instant
        match decode_time(tag, &text) {
            Ok(Ok(got)) if parts(&got) == t => {}
            Ok(Ok(got)) => s.violation("decode:value", format!("{tag} '{text}' decodes to {:?}, specification {t:?}", parts(&got)), c.clone()),
            Ok(Err(e)) => {
                if t[0] >= 1 {
                    s.violation("decode:rejects-canonical", format!("{tag} '{text}' rejected: {e}"), c.clone())
                }
            }
            Err(m) => s.violation("decode:panic", m, c.clone()),
        }
        // the other tag: may be accepted; if so the value is fixed by the pivot rule
        if let Ok(Ok(got)) = decode_time("gen", &gent) {
            if parts(&got) != t {
                s.violation("decode:value", format!("gen '{gent}' decodes to {:?}, specification {t:?}", parts(&got)), c.clone());
            }
        }
        let back = tvec(&c["utc_back"]);
        match (decode_time("utc", &utc), back) {
            (Ok(Ok(got)), Some(b)) => {
                if parts(&got) != b {
                    s.violation("decode:pivot", format!("utc '{utc}' decodes to {:?}, specification {b:?}", parts(&got)), c.clone());
                }
            }
            (Ok(Ok(got)), None) => s.violation("decode:accepts-invalid", format!("utc '{utc}' accepted as {:?}", parts(&got)), c.clone()),
            (Err(m), _) => s.violation("decode:panic", m, c.clone()),
            _ => {}
        }
    } else {
        for (tag, text) in [("gen", &gent), ("utc", &utc)] {
            if tag == "utc" && !(1950..=2049).contains(&t[0]) {
                continue; // the two-digit form of another century names a different (possibly real) date
            }
            match decode_time(tag, text) {
                Ok(Ok(got)) => s.violation("decode:accepts-invalid", format!("{tag} '{text}' names no real date/time but decodes to {:?}", parts(&got)), c.clone()),
                Ok(Err(_)) => {}
                Err(m) => s.violation("decode:panic", m, c.clone()),
            }
        }
    }
    s.eval_if(true, &format!("t{t:?}"));
}

fn replay_decode(s: &mut Summary, c: &Value) {
    let (tag, text) = (c["tag"].as_str().unwrap(), joined(&c["s"]));
    let ok = c["ok"].as_bool().unwrap();
    match (decode_time(tag, &text), ok) {
        (Err(m), _) => s.violation("decode:panic", m, c.clone()),
        (Ok(Ok(got)), false) => s.violation("decode:accepts-invalid", format!("{tag} '{text}' is not a well-formed time but decodes to {:?}", parts(&got)), c.clone()),
        (Ok(Ok(got)), true) => {
            let want = tvec(&c["val"]).unwrap();
            if parts(&got) != want {
                s.violation("decode:value", format!("{tag} '{text}' decodes to {:?}, specification {want:?}", parts(&got)), c.clone());
            }
        }
        (Ok(Err(e)), true) => {
            let want = tvec(&c["val"]).unwrap();
            let canonical = if (1950..=2049).contains(&want[0]) { "utc" } else { "gen" };
            if tag == canonical && want[0] >= 1 {
                s.violation("decode:rejects-canonical", format!("{tag} '{text}' rejected: {e}"), c.clone());
            }
        }
        (Ok(Err(_)), false) => {}
    }
    s.eval_if(true, &format!("{tag}{text}"));
}

fn replay_window(s: &mut Summary, c: &Value) {
    let g = |k: &str| c[k].as_u64().unwrap() as usize;
    // the entry point that reads the clock itself: the model's four instants an hour apart around the wall clock, "now" between
    // the second and the third of them - decided for the cases whose evaluation instant is the second one and whose window ends do
    // not sit on it (the real clock is a little later than instant 1, never on it)
    if g("now") == 1 {
        let r = guarded(|| -> Result<(), (String, String)> {
            let base = Time::now();
            let h = |i: usize| base + chrono::TimeDelta::try_minutes(60 * (i as i64 - 1) - if i <= 1 { 1 } else { 0 }).unwrap();
            let v = Validity::new(h(g("nb")), h(g("na")));
            let want = g("nb") <= 1 && 1 <= g("na") && g("na") != 1;
            // (na = instant 1 lies a minute in the past: rejected; nb = instant 1 likewise in the past: accepted)
            let got = v.verify().is_ok();
            if got != want {
                return Err(("window:verify:clock".into(), format!("Validity::verify() = {got} for a window from {} to {} hours around now", g("nb") as i64 - 1, g("na") as i64 - 1)));
            }
            Ok(())
        });
        match r {
            Ok(Ok(())) => {}
            Ok(Err((k, m))) => s.violation(&k, m, json!({"case": c})),
            Err(m) => s.violation("window:panic", m, c.clone()),
        }
    }
    // instants with a fractional second: evaluation times come from the clock (Time::now()), windows from certificates
    let ms = |t: Time, m: i64| t + chrono::TimeDelta::try_milliseconds(m).unwrap();
    let noon = Time::utc(2024, 5, 6, 12, 0, 0);
    let maps: [[Time; 4]; 4] = [
        [Time::utc(1949, 12, 31, 23, 59, 59), Time::utc(1950, 1, 1, 0, 0, 0), Time::utc(2049, 12, 31, 23, 59, 59), Time::utc(2050, 1, 1, 0, 0, 0)],
        [Time::utc(2024, 2, 28, 23, 59, 59), Time::utc(2024, 2, 29, 0, 0, 0), Time::utc(2024, 2, 29, 0, 0, 1), Time::utc(9999, 12, 31, 23, 59, 59)],
        [noon, ms(noon, 500), ms(noon, 1000), ms(noon, 1500)],
        [ms(noon, 1), ms(noon, 250), ms(noon, 999), ms(noon, 1001)],
    ];
    for (mi, m) in maps.iter().enumerate() {
        let r = guarded(|| -> Result<(), (String, String)> {
            let v = Validity::new(m[g("nb")], m[g("na")]);
            let ok = v.verify_at(m[g("now")]).is_ok();
            if ok != c["ok"].as_bool().unwrap() {
                return Err(("window:verify".into(), format!("verify_at = {ok}, specification {}", c["ok"])));
            }
            let tr = v.trim(Validity::new(m[g("nb2")], m[g("na2")]));
            let (e1, e2) = (c["trim"][0].as_u64().unwrap() as usize, c["trim"][1].as_u64().unwrap() as usize);
            if tr.not_before() != m[e1] || tr.not_after() != m[e2] {
                return Err(("window:trim".into(), "trim is not the intersection".into()));
            }
            if mi >= 2 {
                return Ok(()); // X.509 cannot carry fractions of a second: no encoding round trip for these
            }
            let bytes = der_of(v.encode());
            let back = Mode::Der.decode(bytes.as_slice(), Validity::take_from).map_err(|e| ("window:der".to_string(), e.to_string()))?;
            if back != v {
                return Err(("window:der".into(), format!("validity {v:?} decodes back as {back:?}")));
            }
            Ok(())
        });
        match r {
            Ok(Ok(())) => {}
            Ok(Err((k, m))) => s.violation(&k, m, json!({"case": c, "map": mi})),
            Err(m) => s.violation("window:panic", m, c.clone()),
        }
        s.eval_if(g("nb") != g("na"), &format!("w{}{}{}{}{}{mi}", g("nb"), g("na"), g("now"), g("nb2"), g("na2")));
    }
}

/// schoolbook decimal of a big-endian byte string (independent of the library)
fn big_dec(bytes: &[u8]) -> String {
    let mut digits: Vec<u8> = vec![0];
    for &b in bytes {
        let mut carry = b as u32;
        for d in digits.iter_mut() {
            let v = *d as u32 * 256 + carry;
            *d = (v % 10) as u8;
            carry = v / 10;
        }
        while carry > 0 {
            digits.push((carry % 10) as u8);
            carry /= 10;
        }
    }
    digits.iter().rev().map(|d| (b'0' + d) as char).collect()
}
fn min_der(bytes: &[u8]) -> Vec<u8> {
    let mut i = 0;
    while i + 1 < bytes.len() && bytes[i] == 0 {
        i += 1;
    }
    let mut v = Vec::new();
    if bytes[i] & 0x80 != 0 {
        v.push(0);
    }
    v.extend_from_slice(&bytes[i..]);
    v
}

fn check_serial(s: &mut Summary, c: &Value, label: &str, bytes: &[u8], exp_der: &[u8], exp_dec: &str) -> Option<Serial> {
    let case = json!({"case": c, "emb": label});
    let r = guarded(|| -> Result<Serial, (String, String)> {
        let ser = Serial::from_slice(bytes).map_err(|e| ("serial:from_slice".to_string(), e.to_string()))?;
        let enc = ser.encode().to_captured(Mode::Der).into_bytes();
        if enc.as_ref() != der::tlv(0x02, exp_der) {
            return Err(("serial:der".into(), format!("DER {:02x?}, specification {:02x?}", enc.as_ref(), der::tlv(0x02, exp_der))));
        }
        let back = Mode::Der.decode(enc.as_ref(), Serial::take_from).map_err(|e| ("serial:der-decode".to_string(), e.to_string()))?;
        if back != ser {
            return Err(("serial:der-decode".into(), "DER round trip changed the serial".into()));
        }
        let text = ser.to_string();
        let nonzero = bytes.iter().any(|b| *b != 0);
        if nonzero && text != exp_dec {
            return Err(("serial:decimal".into(), format!("decimal text '{text}', specification '{exp_dec}'")));
        }
        if Serial::from_str(&text).ok() != Some(ser) || Serial::from_str(exp_dec).ok() != Some(ser) {
            return Err(("serial:decimal-roundtrip".into(), format!("decimal text '{text}' / '{exp_dec}' does not parse back")));
        }
        let j = serde_json::to_string(&ser).map_err(|e| ("serial:serde".to_string(), e.to_string()))?;
        if serde_json::from_str::<Serial>(&j).ok() != Some(ser) {
            return Err(("serial:serde".into(), format!("serde form {j} does not parse back")));
        }
        // the other conversions: the 20-octet array in both directions, String, and (for small values) the integer constructors
        let mut arr = [0u8; 20];
        arr[20 - bytes.len()..].copy_from_slice(bytes);
        let via: [(&str, Option<Serial>); 2] = [("from_array", Serial::from_array(arr).ok()), ("try_from", Serial::try_from(arr).ok())];
        for (name, v) in via {
            if v != Some(ser) {
                return Err(("serial:array".into(), format!("{name} of the 20-octet form gives {v:?}")));
            }
        }
        let out: [u8; 20] = ser.into();
        if ser.into_array() != arr || out != arr {
            return Err(("serial:array".into(), format!("into_array / Into<[u8; 20]> give {:02x?}", ser.into_array())));
        }
        if nonzero && String::from(ser) != exp_dec {
            return Err(("serial:decimal".into(), format!("String::from gives '{}', specification '{exp_dec}'", String::from(ser))));
        }
        if bytes.len() <= 16 {
            let mut v: u128 = 0;
            for b in bytes { v = (v << 8) | *b as u128; }
            if Serial::from(v) != ser || (v <= u64::MAX as u128 && Serial::from(v as u64) != ser) {
                return Err(("serial:from-int".into(), format!("Serial::from({v}) differs from from_slice")));
            }
        }
        Ok(ser)
    });
    match r {
        Ok(Ok(x)) => Some(x),
        Ok(Err((k, m))) => {
            s.violation(&k, format!("[{label}] serial {bytes:02x?}: {m}"), case);
            None
        }
        Err(m) => {
            s.violation("serial:panic", m, case);
            None
        }
    }
}

fn replay_serial(s: &mut Summary, c: &Value) {
    let bv = |k: &str| -> Vec<u8> { c[k].as_array().unwrap().iter().map(|x| x.as_u64().unwrap() as u8).collect() };
    let (sa, sb, der_) = (bv("sa"), bv("sb"), bv("der"));
    let dec = joined(&c["dec"]);
    let a = check_serial(s, c, "low", &sa, &der_, &dec);
    let b = guarded(|| Serial::from_slice(&sb).ok()).ok().flatten();
    if let (Some(a), Some(b)) = (a, b) {
        let (lt, eq) = (c["lt"].as_bool().unwrap(), c["eq"].as_bool().unwrap());
        if (a < b) != lt || (a == b) != eq || (a > b) != (!lt && !eq) {
            s.violation("serial:order", format!("order of {sa:02x?} vs {sb:02x?}: <={} =={}; specification lt={lt} eq={eq}", a < b, a == b), c.clone());
        }
    }
    // the same digits at the top of the 20-octet form (value * 256^17)
    let mut hi = sa.clone();
    while hi.len() < 3 {
        hi.insert(0, 0);
    }
    hi.extend(std::iter::repeat(0u8).take(17));
    if hi[0] & 0x80 == 0 {
        check_serial(s, c, "high", &hi, &min_der(&hi), &big_dec(&hi));
        let mut hi1 = hi.clone();
        hi1[19] = 0xFF;
        check_serial(s, c, "high+ff", &hi1, &min_der(&hi1), &big_dec(&hi1));
    } else if let Ok(Ok(_)) = guarded(|| Serial::from_slice(&hi)) {
        s.violation("serial:accepts-160-bit", format!("serial {hi:02x?} has the top bit set but was accepted"), c.clone());
    }
    // ... and at every length in between: the same digits followed by 1..16 zero octets (4 to 19 significant octets), so that every
    // length-dependent path of the conversions (machine-word fast paths included) sees values just above and below its threshold
    if sa.iter().any(|b| *b != 0) && sa[0] != 0 {
        for pad in 1..=16usize {
            let mut v = sa.clone();
            v.extend(std::iter::repeat(0u8).take(pad));
            if v.len() <= 20 && !(v.len() == 20 && v[0] & 0x80 != 0) {
                check_serial(s, c, "mid", &v, &min_der(&v), &big_dec(&v));
                let mut v1 = v.clone();
                let n = v1.len();
                v1[n - 1] = 0xFF;
                check_serial(s, c, "mid+ff", &v1, &min_der(&v1), &big_dec(&v1));
            }
        }
    }
    s.eval_if(sa != sb, &format!("s{sa:?}{sb:?}"));
}

/// decimal text beyond the 159 bits a serial number can hold: refused, never folded back into range
fn serial_text_limits(s: &mut Summary) {
    let pow2 = |bit: usize, add: u8| -> Vec<u8> { let n = bit / 8 + 1; let mut v = vec![0u8; n]; v[0] = 1 << (bit % 8); v[n - 1] |= add; v };
    let mut cases: Vec<(Vec<u8>, bool)> = vec![
        ({ let mut v = vec![0xFFu8; 20]; v[0] = 0x7F; v }, true),          // 2^159 - 1: the largest serial number
        (pow2(159, 0), false), ({ vec![0xFFu8; 20] }, false),                // 2^159, 2^160 - 1
        (pow2(160, 0), false), (pow2(160, 4), false), (pow2(160, 0x7F), false),
        (pow2(161, 1), false), ({ let mut v = pow2(161, 7); v[0] |= 1; v }, false), (pow2(167, 5), false), (pow2(200, 9), false),
    ];
    cases.push((vec![0x09; 26], false));
    for (bytes, ok) in cases {
        let text = big_dec(&bytes);
        match guarded(|| Serial::from_str(&text)) {
            Err(m) => s.violation("serial:panic", format!("Serial::from_str('{text}') panicked: {m}"), json!({"text": text})),
            Ok(r) => {
                if r.is_ok() != ok {
                    s.violation(if ok { "serial:decimal-roundtrip" } else { "serial:accepts-overlong-text" },
                                format!("Serial::from_str('{text}') ({} bits) = {:?}", bytes.len() * 8, r.map(|x| x.to_string()).map_err(|e| e.to_string())), json!({"text": text}));
                } else if let Ok(x) = r {
                    if x.to_string() != text { s.violation("serial:decimal", format!("'{text}' parses and prints as '{x}'"), json!({"text": text})); }
                }
            }
        }
        s.evals(1);
    }
}

pub fn replay(args: &[String]) {
    let cases = read_cases(&args[0]);
    let mut s = Summary::new();
    serial_text_limits(&mut s);
    for c in &cases {
        match c["op"].as_str().unwrap_or("") {
            "time" => replay_time(&mut s, c),
            "decode" => replay_decode(&mut s, c),
            "window" => replay_window(&mut s, c),
            "serial" => replay_serial(&mut s, c),
            o => {
                eprintln!("unknown op {o}");
                std::process::exit(2)
            }
        }
        if s.samples.len() < 4 && s.evaluations % 3001 < 2 {
            s.sample(c.clone());
        }
    }
    s.print();
}

/// Rust transcription of the spec's Enc (validated against TLC's tables by `replay`).
fn spec_enc(t: [i64; 6]) -> (u8, String) {
    if (1950..=2049).contains(&t[0]) {
        (0x17, format!("{:02}{:02}{:02}{:02}{:02}{:02}Z", t[0] % 100, t[1], t[2], t[3], t[4], t[5]))
    } else {
        (0x18, format!("{:04}{:02}{:02}{:02}{:02}{:02}Z", t[0], t[1], t[2], t[3], t[4], t[5]))
    }
}
fn leap(y: i64) -> bool {
    (y % 4 == 0 && y % 100 != 0) || y % 400 == 0
}
fn days_in(y: i64, m: i64) -> i64 {
    match m {
        1 | 3 | 5 | 7 | 8 | 10 | 12 => 31,
        4 | 6 | 9 | 11 => 30,
        _ => if leap(y) { 29 } else { 28 },
    }
}

/// Native loop: every calendar day of the years [from, to] x boundary seconds + one random second.
pub fn native(args: &[String]) {
    let from = arg_u64(args, "--from", 1) as i64;
    let to = arg_u64(args, "--to", 9999) as i64;
    let stride = arg_u64(args, "--stride", 1) as i64;
    let mut rng = Rng::new(arg_u64(args, "--seed", 1));
    let mut s = Summary::new();
    let mut y = from;
    while y <= to {
        for m in 1..=12 {
            for d in 1..=days_in(y, m) {
                let rs = [rng.below(24) as i64, rng.below(60) as i64, rng.below(60) as i64];
                for hms in [[0, 0, 0], [23, 59, 59], rs] {
                    let t = [y, m, d, hms[0], hms[1], hms[2]];
                    let (tag, text) = spec_enc(t);
                    let r = guarded(|| {
                        let bytes = encode_time(mk_time(t));
                        let back = Mode::Der.decode(bytes.as_ref(), Time::take_from).map(|x| parts(&x)).ok();
                        (bytes, back)
                    });
                    match r {
                        Ok((bytes, back)) => {
                            if bytes != der::tlv(tag, text.as_bytes()) {
                                s.violation("native:encode", format!("{t:?} encodes as '{}'", String::from_utf8_lossy(&bytes[2..])), json!({"t": t}));
                            }
                            if back != Some(t) {
                                s.violation("native:roundtrip", format!("{t:?} decodes back as {back:?}"), json!({"t": t}));
                            }
                        }
                        Err(m) => s.violation("native:panic", m, json!({"t": t})),
                    }
                    s.evals(1);
                }
            }
            // the day after the last day of the month must not decode
            let bad = [y, m, days_in(y, m) + 1, 0, 0, 0];
            let (tag, text) = spec_enc(bad);
            if let Ok(Ok(_)) = decode_time(if tag == 0x17 { "utc" } else { "gen" }, &text) {
                s.violation("native:accepts-invalid", format!("'{text}' accepted"), json!({"t": bad}));
            }
        }
        s.nontrivial(&format!("y{y}"));
        y += stride;
    }
    s.sample(json!({"years": [from, to], "stride": stride}));
    s.print();
}

// --------------------------------------------------------------------------
// impl -> spec
// --------------------------------------------------------------------------
fn chars_of(s: &str) -> Value {
    Value::Array(s.chars().map(|c| json!(c.to_string())).collect())
}

pub fn drive(args: &[String]) {
    let seed = arg_u64(args, "--seed", 1);
    let n = arg_u64(args, "--n", 3000);
    let out = arg_val(args, "--out").expect("--out");
    let mut rng = Rng::new(seed);
    let mut t = TraceOut::create(&out);
    let mut s = Summary::new();
    for i in 0..n {
        let y = match rng.below(6) { 0 => rng.range(1, 9999), 1 => rng.range(1940, 2060), 2 => *rng.pick(&[1949u64, 1950, 2049, 2050, 2000, 1999]), _ => rng.range(1, 9999) } as i64;
        let m = rng.range(1, 12) as i64;
        let d = if rng.chance(1, 4) { days_in(y, m) } else { rng.range(1, days_in(y, m) as u64) as i64 };
        let tt = [y, m, d, rng.below(24) as i64, rng.below(60) as i64, rng.below(60) as i64];
        let r = guarded(|| match i % 4 {
            0 => {
                let bytes = encode_time(mk_time(tt));
                let back = Mode::Der.decode(bytes.as_ref(), Time::take_from).map(|x| parts(&x).to_vec()).unwrap_or_default();
                json!({"ev": "enc", "t": tt, "tag": if bytes[0] == 0x17 { "utc" } else { "gen" }, "str": chars_of(&String::from_utf8_lossy(&bytes[2..])), "back": back})
            }
            1 => {
                // a valid string of either tag, then 0-2 random character edits
                let tag = if rng.chance(1, 2) { "utc" } else { "gen" };
                let mut text: Vec<char> = if tag == "utc" { format!("{:02}{:02}{:02}{:02}{:02}{:02}Z", tt[0] % 100, tt[1], tt[2], tt[3], tt[4], tt[5]) } else { spec_enc([tt[0], tt[1], tt[2], tt[3], tt[4], tt[5]]).1.chars().rev().take(11).collect::<String>().chars().rev().collect::<String>() }.chars().collect();
                if tag == "gen" { let mut full: Vec<char> = format!("{:04}", tt[0]).chars().collect(); full.extend(text.iter()); text = full; }
                for _ in 0..rng.below(3) {
                    let k = rng.below(text.len() as u64) as usize;
                    text[k] = *rng.pick(&['0', '1', '2', '3', '5', '6', '9', '+', '-', ' ', 'Z', 'a', '.']);
                }
                if rng.chance(1, 10) { text.pop(); }
                if rng.chance(1, 10) { text.push('0'); }
                let text: String = text.into_iter().collect();
                match decode_time(tag, &text) {
                    Ok(Ok(v)) => json!({"ev": "dec", "tag": tag, "s": chars_of(&text), "ok": true, "val": parts(&v)}),
                    _ => json!({"ev": "dec", "tag": tag, "s": chars_of(&text), "ok": false, "val": []}),
                }
            }
            2 => {
                // five instants, ranked; real times one second / one century apart
                let base = mk_time(tt);
                let mut inst: Vec<Time> = (0..5).map(|_| base + chrono::TimeDelta::try_seconds(rng.range(0, 3) as i64 * if rng.chance(1, 2) { 1 } else { 86400 * 36500 }).unwrap()).collect();
                let mut sorted = inst.clone();
                sorted.sort();
                sorted.dedup();
                let rk = |x: &Time| sorted.iter().position(|y| y == x).unwrap();
                let v = Validity::new(inst[0], inst[1]);
                let tr = v.trim(Validity::new(inst[3], inst[4]));
                let ev = json!({"ev": "win", "nb": rk(&inst[0]), "na": rk(&inst[1]), "now": rk(&inst[2]), "nb2": rk(&inst[3]), "na2": rk(&inst[4]),
                    "ok": v.verify_at(inst[2]).is_ok(), "trim": [rk(&tr.not_before()), rk(&tr.not_after())]});
                inst.clear();
                ev
            }
            _ => {
                let len = rng.range(1, 20) as usize;
                let mut bytes: Vec<u8> = (0..len).map(|_| *rng.pick(&[0u8, 0, 1, 0x7f, 0x80, 0xff, 0x35])).collect();
                if len == 20 { bytes[0] &= 0x7f; }
                let ser = Serial::from_slice(&bytes).unwrap();
                let enc = ser.encode().to_captured(Mode::Der).into_bytes();
                let back_ok = Mode::Der.decode(enc.as_ref(), Serial::take_from).ok() == Some(ser) && Serial::from_str(&ser.to_string()).ok() == Some(ser)
                    && (bytes.iter().all(|b| *b == 0) || ser.to_string() == big_dec(&bytes));
                let hl = if enc[1] < 0x80 { 2 } else { 3 };
                json!({"ev": "ser", "bytes": bytes, "der": enc[hl..].to_vec(), "back_ok": back_ok})
            }
        });
        match r {
            Ok(ev) => { t.ev(ev); s.eval(Some(&format!("{i}"))); }
            Err(m) => s.violation("trace:panic", m, json!({"seed": seed, "i": i})),
        }
    }
    s.sample(json!({"seed": seed, "n": n}));
    let nev = t.finish();
    s.set("events", json!(nev));
    s.print();
}
