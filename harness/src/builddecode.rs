//! C05 — binds spec/BuildDecode.tla to the builders and decoders of certificates, CRLs,
//! manifests, ROAs, ASPAs, CSRs, identity certificates and signed protocol messages.
use crate::common::*;
use crate::pki::*;
use bcder::encode::Values;
use bcder::Mode;
use bytes::Bytes;
use rpki::ca::csr::RpkiCaCsr;
use rpki::ca::idcert::IdCert;
use rpki::ca::sigmsg::SignedMessage;
use rpki::crypto::{DigestAlgorithm, RpkiSignatureAlgorithm, Signer};
use rpki::repository::aspa::{Aspa, AspaBuilder};
use rpki::repository::cert::{Cert, KeyUsage, Overclaim, ResourceCert, TbsCert};
use rpki::repository::crl::{Crl, CrlEntry, TbsCertList};
use rpki::repository::manifest::{FileAndHash, Manifest, ManifestContent};
use rpki::repository::resources::{AsBlock, AsBlocks, AsResources, Asn, IpBlock, IpBlocks, IpResources};
use rpki::repository::roa::{Roa, RoaBuilder};
use rpki::repository::sigobj::SignedObjectBuilder;
use rpki::repository::tal::TalInfo;
use rpki::repository::x509::{Serial, Time, Validity};
use rpki::uri;
use serde_json::{json, Value};
use std::net::{IpAddr, Ipv4Addr, Ipv6Addr};
use std::str::FromStr;

type R<T> = Result<T, (String, String)>;
fn e<T>(k: &str, m: impl std::fmt::Display) -> R<T> {
    Err((k.to_string(), m.to_string()))
}
macro_rules! same {
    ($kind:expr, $what:expr, $a:expr, $b:expr) => {
        if $a != $b {
            return e(&format!("{}:accessor:{}", $kind, $what), format!("built object says {:?}, decoded twin says {:?}", $a, $b));
        }
    };
}

fn bytes_of(v: &Value) -> Vec<u8> {
    v.as_array().unwrap().iter().map(|x| x.as_u64().unwrap() as u8).collect()
}

/// the case's serial with its last octet replaced by `salt` (0 = unchanged)
fn serial_of(c: &Value, salt: u8) -> Serial {
    let mut b = bytes_of(&c["serial_bytes"]);
    if salt != 0 {
        *b.last_mut().unwrap() = 0x10 + salt;
    }
    Serial::from_slice(&b).unwrap()
}

fn time_from(v: &Value) -> Time {
    let a: Vec<i64> = v.as_array().unwrap().iter().map(|x| x.as_i64().unwrap()).collect();
    Time::utc(a[0] as i32, a[1] as u32, a[2] as u32, a[3] as u32, a[4] as u32, a[5] as u32)
}

/// (tag, content start, end) of the TLV starting at `pos`
fn tlv_at(b: &[u8], pos: usize) -> (u8, usize, usize) {
    let (t, h, l) = crate::pki::tlv_at(b, pos);
    (t, pos + h, pos + h + l)
}

/// children (tag, content range) of the constructed value starting at `pos`
fn children(b: &[u8], pos: usize) -> Vec<(u8, usize, usize)> {
    let (_, cs, ce) = tlv_at(b, pos);
    let mut out = vec![];
    let mut p = cs;
    while p < ce {
        let (t, s, e) = tlv_at(b, p);
        out.push((t, s, e));
        p = e;
    }
    out
}

/// Checks the DER forms the specification computed: time tags and characters, minimal serial INTEGER.
fn check_der_forms(kind: &str, der: &[u8], c: &Value, is_crl: bool) -> R<()> {
    let (_, outer_cs, _) = tlv_at(der, 0);
    let tbs = children(der, outer_cs);
    let enc = |v: &Value| -> Vec<u8> { v.as_array().unwrap().iter().map(|x| x.as_str().unwrap().as_bytes()[0]).collect() };
    let tagbyte = |t: &Value| if t == "utc" { 0x17u8 } else { 0x18u8 };
    let (t1, t2) = if is_crl {
        // version, sigalg, issuer, thisUpdate, nextUpdate
        (tbs[3], tbs[4])
    } else {
        // [0] version, serial, sigalg, issuer, validity { nb, na }
        let (st, ss, se) = tbs[1];
        if st != 0x02 || der[ss..se] != bytes_of(&c["serial_der"])[..] {
            return e(&format!("{kind}:der:serial"), format!("serial INTEGER is {:02x?}, the specification's minimal form is {:?}", &der[ss..se], c["serial_der"]));
        }
        // tbs[4] is the validity SEQUENCE; its content starts right at tbs[4].1
        let (a, s1, e1) = tlv_at(der, tbs[4].1);
        let (b, s2, e2) = tlv_at(der, e1);
        ((a, s1, e1), (b, s2, e2))
    };
    for (which, (t, s, en), tag, chars) in [("not_before", t1, &c["tag_nb"], &c["enc_nb"]), ("not_after", t2, &c["tag_na"], &c["enc_na"])] {
        if t != tagbyte(tag) || der[s..en] != enc(chars)[..] {
            return e(&format!("{kind}:der:time:{which}"), format!("encoded as tag {t:#x} {:?}, the specification says {} {:?}", String::from_utf8_lossy(&der[s..en]), tag, String::from_utf8_lossy(&enc(chars))));
        }
    }
    Ok(())
}

/// (validity window, an evaluation time inside it)
fn times_of(c: &Value) -> (Validity, Time) {
    let (a, b) = (time_from(&c["nb"]), time_from(&c["na"]));
    (Validity::new(a, b), a)
}

fn res_of(shape: &str) -> (IpResources, IpResources, AsResources) {
    let v4 = |s: &str| -> IpBlock { IpBlock::from_v4_str(s).unwrap() };
    let v6 = |s: &str| -> IpBlock { IpBlock::from_v6_str(s).unwrap() };
    let asr = |a: u32, b: u32| AsBlock::from((Asn::from_u32(a), Asn::from_u32(b)));
    match shape {
        "one" => (IpResources::blocks([v4("10.0.0.0/8")].into_iter().collect()), IpResources::missing(), AsResources::blocks([AsBlock::Id(Asn::from_u32(64496))].into_iter().collect())),
        "many" => (
            // (ranges that are no prefixes: odd lower bound with even upper bound, and bounds whose own prefixes have full length)
            IpResources::blocks([v4("192.168.1.0/24"), v4("10.0.0.0/8"), v4("10.0.0.7-10.0.0.9"), v4("11.0.0.0-11.0.0.255"), v4("12.0.0.1-12.0.0.6"), v4("13.0.0.0-13.0.0.1"), v4("14.0.0.2-14.0.0.4")].into_iter().collect::<IpBlocks>()),
            IpResources::blocks([v6("2001:db8::/32"), v6("2001:db9::-2001:db9::17"), v6("2001:dba::1-2001:dba::fffe"), v6("2001:dbb::-2001:dbb::2")].into_iter().collect::<IpBlocks>()),
            AsResources::blocks([asr(65000, 65010), AsBlock::Id(Asn::from_u32(64496)), asr(65011, 65020)].into_iter().collect::<AsBlocks>()),
        ),
        // both ends of each number space, the upper end given first (the successor of the last number is not the first)
        "ends" => (
            IpResources::blocks([v4("255.255.255.254-255.255.255.255"), v4("0.0.0.0/32"), v4("255.0.0.0/9")].into_iter().collect::<IpBlocks>()),
            IpResources::blocks([v6("ffff:ffff:ffff:ffff:ffff:ffff:ffff:ffff/128"), v6("::/128"), v6("ff00::/9")].into_iter().collect::<IpBlocks>()),
            AsResources::blocks([asr(4_294_967_000, u32::MAX), asr(0, 5), AsBlock::Id(Asn::from_u32(100))].into_iter().collect::<AsBlocks>()),
        ),
        "woven" => (
            IpResources::blocks([v4("10.0.0.0/24"), v4("10.0.2.0/24"), v4("10.0.4.0/24"), v4("10.0.1.0/24"), v4("10.0.3.0/24"),
                                 v4("172.16.6.0/24"), v4("172.16.4.0/24"), v4("172.16.2.0/24"), v4("172.16.0.0/24"), v4("172.16.5.0/24"), v4("172.16.3.0/24"), v4("172.16.1.0/24")].into_iter().collect::<IpBlocks>()),
            IpResources::blocks([v6("2001:db8:0::/48"), v6("2001:db8:2::/48"), v6("2001:db8:4::/48"), v6("2001:db8:1::/48"), v6("2001:db8:3::/48")].into_iter().collect::<IpBlocks>()),
            AsResources::blocks([asr(10, 19), asr(30, 39), asr(50, 59), asr(20, 29), asr(40, 49)].into_iter().collect::<AsBlocks>()),
        ),
        _ => (IpResources::inherit(), IpResources::inherit(), AsResources::inherit()),
    }
}

pub struct Ctx {
    pub pki: Pki,
    issuers: std::collections::HashMap<String, ResourceCert>,
}

impl Ctx {
    pub fn new() -> Self {
        Ctx { pki: Pki::new(4), issuers: Default::default() }
    }
    /// a trust anchor (key k0) holding everything, valid over the given window
    fn issuer(&mut self, c: &Value) -> ResourceCert {
        let times = c["times"].as_str().unwrap();
        if let Some(i) = self.issuers.get(times) {
            return i.clone();
        }
        let (validity, now) = times_of(c);
        let pk = self.pki.pubkey("k0");
        let mut tbs = TbsCert::new(Serial::from(1u64), pk.to_subject_name(), validity, None, pk, KeyUsage::Ca, Overclaim::Refuse);
        tbs.set_basic_ca(Some(true));
        tbs.set_ca_repository(Some(rsync("rsync://repo.example/m/")));
        tbs.set_rpki_manifest(Some(rsync("rsync://repo.example/m/ta.mft")));
        tbs.set_v4_resources(IpResources::blocks(IpBlocks::all()));
        tbs.set_v6_resources(IpResources::blocks(IpBlocks::all()));
        tbs.set_as_resources(AsResources::blocks(AsBlocks::all()));
        let cert = tbs.into_cert(&self.pki.signer, &self.pki.key("k0")).unwrap();
        let rc = cert.validate_ta_at(TalInfo::from_name("t".into()).into_arc(), true, now).expect("TA validates");
        self.issuers.insert(times.to_string(), rc.clone());
        rc
    }
    /// The same trust anchor holding exactly the given resources and nothing else: every edge of what an object needs is an
    /// edge of what its issuer has (None when the resources cannot be a trust anchor's: inherited, or nothing at all).
    fn issuer_holding(&self, c: &Value, v4: &IpResources, v6: &IpResources, asn: &AsResources) -> Option<ResourceCert> {
        if v4.is_inherited() || v6.is_inherited() || asn.is_inherited() || !(v4.is_present() || v6.is_present() || asn.is_present()) {
            return None;
        }
        let (validity, now) = times_of(c);
        let pk = self.pki.pubkey("k0");
        let mut tbs = TbsCert::new(Serial::from(1u64), pk.to_subject_name(), validity, None, pk, KeyUsage::Ca, Overclaim::Refuse);
        tbs.set_basic_ca(Some(true));
        tbs.set_ca_repository(Some(rsync("rsync://repo.example/m/")));
        tbs.set_rpki_manifest(Some(rsync("rsync://repo.example/m/ta.mft")));
        tbs.set_v4_resources(v4.clone());
        tbs.set_v6_resources(v6.clone());
        tbs.set_as_resources(asn.clone());
        let cert = tbs.into_cert(&self.pki.signer, &self.pki.key("k0")).ok()?;
        cert.validate_ta_at(TalInfo::from_name("t".into()).into_arc(), true, now).ok()
    }
}

fn cert_accessors(kind: &str, a: &Cert, b: &Cert) -> R<()> {
    same!(kind, "serial_number", a.serial_number(), b.serial_number());
    same!(kind, "issuer", a.issuer().encode_ref().to_captured(Mode::Der).into_bytes(), b.issuer().encode_ref().to_captured(Mode::Der).into_bytes());
    same!(kind, "subject", a.subject().encode_ref().to_captured(Mode::Der).into_bytes(), b.subject().encode_ref().to_captured(Mode::Der).into_bytes());
    same!(kind, "validity", a.validity(), b.validity());
    same!(kind, "subject_public_key_info", a.subject_public_key_info(), b.subject_public_key_info());
    same!(kind, "subject_key_identifier", a.subject_key_identifier(), b.subject_key_identifier());
    same!(kind, "authority_key_identifier", a.authority_key_identifier(), b.authority_key_identifier());
    same!(kind, "basic_ca", a.basic_ca(), b.basic_ca());
    same!(kind, "key_usage", a.key_usage(), b.key_usage());
    same!(kind, "crl_uri", a.crl_uri(), b.crl_uri());
    same!(kind, "ca_issuer", a.ca_issuer(), b.ca_issuer());
    same!(kind, "ca_repository", a.ca_repository(), b.ca_repository());
    same!(kind, "rpki_manifest", a.rpki_manifest(), b.rpki_manifest());
    same!(kind, "signed_object", a.signed_object(), b.signed_object());
    same!(kind, "rpki_notify", a.rpki_notify(), b.rpki_notify());
    same!(kind, "overclaim", a.overclaim(), b.overclaim());
    same!(kind, "v4_resources", format!("{:?}", a.v4_resources()), format!("{:?}", b.v4_resources()));
    same!(kind, "v6_resources", format!("{:?}", a.v6_resources()), format!("{:?}", b.v6_resources()));
    same!(kind, "as_resources", format!("{:?}", a.as_resources()), format!("{:?}", b.as_resources()));
    same!(kind, "is_ca", a.is_ca(), b.is_ca());
    same!(kind, "is_self_signed", a.is_self_signed(), b.is_self_signed());
    same!(kind, "has_ip_resources", a.has_ip_resources(), b.has_ip_resources());
    Ok(())
}

/// The DER an object's encoder writes into a sink that takes one octet resp. seven octets per call - the same octets as the
/// captured form, or an error, never a shorter document that claims to be written.
fn pieces_same<V: bcder::encode::Values>(what: &str, v: V, whole: &[u8]) -> R<()> {
    struct Pieces(usize, Vec<u8>);
    impl std::io::Write for Pieces {
        fn write(&mut self, buf: &[u8]) -> std::io::Result<usize> { let n = buf.len().min(self.0); self.1.extend_from_slice(&buf[..n]); Ok(n) }
        fn flush(&mut self) -> std::io::Result<()> { Ok(()) }
    }
    for k in [1usize, 7] {
        let mut w = Pieces(k, Vec::new());
        if v.write_encoded(Mode::Der, &mut w).is_ok() && w.1 != whole {
            return e(&format!("{what}:der:short-writes"), format!("written {k} octets at a time the encoder produces {} octets, the captured form has {}", w.1.len(), whole.len()));
        }
    }
    Ok(())
}

fn roa_prefix(i: u64) -> (IpAddr, u8, Option<u8>) {
    match i {
        1 => (IpAddr::V4(Ipv4Addr::new(10, 0, 0, 0)), 8, None),
        // nested in item 1 (pushed after it, the builder's resource chain sees a block inside its predecessor); max length = family limit
        2 => (IpAddr::V4(Ipv4Addr::new(10, 1, 0, 0)), 16, Some(32)),
        3 => (IpAddr::V6(Ipv6Addr::from(0x2001_0db8u128 << 96)), 32, Some(48)),
        // the first address of item 1, more specific (whichever of the two is pushed first, both are in the list and in the certificate)
        5 => (IpAddr::V4(Ipv4Addr::new(10, 0, 0, 0)), 16, None),
        _ => (IpAddr::V4(Ipv4Addr::new(0, 0, 0, 0)), 0, Some(0)),
    }
}

fn run_case(ctx: &mut Ctx, c: &Value) -> R<()> {
    let kind = c["kind"].as_str().unwrap();
    let items: Vec<u64> = c["items"].as_array().unwrap().iter().map(|x| x.as_u64().unwrap()).collect();
    let (validity, now) = times_of(c);
    let serial = serial_of(c, 0);
    let issuer = ctx.issuer(c);
    let pki = &ctx.pki;
    let k0 = pki.key("k0");
    let sob = || SignedObjectBuilder::new(serial, validity, rsync("rsync://repo.example/m/ta.crl"), rsync("rsync://repo.example/m/ta.cer"), rsync("rsync://repo.example/m/obj"));
    match kind {
        "cert_ca" | "cert_ee" => {
            let ca = kind == "cert_ca";
            let subj = pki.pubkey("k1");
            let mut tbs = TbsCert::new(serial, pki.pubkey("k0").to_subject_name(), validity, None, subj, if ca { KeyUsage::Ca } else { KeyUsage::Ee }, Overclaim::Refuse);
            tbs.set_authority_key_identifier(Some(pki.pubkey("k0").key_identifier()));
            tbs.set_crl_uri(Some(rsync("rsync://repo.example/m/ta.crl")));
            tbs.set_ca_issuer(Some(rsync("rsync://repo.example/m/ta.cer")));
            if ca {
                tbs.set_basic_ca(Some(true));
                tbs.set_ca_repository(Some(rsync(if c["uriform"] == "dir" { "rsync://repo.example/m/ca/" } else { "rsync://repo.example/m/ca" })));
                tbs.set_rpki_manifest(Some(rsync("rsync://repo.example/m/ca/ca.mft")));
                tbs.set_rpki_notify(Some(uri::Https::from_str("https://rrdp.example/notification.xml").unwrap()));
            } else {
                tbs.set_signed_object(Some(rsync("rsync://repo.example/m/ca/obj.roa")));
            }
            let (v4, v6, asn) = res_of(c["res"].as_str().unwrap());
            tbs.set_v4_resources(v4);
            tbs.set_v6_resources(v6);
            tbs.set_as_resources(asn);
            let built = tbs.into_cert(&pki.signer, &k0).map_err(|x| ("cert:build".to_string(), x.to_string()))?;
            let bytes = built.to_captured().into_bytes();
            let twin = Cert::decode(bytes.clone()).or_else(|x| e(&format!("{kind}:decode"), x))?;
            same!(kind, "reencode", bytes, twin.to_captured().into_bytes());
            pieces_same(kind, built.encode_ref(), bytes.as_ref())?;
            check_der_forms(kind, &bytes, c, false)?;
            cert_accessors(kind, &built, &twin)?;
            let v = if ca { twin.clone().validate_ca_at(&issuer, true, now) } else { twin.clone().validate_ee_at(&issuer, true, now) };
            let rc = v.or_else(|x| e(&format!("{kind}:validate"), x))?;
            let v2 = if ca { built.clone().validate_ca_at(&issuer, true, now) } else { built.clone().validate_ee_at(&issuer, true, now) };
            let rc2 = v2.or_else(|x| e(&format!("{kind}:validate-built"), x))?;
            same!(kind, "validated_resources", format!("{} {} {}", rc.v4_resources().as_v4(), rc.v6_resources().as_v6(), rc.as_resources()),
                  format!("{} {} {}", rc2.v4_resources().as_v4(), rc2.v6_resources().as_v6(), rc2.as_resources()));
            if !ca {
                // an EE certificate is also acceptable as a detached one; so is the same certificate built without the signedObject
                // access description (what RTAs carry), through the entry point that takes the instant and - when the window
                // contains the wall clock - the one that reads the clock itself
                twin.clone().validate_detached_ee_at(&issuer, true, now).or_else(|x| e("cert_ee:validate-detached", x))?;
                let mut tbs2 = TbsCert::new(serial, pki.pubkey("k0").to_subject_name(), validity, None, pki.pubkey("k1"), KeyUsage::Ee, Overclaim::Refuse);
                tbs2.set_authority_key_identifier(Some(pki.pubkey("k0").key_identifier()));
                tbs2.set_crl_uri(Some(rsync("rsync://repo.example/m/ta.crl")));
                tbs2.set_ca_issuer(Some(rsync("rsync://repo.example/m/ta.cer")));
                let (v4, v6, asn) = res_of(c["res"].as_str().unwrap());
                tbs2.set_v4_resources(v4);
                tbs2.set_v6_resources(v6);
                tbs2.set_as_resources(asn);
                let det = tbs2.into_cert(&pki.signer, &k0).map_err(|x| ("cert:build".to_string(), x.to_string()))?;
                let det_twin = Cert::decode(det.to_captured().into_bytes()).or_else(|x| e("cert_ee:decode-detached", x))?;
                cert_accessors("cert_ee:detached", &det, &det_twin)?;
                let d1 = det_twin.clone().validate_detached_ee_at(&issuer, true, now).or_else(|x| e("cert_ee:validate-detached", x))?;
                same!(kind, "detached:validated_resources", format!("{} {} {}", rc.v4_resources().as_v4(), rc.v6_resources().as_v6(), rc.as_resources()),
                      format!("{} {} {}", d1.v4_resources().as_v4(), d1.v6_resources().as_v6(), d1.as_resources()));
                if c["times"] == "far" {
                    det_twin.clone().validate_detached_ee(&issuer, true).or_else(|x| e("cert_ee:validate-detached:clock", x))?;
                    twin.clone().validate_detached_ee(&issuer, true).or_else(|x| e("cert_ee:validate-detached:clock", x))?;
                    twin.clone().validate_ee(&issuer, true).or_else(|x| e("cert_ee:validate:clock", x))?;
                }
            } else if c["times"] == "far" {
                twin.clone().validate_ca(&issuer, true).or_else(|x| e("cert_ca:validate:clock", x))?;
            }
        }
        "crl" => {
            let entries: Vec<CrlEntry> = items.iter().map(|i| CrlEntry::new(serial_of(c, *i as u8), validity.not_before())).collect();
            let tbs = TbsCertList::new(RpkiSignatureAlgorithm::default(), pki.pubkey("k0").to_subject_name(), validity.not_before(), validity.not_after(),
                                       entries.clone(), pki.pubkey("k0").key_identifier(), serial);
            let built = tbs.into_crl(&pki.signer, &k0).map_err(|x| ("crl:build".to_string(), x.to_string()))?;
            let bytes = built.to_captured().into_bytes();
            let twin = Crl::decode(bytes.clone()).or_else(|x| e("crl:decode", x))?;
            same!(kind, "reencode", bytes, twin.to_captured().into_bytes());
            pieces_same(kind, built.encode_ref(), bytes.as_ref())?;
            check_der_forms(kind, &bytes, c, true)?;
            twin.verify_signature(&pki.pubkey("k0")).or_else(|x| e("crl:validate", x))?;
            same!(kind, "this_update", built.this_update(), twin.this_update());
            same!(kind, "next_update", built.next_update(), twin.next_update());
            same!(kind, "crl_number", built.crl_number(), twin.crl_number());
            same!(kind, "authority_key_identifier", built.authority_key_identifier(), twin.authority_key_identifier());
            let la: Vec<_> = built.revoked_certs().iter().map(|x| (x.user_certificate, x.revocation_date)).collect();
            let lb: Vec<_> = twin.revoked_certs().iter().map(|x| (x.user_certificate, x.revocation_date)).collect();
            same!(kind, "revoked_certs", la, lb);
            same!(kind, "revoked_count", la.len(), entries.len());
            for en in &entries {
                same!(kind, "contains", built.contains(en.user_certificate), twin.contains(en.user_certificate));
                same!(kind, "contains-listed", twin.contains(en.user_certificate), true);
            }
            let absent = Serial::from(0x7777_7777_7777u64);
            same!(kind, "contains-absent", built.contains(absent), twin.contains(absent));
            same!(kind, "contains-absent-false", twin.contains(absent), false);
            let mut cached = twin.clone();
            cached.cache_serials();
            for en in &entries { same!(kind, "contains-cached", cached.contains(en.user_certificate), true); }
            same!(kind, "contains-cached-absent", cached.contains(absent), false);
            // the list itself, the signed structure around it, and the fields that say who issued it
            same!(kind, "revoked_certs.contains", built.revoked_certs().contains(absent), twin.revoked_certs().contains(absent));
            for en in &entries { same!(kind, "revoked_certs.contains-listed", twin.revoked_certs().contains(en.user_certificate), true); }
            same!(kind, "as_cert_list.this_update", built.as_cert_list().this_update(), twin.as_cert_list().this_update());
            same!(kind, "signature-algorithm", format!("{:?}", built.signature()), format!("{:?}", twin.signature()));
            same!(kind, "signed_data.data", built.signed_data().data().as_slice().to_vec(), twin.signed_data().data().as_slice().to_vec());
            same!(kind, "signed_data.signature", built.signed_data().signature().value().to_vec(), twin.signed_data().signature().value().to_vec());
            same!(kind, "issuer", format!("{:?}", built.issuer()), format!("{:?}", twin.issuer()));
            same!(kind, "aki", built.authority_key_identifier(), twin.authority_key_identifier());
            same!(kind, "crl_number", built.crl_number(), twin.crl_number());
        }
        "mft" => {
            let names = ["a.cer", "B-2_x.roa", "zz9.crl", "0.mft"];
            let files: Vec<FileAndHash<Bytes, Bytes>> = items.iter().map(|i| FileAndHash::new(Bytes::from_static(names[*i as usize - 1].as_bytes()), Bytes::from(crate::cms::sha256(names[*i as usize - 1].as_bytes())))).collect();
            // the file list as a slice iterator, or as an iterator that cannot say how many items it has (size_hint lower bound 0)
            let content = if c["feed"] == "lazy" {
                let mut seen = 0usize;
                ManifestContent::new(serial, validity.not_before(), validity.not_after(), DigestAlgorithm::default(), files.iter().filter(|_| { seen += 1; true }))
            } else {
                ManifestContent::new(serial, validity.not_before(), validity.not_after(), DigestAlgorithm::default(), files.iter())
            };
            let built = content.into_manifest(sob(), &pki.signer, &k0).map_err(|x| ("mft:build".to_string(), x.to_string()))?;
            let bytes = built.to_captured().into_bytes();
            let twin = Manifest::decode(bytes.clone(), true).or_else(|x| e("mft:decode", x))?;
            same!(kind, "reencode", bytes, twin.to_captured().into_bytes());
            pieces_same(kind, built.encode_ref(), bytes.as_ref())?;
            cert_accessors("mft:cert", built.cert(), twin.cert())?;
            check_der_forms("mft:cert", &twin.cert().to_captured().into_bytes(), c, false)?;
            same!(kind, "manifest_number", built.content().manifest_number(), twin.content().manifest_number());
            same!(kind, "this_update", built.content().this_update(), twin.content().this_update());
            same!(kind, "next_update", built.content().next_update(), twin.content().next_update());
            same!(kind, "len", built.content().len(), twin.content().len());
            same!(kind, "is_empty", built.content().is_empty(), twin.content().is_empty());
            let la: Vec<_> = built.content().iter().map(|f| f.into_pair()).collect();
            let lb: Vec<_> = twin.content().iter().map(|f| f.into_pair()).collect();
            same!(kind, "iter", la, lb);
            same!(kind, "iter-count", lb.len(), items.len());
            same!(kind, "len-is-count", built.content().len(), items.len());
            let base = rsync("rsync://repo.example/m/ca/");
            let ua: Vec<_> = built.content().iter_uris(&base).map(|(u, h)| (u, h.as_slice().to_vec())).collect();
            let ub: Vec<_> = twin.content().iter_uris(&base).map(|(u, h)| (u, h.as_slice().to_vec())).collect();
            same!(kind, "iter_uris", ua, ub);
            // entry by entry: name and hash as given, the hash algorithm, and the hash verifies against exactly the data it was made of
            same!(kind, "file_hash_alg", format!("{:?}", built.content().file_hash_alg()), format!("{:?}", twin.content().file_hash_alg()));
            for (which, cont) in [("built", built.content()), ("decoded", twin.content())] {
                for (f, i) in cont.iter().zip(items.iter()) {
                    let name = names[*i as usize - 1];
                    if f.file().as_ref() != name.as_bytes() || f.hash().as_ref() != crate::cms::sha256(name.as_bytes()).as_slice() {
                        return e("mft:accessor:file-hash", format!("{which} manifest lists ({:?}, {} hash octets) for {name}", String::from_utf8_lossy(f.file().as_ref()), f.hash().as_ref().len()));
                    }
                }
                for ((_, h), i) in cont.iter_uris(&base).zip(items.iter()) {
                    let name = names[*i as usize - 1];
                    if h.verify(name.as_bytes()).is_err() || h.verify(format!("{name}x").as_bytes()).is_ok() {
                        return e("mft:accessor:hash-verify", format!("{which} manifest: the hash listed for {name} does not verify against its data, or verifies against other data"));
                    }
                    same!(kind, "hash-algorithm", format!("{:?}", h.algorithm()), format!("{:?}", cont.file_hash_alg()));
                }
            }
            twin.validate_at(&issuer, true, now).or_else(|x| e("mft:validate", x))?;
        }
        "roa" => {
            if items.is_empty() {
                return Ok(()); // the builder documents that an empty ROA is refused (not a conforming input)
            }
            // the builder's other feeds must give the same object: typed pushes, per-family slices, with_addresses
            let typed: Vec<(bool, rpki::repository::roa::RoaIpAddress)> = items.iter().map(|i| {
                let (a, l, m) = roa_prefix(*i);
                (a.is_ipv4(), rpki::repository::roa::RoaIpAddress::new_addr(a, l, m))
            }).collect();
            let v4s: Vec<_> = typed.iter().filter(|x| x.0).map(|x| x.1).collect();
            let v6s: Vec<_> = typed.iter().filter(|x| !x.0).map(|x| x.1).collect();
            let mut alt: Vec<(&str, RoaBuilder)> = Vec::new();
            let mut b1 = RoaBuilder::new(Asn::from_u32(1));
            b1.set_as_id(Asn::from_u32(64496));
            for (v4, x) in &typed { if *v4 { b1.push_v4(*x) } else { b1.push_v6(*x) } }
            alt.push(("push_v4/push_v6", b1));
            let mut b2 = RoaBuilder::new(Asn::from_u32(64496));
            b2.extend_v4_from_slice(&v4s);
            b2.extend_v6_from_slice(&v6s);
            alt.push(("extend_from_slice", b2));
            let mut b3 = RoaBuilder::new(Asn::from_u32(64496));
            for i in &items {
                let (a, l, m) = roa_prefix(*i);
                match a { std::net::IpAddr::V4(x) => b3.push_v4_addr(x, l, m), std::net::IpAddr::V6(x) => b3.push_v6_addr(x, l, m) }
            }
            alt.push(("push_v4_addr/push_v6_addr", b3));
            let mut b = RoaBuilder::new(Asn::from_u32(64496));
            for i in &items {
                let (a, l, m) = roa_prefix(*i);
                b.push_addr(a, l, m);
            }
            let main_content = b.to_attestation().encode_ref().to_captured(Mode::Der).into_bytes();
            for (route, x) in alt {
                if x.as_id() != Asn::from_u32(64496) {
                    return e("roa:build:as_id", format!("{route}: as_id() = {}", x.as_id()));
                }
                let other = x.to_attestation().encode_ref().to_captured(Mode::Der).into_bytes();
                if other != main_content {
                    return e("roa:build:feeds", format!("the builder fed through {route} gives a different attestation than push_addr"));
                }
            }
            let att = b.to_attestation();
            let before: Vec<_> = att.iter().map(|x| (x.address(), x.address_length(), x.max_length())).collect();
            let built = b.finalize(sob(), &pki.signer, &k0).map_err(|x| ("roa:build".to_string(), x.to_string()))?;
            let bytes = built.to_captured().into_bytes();
            let twin = Roa::decode(bytes.clone(), true).or_else(|x| e("roa:decode", x))?;
            same!(kind, "reencode", bytes, twin.to_captured().into_bytes());
            pieces_same(kind, built.encode_ref(), bytes.as_ref())?;
            cert_accessors("roa:cert", built.cert(), twin.cert())?;
            check_der_forms("roa:cert", &twin.cert().to_captured().into_bytes(), c, false)?;
            same!(kind, "as_id", built.content().as_id(), twin.content().as_id());
            let la: Vec<_> = built.content().iter().map(|x| (x.address(), x.address_length(), x.max_length())).collect();
            let lb: Vec<_> = twin.content().iter().map(|x| (x.address(), x.address_length(), x.max_length())).collect();
            same!(kind, "iter", la, lb);
            same!(kind, "iter-vs-attestation", before, lb);
            // the other views of the same entries: prefix, family, text form; and the per-family lists entry by entry
            let fa: Vec<_> = built.content().iter().map(|x| (x.prefix(), x.is_v4(), x.to_string())).collect();
            let fb: Vec<_> = twin.content().iter().map(|x| (x.prefix(), x.is_v4(), x.to_string())).collect();
            same!(kind, "iter-friendly", fa, fb);
            for x in twin.content().iter() {
                let a: rpki::repository::resources::Addr = x.address().into();
                if x.prefix().addr() != a || x.prefix().addr_len() != x.address_length() || x.is_v4() != x.address().is_ipv4() || x.max_length() < x.address_length() {
                    return e("roa:accessor:friendly", format!("entry {x}: prefix {:?} / address {} / length {} / max length {} / is_v4 {} do not fit together", x.prefix(), x.address(), x.address_length(), x.max_length(), x.is_v4()));
                }
            }
            let ra: Vec<_> = built.content().v4_addrs().iter().chain(built.content().v6_addrs().iter()).map(|x| (x.prefix(), x.max_length(), x.range())).collect();
            let rb: Vec<_> = twin.content().v4_addrs().iter().chain(twin.content().v6_addrs().iter()).map(|x| (x.prefix(), x.max_length(), x.range())).collect();
            same!(kind, "addrs-raw", ra, rb);
            if lb.len() > items.len() || lb.is_empty() {
                return e("roa:accessor:iter-count", format!("{} prefixes pushed, {} listed", items.len(), lb.len()));
            }
            let oa: Vec<_> = built.content().iter_origins().collect();
            let ob: Vec<_> = twin.content().iter_origins().collect();
            same!(kind, "iter_origins", oa, ob);
            same!(kind, "v4_addrs", built.content().v4_addrs().iter().collect::<Vec<_>>(), twin.content().v4_addrs().iter().collect::<Vec<_>>());
            same!(kind, "v6_addrs", built.content().v6_addrs().iter().collect::<Vec<_>>(), twin.content().v6_addrs().iter().collect::<Vec<_>>());
            same!(kind, "v4_is_empty", built.content().v4_addrs().is_empty(), twin.content().v4_addrs().is_empty());
            same!(kind, "content-reencode", built.content().encode_ref().to_captured(Mode::Der).into_bytes(), twin.content().encode_ref().to_captured(Mode::Der).into_bytes());
            rpki::repository::sigobj::SignedObject::decode(bytes.clone(), true).or_else(|x| e("roa:decode-sigobj", x))?
                .validate_at(&issuer, true, now).or_else(|x| e("roa:validate", x))?;
            // ... and under an issuer that holds exactly what the ROA's certificate says it needs
            if let Some(tight) = ctx.issuer_holding(c, twin.cert().v4_resources(), twin.cert().v6_resources(), twin.cert().as_resources()) {
                rpki::repository::sigobj::SignedObject::decode(bytes.clone(), true).or_else(|x| e("roa:decode-sigobj", x))?
                    .validate_at(&tight, true, now).or_else(|x| e("roa:validate:tight-issuer", x))?;
                if c["times"] == "far" {
                    twin.clone().process(&tight, true, |_| Ok(())).map(|_| ()).or_else(|x| e("roa:validate:tight-issuer", x))?;
                }
            }
            // every listed prefix lies inside the certificate's own resources (what process() asks, without a clock)
            for a in twin.content().iter() {
                let blk = rpki::repository::resources::IpBlock::from(a.prefix());
                let res = if a.is_v4() { twin.cert().v4_resources() } else { twin.cert().v6_resources() };
                if !res.to_blocks().map(|b| b.contains_block(blk)).unwrap_or(false) {
                    return e("roa:validate:own-cert", format!("prefix {}/{} of the built ROA is not inside its own certificate's resources", a.address(), a.address_length()));
                }
            }
            // process() checks against the wall clock: only when the validity window contains it
            if c["times"] == "far" {
                twin.process(&issuer, true, |_| Ok(())).map(|_| ()).or_else(|x| e("roa:validate", x))?;
            }
        }
        "aspa" => {
            if items.is_empty() {
                return Ok(()); // an ASPA needs at least one provider
            }
            let provs: Vec<Asn> = items.iter().map(|i| Asn::from_u32([65001u32, 4_200_000_000, 3, 0][*i as usize - 1])).collect();
            // two ways to the same builder: all providers at once, or an empty builder fed one provider at a time in the given order
            // (a repeated provider is refused and the builder stays as it was)
            let mut fed = AspaBuilder::empty(Asn::from_u32(64496));
            let mut seen: Vec<Asn> = Vec::new();
            for p in &provs {
                let r = fed.add_provider(*p);
                if r.is_ok() == seen.contains(p) {
                    return e("aspa:build:add_provider", format!("add_provider({p}) after {seen:?} returned {}", if r.is_ok() { "Ok" } else { "Err" }));
                }
                seen.push(*p);
            }
            let mut dedup = provs.clone();
            dedup.sort();
            dedup.dedup();
            let at_once = AspaBuilder::new(Asn::from_u32(64496), dedup.clone()).map_err(|_| ("aspa:build".to_string(), "duplicate".to_string()))?;
            if AspaBuilder::new(Asn::from_u32(64496), provs.clone()).is_ok() != (dedup.len() == provs.len()) {
                return e("aspa:build:new", format!("AspaBuilder::new({provs:?}): duplicate detection wrong"));
            }
            for (route, b) in [("", at_once), (":add_provider", fed)] {
            let kind = &format!("{kind}{route}");
            let built = b.finalize(sob(), &pki.signer, &k0).map_err(|x| (format!("aspa:build{route}"), x.to_string()))?;
            let bytes = built.to_captured().into_bytes();
            let twin = Aspa::decode(bytes.clone(), true).or_else(|x| e("aspa:decode", x))?;
            same!(kind, "reencode", bytes, twin.to_captured().into_bytes());
            pieces_same(kind, built.encode_ref(), bytes.as_ref())?;
            cert_accessors("aspa:cert", built.cert(), twin.cert())?;
            check_der_forms("aspa:cert", &twin.cert().to_captured().into_bytes(), c, false)?;
            same!(kind, "customer_as", built.content().customer_as(), twin.content().customer_as());
            same!(kind, "provider_len", built.content().provider_as_set().len(), twin.content().provider_as_set().len());
            let la: Vec<_> = built.content().provider_as_set().iter().collect();
            let lb: Vec<_> = twin.content().provider_as_set().iter().collect();
            same!(kind, "provider_iter", la, lb);
            let mut sorted = provs.clone();
            sorted.sort();
            sorted.dedup();
            same!(kind, "provider_iter-vs-input", lb, sorted);
            same!(kind, "to_set", built.content().provider_as_set().to_set().iter().collect::<Vec<_>>(), twin.content().provider_as_set().to_set().iter().collect::<Vec<_>>());
            same!(kind, "content-reencode", built.content().encode_ref().to_captured(Mode::Der).into_bytes(), twin.content().encode_ref().to_captured(Mode::Der).into_bytes());
            rpki::repository::sigobj::SignedObject::decode(bytes.clone(), true).or_else(|x| e("aspa:decode-sigobj", x))?
                .validate_at(&issuer, true, now).or_else(|x| e("aspa:validate", x))?;
            if let Some(tight) = ctx.issuer_holding(c, twin.cert().v4_resources(), twin.cert().v6_resources(), twin.cert().as_resources()) {
                rpki::repository::sigobj::SignedObject::decode(bytes.clone(), true).or_else(|x| e("aspa:decode-sigobj", x))?
                    .validate_at(&tight, true, now).or_else(|x| e("aspa:validate:tight-issuer", x))?;
                if c["times"] == "far" {
                    twin.clone().process(&tight, true, |_| Ok(())).map(|_| ()).or_else(|x| e("aspa:validate:tight-issuer", x))?;
                }
            }
            // process() checks against the wall clock: only when the validity window contains it
            if c["times"] == "far" {
                twin.process(&issuer, true, |_| Ok(())).map(|_| ()).or_else(|x| e("aspa:validate", x))?;
            }
            }
        }
        "csr" => {
            let repo = rsync(if c["uriform"] == "dir" { "rsync://repo.example/m/ca/" } else { "rsync://repo.example/m/ca" });
            let mft = rsync("rsync://repo.example/m/ca/ca.mft");
            let notify = uri::Https::from_str("https://rrdp.example/notification.xml").unwrap();
            for with_notify in [false, true] {
                let captured = rpki::ca::csr::Csr::<(), ()>::construct_rpki_ca(&pki.signer, &pki.key("k1"), &repo, &mft, if with_notify { Some(&notify) } else { None })
                    .map_err(|x| ("csr:build".to_string(), x.to_string()))?;
                let bytes = captured.into_bytes();
                let twin = RpkiCaCsr::decode(bytes.clone()).or_else(|x| e("csr:decode", x))?;
                same!(kind, "reencode", bytes, twin.to_captured().into_bytes());
                twin.verify_signature().or_else(|x| e("csr:validate", x))?;
                let mut dir = repo.clone();
                dir.path_into_dir();
                same!(kind, "ca_repository", twin.ca_repository(), Some(&dir));
                same!(kind, "rpki_manifest", twin.rpki_manifest(), Some(&mft));
                same!(kind, "rpki_notify", twin.rpki_notify(), if with_notify { Some(&notify) } else { None });
                same!(kind, "public_key", twin.public_key(), &pki.pubkey("k1"));
                same!(kind, "basic_ca", twin.basic_ca(), true);
                // what the request says about itself beyond the three URIs: a CA request (key usage for a CA, no extended key
                // usage), for the key that signed it, under that key's name; the re-decoded twin of its own bytes agrees
                if twin.key_usage() != KeyUsage::Ca || twin.extended_key_usage().is_some() {
                    return e("csr:accessor:key_usage", format!("key usage {:?}, extended key usage present: {}", twin.key_usage(), twin.extended_key_usage().is_some()));
                }
                same!(kind, "subject", format!("{:?}", twin.subject()), format!("{:?}", pki.pubkey("k1").to_subject_name()));
                let again = RpkiCaCsr::decode(twin.to_captured().into_bytes()).or_else(|x| e("csr:decode", x))?;
                same!(kind, "twin:subject", format!("{:?}", twin.subject()), format!("{:?}", again.subject()));
                same!(kind, "twin:attributes", format!("{:?}", twin.attributes()), format!("{:?}", again.attributes()));
                same!(kind, "twin:public_key", twin.public_key(), again.public_key());
            }
        }
        "idcert" => {
            let ta = IdCert::new_ta(validity, &k0, &pki.signer).map_err(|x| ("idcert:build".to_string(), x.to_string()))?;
            let bytes = ta.to_captured().into_bytes();
            let twin = IdCert::decode(bytes.clone()).or_else(|x| e("idcert:decode", x))?;
            same!(kind, "reencode", bytes, twin.to_captured().into_bytes());
            twin.validate_ta_at(now).or_else(|x| e("idcert:validate", x))?;
            same!(kind, "ta:serial", ta.serial_number(), twin.serial_number());
            same!(kind, "ta:validity", ta.validity(), twin.validity());
            same!(kind, "ta:ski", ta.subject_key_identifier(), twin.subject_key_identifier());
            same!(kind, "ta:aki", ta.authority_key_id(), twin.authority_key_id());
            same!(kind, "ta:key", ta.public_key(), twin.public_key());
            same!(kind, "ta:spki", ta.subject_public_key_info(), twin.subject_public_key_info());
            same!(kind, "ta:subject_key_id", ta.subject_key_id(), twin.subject_key_id());
            same!(kind, "ta:ski-is-key-id", twin.subject_key_id(), pki.pubkey("k0").key_identifier());
            same!(kind, "ta:subject", format!("{:?}", ta.subject()), format!("{:?}", twin.subject()));
            same!(kind, "ta:to_bytes", ta.to_bytes(), twin.to_bytes());
            same!(kind, "ta:to_bytes-is-captured", twin.to_bytes(), twin.to_captured().into_bytes());
            let ee = IdCert::new_ee(&pki.pubkey("e0"), validity, &k0, &pki.signer).map_err(|x| ("idcert:build".to_string(), x.to_string()))?;
            let bytes = ee.to_captured().into_bytes();
            let twin = IdCert::decode(bytes.clone()).or_else(|x| e("idcert:decode", x))?;
            same!(kind, "ee:reencode", bytes, twin.to_captured().into_bytes());
            twin.validate_ee_at(&pki.pubkey("k0"), now).or_else(|x| e("idcert:validate", x))?;
            same!(kind, "ee:serial", ee.serial_number(), twin.serial_number());
            same!(kind, "ee:validity", ee.validity(), twin.validity());
            same!(kind, "ee:aki", ee.authority_key_id(), twin.authority_key_id());
            same!(kind, "ee:aki-is-issuer", twin.authority_key_id(), Some(pki.pubkey("k0").key_identifier()));
            same!(kind, "ee:ski", ee.subject_key_identifier(), twin.subject_key_identifier());
            same!(kind, "ee:ski-is-key-id", twin.subject_key_id(), pki.pubkey("e0").key_identifier());
            same!(kind, "ee:key", ee.public_key(), twin.public_key());
            same!(kind, "ee:subject", format!("{:?}", ee.subject()), format!("{:?}", twin.subject()));
            same!(kind, "ee:to_bytes", ee.to_bytes(), twin.to_bytes());
            // the entry points that read the clock: only when the validity window contains it
            if c["times"] == "far" {
                twin.validate_ee(&pki.pubkey("k0")).or_else(|x| e("idcert:validate", x))?;
                IdCert::decode(ta.to_bytes()).or_else(|x| e("idcert:decode", x))?.validate_ta().or_else(|x| e("idcert:validate", x))?;
            }
        }
        "sigmsg" => {
            for content in [&b""[..], &b"<x/>"[..], &vec![7u8; 70000][..]] {
                let m = SignedMessage::create(Bytes::copy_from_slice(content), validity, &k0, &pki.signer).map_err(|x| ("sigmsg:build".to_string(), x.to_string()))?;
                let bytes = m.to_captured().into_bytes();
                let twin = SignedMessage::decode(bytes.clone(), true).or_else(|x| e("sigmsg:decode", x))?;
                same!(kind, "reencode", bytes, twin.to_captured().into_bytes());
                same!(kind, "content", m.content().to_bytes(), twin.content().to_bytes());
                same!(kind, "content_type", m.content_type(), twin.content_type());
                twin.validate_at(&pki.pubkey("k0"), now).or_else(|x| e("sigmsg:validate", x))?;
                twin.validate_at(&pki.pubkey("k0"), validity.not_after()).or_else(|x| e("sigmsg:validate", x))?;
            }
        }
        k => return e("unknown-kind", k),
    }
    Ok(())
}

// ---- the TbsBuilder machine: tokens of spec/TbsBuilder.tla <-> library values
struct Tok<'a> {
    pki: &'a Pki,
}
impl<'a> Tok<'a> {
    fn name(&self, t: &str) -> rpki::repository::x509::Name {
        // n0..n3 are the names of four distinct keys; "k1"/"e0" are the names derived from those keys
        let k = match t { "n0" => "k0", "n1" => "k3", "n2" => "k2", "n3" => "e1", k => k };
        self.pki.pubkey(k).to_subject_name()
    }
    fn name_tok(&self, n: &rpki::repository::x509::Name) -> String {
        for t in ["n0", "n1", "n2", "n3", "k1", "e0"] {
            if &self.name(t) == n { return t.to_string(); }
        }
        "?".into()
    }
    fn serial(&self, t: &str) -> Serial {
        if t == "1" { Serial::from(11u64) } else { Serial::from(0x80AAu64) }
    }
    fn validity(&self, t: &str) -> Validity {
        if t == "w1" { Validity::new(Time::utc(2024, 1, 1, 0, 0, 0), Time::utc(2030, 1, 1, 0, 0, 0)) }
        else { Validity::new(Time::utc(2049, 12, 31, 23, 59, 59), Time::utc(2050, 1, 1, 0, 0, 0)) }
    }
    fn ruri(&self, field: &str, t: &str) -> Option<uri::Rsync> {
        if t == "none" { None } else { Some(rsync(&format!("rsync://host.example/mod/{field}/{t}/"))) }
    }
    fn ruri_tok(&self, field: &str, u: Option<&uri::Rsync>) -> String {
        for t in ["none", "u1", "u2"] {
            if self.ruri(field, t).as_ref() == u { return t.into(); }
        }
        "?".into()
    }
    fn v4(&self, t: &str) -> Vec<IpBlock> {
        if t == "b1" { vec![IpBlock::from_v4_str("10.0.0.0/8").unwrap()] }
        else { vec![IpBlock::from_v4_str("192.168.0.0/16").unwrap(), IpBlock::from_v4_str("10.0.0.0-10.0.0.5").unwrap()] }
    }
    fn v6(&self, t: &str) -> Vec<IpBlock> {
        if t == "b1" { vec![IpBlock::from_v6_str("2001:db8::/32").unwrap()] }
        else { vec![IpBlock::from_v6_str("2001:db9::-2001:db9::17").unwrap(), IpBlock::from_v6_str("::/128").unwrap()] }
    }
    fn asr(&self, t: &str) -> Vec<AsBlock> {
        if t == "b1" { vec![AsBlock::Id(Asn::from_u32(64496))] }
        else { vec![AsBlock::from((Asn::from_u32(1), Asn::from_u32(5))), AsBlock::Id(Asn::from_u32(70000))] }
    }
    fn ip_tok(&self, r: &IpResources, v6: bool) -> String {
        if r.is_inherited() { return "inherit".into(); }
        if !r.is_present() { return "missing".into(); }
        for t in ["b1", "b2"] {
            let want: IpBlocks = (if v6 { self.v6(t) } else { self.v4(t) }).into_iter().collect();
            if r.to_blocks().ok().as_ref() == Some(&want) { return t.into(); }
        }
        "?".into()
    }
    fn as_tok(&self, r: &AsResources) -> String {
        if r.is_inherited() { return "inherit".into(); }
        if !r.is_present() { return "missing".into(); }
        for t in ["b1", "b2"] {
            let want: AsBlocks = self.asr(t).into_iter().collect();
            if r.to_blocks().ok().as_ref() == Some(&want) { return t.into(); }
        }
        "?".into()
    }
    fn key_tok(&self, k: &rpki::crypto::PublicKey) -> String {
        for t in ["k1", "e0", "k0"] { if &self.pki.pubkey(t) == k { return t.into(); } }
        "?".into()
    }
    fn kid_tok(&self, k: rpki::crypto::KeyIdentifier) -> String {
        for t in ["k1", "e0", "k0"] { if self.pki.pubkey(t).key_identifier() == k { return t.into(); } }
        "?".into()
    }
    /// every accessor of a certificate, as the specification's field record
    fn project(&self, c: &TbsCert) -> serde_json::Map<String, Value> {
        let mut m = serde_json::Map::new();
        let mut put = |k: &str, v: String| { m.insert(k.to_string(), Value::String(v)); };
        put("serial", if c.serial_number() == self.serial("1") { "1".into() } else if c.serial_number() == self.serial("2") { "2".into() } else { "?".into() });
        put("issuer", self.name_tok(c.issuer()));
        put("subject", self.name_tok(c.subject()));
        put("validity", if c.validity() == self.validity("w1") { "w1".into() } else if c.validity() == self.validity("w2") { "w2".into() } else { "?".into() });
        put("key", self.key_tok(c.subject_public_key_info()));
        put("ski", self.kid_tok(c.subject_key_identifier()));
        put("basic_ca", match c.basic_ca() { None => "none".into(), Some(true) => "true".into(), Some(false) => "false".into() });
        put("aki", c.authority_key_identifier().map(|k| self.kid_tok(k)).unwrap_or("none".into()));
        put("key_usage", if c.key_usage() == KeyUsage::Ca { "ca".into() } else { "ee".into() });
        put("crl_uri", self.ruri_tok("crl_uri", c.crl_uri()));
        put("ca_issuer", self.ruri_tok("ca_issuer", c.ca_issuer()));
        put("ca_repository", self.ruri_tok("ca_repository", c.ca_repository()));
        put("rpki_manifest", self.ruri_tok("rpki_manifest", c.rpki_manifest()));
        put("signed_object", self.ruri_tok("signed_object", c.signed_object()));
        put("rpki_notify", match c.rpki_notify() { None => "none".into(), Some(u) if u.as_str() == "https://rrdp.example/h1/notification.xml" => "h1".into(), _ => "?".into() });
        put("overclaim", if c.overclaim() == Overclaim::Refuse { "refuse".into() } else { "trim".into() });
        put("v4", self.ip_tok(c.v4_resources(), false));
        put("v6", self.ip_tok(c.v6_resources(), true));
        put("asr", self.as_tok(c.as_resources()));
        m
    }
}

fn run_steps(ctx: &mut Ctx, c: &Value) -> R<()> {
    let pki = &ctx.pki;
    let t = Tok { pki };
    let init = &c["init"];
    let subj = init["subject"].as_str().unwrap();
    let mut tbs = TbsCert::new(t.serial("1"), t.name("n0"), t.validity("w1"), if subj == "derive" { None } else { Some(t.name(subj)) },
                               pki.pubkey(init["key"].as_str().unwrap()), KeyUsage::Ca, Overclaim::Refuse);
    if init["asr"] == "b1" {
        tbs.set_as_resources(AsResources::blocks(t.asr("b1").into_iter().collect()));
    }
    for (i, st) in c["script"].as_array().unwrap().iter().enumerate() {
        let (f, v) = (st["field"].as_str().unwrap(), st["value"].as_str().unwrap());
        match f {
            "serial" => tbs.set_serial_number(t.serial(v)),
            "issuer" => tbs.set_issuer(t.name(v)),
            "validity" => tbs.set_validity(t.validity(v)),
            "subject" => tbs.set_subject(t.name(v)),
            "key" => tbs.set_subject_public_key(pki.pubkey(v)),
            "basic_ca" => tbs.set_basic_ca(if v == "none" { None } else { Some(true) }),
            "aki" => tbs.set_authority_key_identifier(if v == "none" { None } else { Some(pki.pubkey(v).key_identifier()) }),
            "key_usage" => tbs.set_key_usage(if v == "ca" { KeyUsage::Ca } else { KeyUsage::Ee }),
            "crl_uri" => tbs.set_crl_uri(t.ruri(f, v)),
            "ca_issuer" => tbs.set_ca_issuer(t.ruri(f, v)),
            "ca_repository" => tbs.set_ca_repository(t.ruri(f, v)),
            "rpki_manifest" => tbs.set_rpki_manifest(t.ruri(f, v)),
            "signed_object" => tbs.set_signed_object(t.ruri(f, v)),
            "rpki_notify" => tbs.set_rpki_notify(if v == "none" { None } else { Some(uri::Https::from_str("https://rrdp.example/h1/notification.xml").unwrap()) }),
            "overclaim" => tbs.set_overclaim(if v == "refuse" { Overclaim::Refuse } else { Overclaim::Trim }),
            // the three ways of setting resources are used in turn
            "v4" => match v {
                "missing" => tbs.set_v4_resources(IpResources::missing()),
                "inherit" => tbs.set_v4_resources_inherit(),
                b if i % 2 == 0 => tbs.build_v4_resource_blocks(|x| for blk in t.v4(b) { x.push(blk) }),
                b => tbs.v4_resources_from_iter(t.v4(b)),
            },
            "v6" => match v {
                "missing" => tbs.set_v6_resources(IpResources::missing()),
                "inherit" => tbs.set_v6_resources_inherit(),
                b if i % 2 == 0 => tbs.build_v6_resource_blocks(|x| for blk in t.v6(b) { x.push(blk) }),
                b => tbs.v6_resources_from_iter(t.v6(b)),
            },
            "asr" => match v {
                "missing" => tbs.set_as_resources(AsResources::missing()),
                "inherit" => tbs.set_as_resources_inherit(),
                b if i % 2 == 0 => tbs.build_as_resource_blocks(|x| for blk in t.asr(b) { x.push(blk) }),
                b => tbs.as_resources_from_iter(t.asr(b)),
            },
            _ => return e("steps:unknown-field", f),
        }
    }
    let expect = c["expect"].as_object().unwrap();
    let cmp = |who: &str, got: serde_json::Map<String, Value>| -> R<()> {
        for (k, v) in expect {
            if got.get(k) != Some(v) {
                return e(&format!("steps:{who}:{k}"), format!("after the setter script the {who} certificate answers {k} = {}, the specification's record says {}", got.get(k).unwrap_or(&Value::Null), v));
            }
        }
        Ok(())
    };
    cmp("builder", t.project(&tbs))?;
    let built = tbs.into_cert(&pki.signer, &pki.key("k0")).map_err(|x| ("steps:build".to_string(), x.to_string()))?;
    cmp("built", t.project(&built))?;
    let bytes = built.to_captured().into_bytes();
    let twin = Cert::decode(bytes.clone()).or_else(|x| e("steps:decode", x))?;
    same!("steps", "reencode", bytes, twin.to_captured().into_bytes());
    cmp("decoded", t.project(&twin))?;
    cert_accessors("steps", &built, &twin)?;
    // the identifier in the encoding names the key in the encoding (what every validator checks first)
    same!("steps", "ski-vs-key", twin.subject_key_identifier(), twin.subject_public_key_info().key_identifier());
    Ok(())
}

/// `{op:"sob"}`: a setter script on SignedObjectBuilder, finalize, decode; every accessor against the model's derived record
fn run_sob(ctx: &mut Ctx, c: &Value) -> R<()> {
    let pki = &ctx.pki;
    let t = Tok { pki };
    let u = |field: &str, tok: &str| t.ruri(field, tok).unwrap();
    let mut b = SignedObjectBuilder::new(t.serial("1"), t.validity("w1"), u("crl_uri", "u1"), u("ca_issuer", "u1"), u("signed_object", "u1"));
    b.set_as_resources(AsResources::blocks(t.asr("b1").into_iter().collect()));
    let times = |tok: &str| if tok == "t1" { Time::utc(2024, 6, 1, 10, 0, 0) } else { Time::utc(2051, 1, 2, 3, 4, 5) };
    b.set_signing_time(times("t1"));
    for (i, st) in c["script"].as_array().unwrap().iter().enumerate() {
        let (f, v) = (st["field"].as_str().unwrap(), st["value"].as_str().unwrap());
        match f {
            "serial" => b.set_serial_number(t.serial(v)),
            "validity" => b.set_validity(t.validity(v)),
            "issuer" => b.set_issuer(if v == "none" { None } else { Some(t.name(v)) }),
            "subject" => b.set_subject(if v == "none" { None } else { Some(t.name(v)) }),
            "crl_uri" => b.set_crl_uri(u(f, v)),
            "ca_issuer" => b.set_ca_issuer(u(f, v)),
            "signed_object" => b.set_signed_object(u(f, v)),
            "signing_time" => b.set_signing_time(times(v)),
            "v4" => match v {
                "missing" => b.set_v4_resources(IpResources::missing()),
                "inherit" => b.set_v4_resources_inherit(),
                x if i % 2 == 0 => b.build_v4_resource_blocks(|bb| for blk in t.v4(x) { bb.push(blk) }),
                x => b.set_v4_resources(IpResources::blocks(t.v4(x).into_iter().collect())),
            },
            "v6" => match v {
                "missing" => b.set_v6_resources(IpResources::missing()),
                "inherit" => b.set_v6_resources_inherit(),
                x if i % 2 == 0 => b.build_v6_resource_blocks(|bb| for blk in t.v6(x) { bb.push(blk) }),
                x => b.set_v6_resources(IpResources::blocks(t.v6(x).into_iter().collect())),
            },
            "asr" => match v {
                "missing" => b.set_as_resources(AsResources::missing()),
                "inherit" => b.set_as_resources_inherit(),
                x if i % 2 == 0 => b.build_as_resource_blocks(|bb| for blk in t.asr(x) { bb.push(blk) }),
                x => b.set_as_resources(AsResources::blocks(t.asr(x).into_iter().collect())),
            },
            _ => return e("sob:unknown-field", f),
        }
    }
    // the one-off key finalize is going to use
    let ee_key = pki.signer.get_key_info(&pki.signer.peek_one_off()).map_err(|x| ("sob:signer".to_string(), x.to_string()))?;
    let content = Bytes::from_static(b"some signed content");
    let ct = bcder::Oid(Bytes::from_static(&[42, 134, 72, 134, 247, 13, 1, 9, 16, 1, 35])); // id-ct-rpkiGhostbusters
    let built = b.finalize(ct.clone(), content.clone(), &pki.signer, &pki.key("k0")).map_err(|x| ("sob:build".to_string(), x.to_string()))?;
    let bytes = {
        use bcder::encode::Values;
        built.encode_ref().to_captured(Mode::Der).into_bytes()
    };
    let twin = rpki::repository::sigobj::SignedObject::decode(bytes.clone(), true).or_else(|x| e("sob:decode", x))?;
    same!("sob", "reencode", bytes, { use bcder::encode::Values; twin.encode_ref().to_captured(Mode::Der).into_bytes() });
    let expect = c["expect"].as_object().unwrap();
    for (who, o) in [("built", &built), ("decoded", &twin)] {
        let cert = o.cert();
        let mut got = t.project(cert);
        got.insert("issuer".into(), Value::String(if cert.issuer() == &pki.pubkey("k0").to_subject_name() { "name-of-issuing-key".into() } else { t.name_tok(cert.issuer()) }));
        got.insert("subject".into(), Value::String(if cert.subject() == &ee_key.to_subject_name() { "name-of-ee-key".into() } else { t.name_tok(cert.subject()) }));
        got.insert("aki".into(), Value::String(if cert.authority_key_identifier() == Some(pki.pubkey("k0").key_identifier()) { "issuing-key".into() } else { "?".into() }));
        got.insert("ski".into(), Value::String(if cert.subject_key_identifier() == ee_key.key_identifier() && cert.subject_public_key_info() == &ee_key { "ee-key".into() } else { "?".into() }));
        got.insert("sid".into(), Value::String("ee-key".into()));
        got.insert("signing_time".into(), Value::String(if o.signing_time() == times("t1") { "t1".into() } else if o.signing_time() == times("t2") { "t2".into() } else { "?".into() }));
        for (k, v) in expect {
            if got.get(k) != Some(v) {
                return e(&format!("sob:{who}:{k}"), format!("after the setter script the {who} object answers {k} = {}, the specification's record says {v}", got.get(k).unwrap_or(&Value::Null)));
            }
        }
        same!("sob", "content", o.content().to_bytes(), content);
        same!("sob", "content_type", o.content_type(), &ct);
    }
    cert_accessors("sob", built.cert(), twin.cert())?;
    // sid = SKI of the embedded certificate, and the whole object validates under the issuer within its validity
    let now = built.cert().validity().not_before();
    let issuer = {
        let c0 = if now > Time::utc(2040, 1, 1, 0, 0, 0) { json!({"times": "sob-w2", "nb": [2049, 12, 31, 23, 59, 59], "na": [2050, 1, 1, 0, 0, 0]}) } else { json!({"times": "sob-w1", "nb": [2024, 1, 1, 0, 0, 0], "na": [2030, 1, 1, 0, 0, 0]}) };
        ctx.issuer(&c0)
    };
    if expect["issuer"] == "name-of-issuing-key" {
        twin.clone().validate_at(&issuer, true, now).or_else(|x| e("sob:validate", x))?;
    }
    Ok(())
}

/// Revocation lists of many entries in the order a CA would write them (by revocation, not by number): built list and decoded
/// twin answer every question alike - plainly, with the serial cache switched on, and through the iterator - past 8, 64, 256
/// and 1000 entries too.
fn long_crls(ctx: &Ctx, s: &mut Summary) {
    let pki = &ctx.pki;
    let k0 = pki.key("k0");
    let v = Validity::new(Time::utc(2024, 1, 1, 0, 0, 0), Time::utc(2034, 1, 1, 0, 0, 0));
    for n in [1usize, 8, 9, 63, 64, 65, 255, 256, 257, 1000] {
        let r = guarded(|| -> Result<(), String> {
            // serial numbers in a scrambled order, of every length from one octet to twenty
            let serials: Vec<Serial> = (0..n).map(|i| {
                let x = (i as u64 * 7919 + 13) % 100_003;
                if i % 5 == 4 { let mut a = [0x5Au8; 20]; a[0] = 0x01; a[19] = (x % 251) as u8; a[18] = (x / 251) as u8; a[10] = i as u8; Serial::from_array(a).unwrap() } else { Serial::from(x * if i % 3 == 0 { 1 } else { 65_537 }) }
            }).collect();
            let entries: Vec<CrlEntry> = serials.iter().map(|x| CrlEntry::new(*x, v.not_before())).collect();
            let built = TbsCertList::new(RpkiSignatureAlgorithm::default(), pki.pubkey("k0").to_subject_name(), v.not_before(), v.not_after(), entries,
                                         pki.pubkey("k0").key_identifier(), Serial::from(7u64)).into_crl(&pki.signer, &k0).map_err(|e| e.to_string())?;
            let mut twin = Crl::decode(built.to_captured().into_bytes()).map_err(|e| format!("does not decode: {e}"))?;
            let mut built = built;
            let absent = [Serial::from(1u64), Serial::from(100_004u64), Serial::from(u64::MAX)];
            for cached in [false, true] {
                if cached { built.cache_serials(); twin.cache_serials(); }
                for (k, x) in serials.iter().enumerate() {
                    if !built.contains(*x) || !twin.contains(*x) {
                        return Err(format!("entry {k} of {n} (serial {x}): built list contains = {}, decoded twin = {} (serial cache {})", built.contains(*x), twin.contains(*x), cached));
                    }
                }
                for x in absent.iter().filter(|x| !serials.contains(x)) {
                    if built.contains(*x) || twin.contains(*x) { return Err(format!("serial {x} is not on the list of {n} but contains() says so (serial cache {cached})")); }
                }
            }
            let listed: Vec<Serial> = twin.revoked_certs().iter().map(|e| e.user_certificate).collect();
            if listed != serials { return Err(format!("the decoded list has {} entries, not the {n} written ones in order", listed.len())); }
            Ok(())
        });
        match r {
            Ok(Ok(())) => {}
            Ok(Err(m)) => s.violation("crl:long-list", m, json!({"entries": n})),
            Err(m) => s.violation("crl:panic", m, json!({"entries": n})),
        }
        s.evals(1);
    }
}

/// ROAs and ASPAs with long lists (scrambled order, both families, nested and touching prefixes among them): what was pushed is
/// what the decoded twin lists, and the object validates under the trust anchor - past 64, 256 and 1000 entries.
fn long_lists(ctx: &Ctx, s: &mut Summary) {
    let pki = &ctx.pki;
    let k0 = pki.key("k0");
    let c = json!({"times": "utc", "nb": [2024, 1, 1, 0, 0, 0], "na": [2025, 12, 31, 23, 59, 59]});
    for n in [1usize, 63, 64, 65, 255, 256, 257, 1000] {
        let r = guarded(|| -> Result<(), String> {
            let issuer = ctx.issuer_holding(&c, &IpResources::blocks(IpBlocks::all()), &IpResources::blocks(IpBlocks::all()), &AsResources::blocks(AsBlocks::all())).ok_or("harness: no issuer")?;
            let (validity, now) = times_of(&c);
            let sob = || SignedObjectBuilder::new(Serial::from(77u64), validity, rsync("rsync://repo.example/m/ta.crl"), rsync("rsync://repo.example/m/ta.cer"), rsync("rsync://repo.example/m/obj"));
            let mut b = RoaBuilder::new(Asn::from_u32(64496));
            let mut pushed = Vec::new();
            for i in 0..n {
                let k = (i * 7919 + 5) % 65_521;
                let (addr, len): (IpAddr, u8) = match i % 4 {
                    0 => (IpAddr::V4(Ipv4Addr::from(0x0A00_0000u32 + ((k as u32) << 8))), 24),
                    1 => (IpAddr::V4(Ipv4Addr::from(0x0A00_0000u32 + ((k as u32) << 8))), 25),            // nested in the one before or after
                    2 => (IpAddr::V6(Ipv6Addr::from((0x2001_0db8u128 << 96) | ((k as u128) << 64))), 64),
                    _ => (IpAddr::V4(Ipv4Addr::from(0xC000_0000u32 + k as u32)), 32),
                };
                b.push_addr(addr, len, None);
                pushed.push((addr, len));
            }
            let built = b.finalize(sob(), &pki.signer, &k0).map_err(|x| x.to_string())?;
            let twin = Roa::decode(built.to_captured().into_bytes(), true).map_err(|x| format!("does not decode: {x}"))?;
            let mut listed: Vec<(IpAddr, u8)> = twin.content().iter().map(|x| (x.address(), x.address_length())).collect();
            let mut want = pushed.clone();
            listed.sort(); want.sort();
            if listed != want { return Err(format!("the decoded ROA lists {} prefixes, {} were pushed (or other ones)", listed.len(), want.len())); }
            if twin.content().iter_origins().count() != n { return Err(format!("iter_origins yields {}", twin.content().iter_origins().count())); }
            rpki::repository::sigobj::SignedObject::decode(built.to_captured().into_bytes(), true).map_err(|x| x.to_string())?
                .validate_at(&issuer, true, now).map_err(|x| format!("does not validate: {x}"))?;
            for a in twin.content().iter() {
                let res = if a.is_v4() { twin.cert().v4_resources() } else { twin.cert().v6_resources() };
                if !res.to_blocks().map(|bl| bl.contains_block(rpki::repository::resources::IpBlock::from(a.prefix()))).unwrap_or(false) {
                    return Err(format!("prefix {}/{} is not inside the ROA's own certificate", a.address(), a.address_length()));
                }
            }
            // an ASPA with as many providers
            let provs: Vec<Asn> = (0..n).map(|i| Asn::from_u32(65_000 + ((i * 7919) % 100_003) as u32)).collect();
            let mut distinct = provs.clone(); distinct.sort(); distinct.dedup();
            // (given in scrambled order)
            let scrambled: Vec<Asn> = distinct.iter().rev().step_by(2).chain(distinct.iter().skip(distinct.len() % 2).step_by(2)).copied().collect();
            let ab = AspaBuilder::new(Asn::from_u32(64496), scrambled).map_err(|_| "ASPA builder refuses distinct providers".to_string())?;
            let built = ab.finalize(sob(), &pki.signer, &k0).map_err(|x| x.to_string())?;
            let twin = rpki::repository::aspa::Aspa::decode(built.to_captured().into_bytes(), true).map_err(|x| format!("ASPA does not decode: {x}"))?;
            let mut want = provs.clone(); want.sort(); want.dedup();
            let got: Vec<Asn> = twin.content().provider_as_set().iter().collect();
            if got != want { return Err(format!("the decoded ASPA lists {} providers, {} distinct ones were given", got.len(), want.len())); }
            Ok(())
        });
        match r {
            Ok(Ok(())) => {}
            Ok(Err(m)) => s.violation("long-list", format!("{n} entries: {m}"), json!({"entries": n})),
            Err(m) => s.violation("long-list:panic", m, json!({"entries": n})),
        }
        s.evals(1);
    }
}

pub fn replay(args: &[String]) {
    let cases = read_cases(&args[0]);
    let mut s = Summary::new();
    let mut ctx = Ctx::new();
    if cases.iter().any(|c| c["kind"] == "roa") { long_lists(&ctx, &mut s); }
    if cases.iter().any(|c| c["kind"] == "crl") { long_crls(&ctx, &mut s); }
    for c in &cases {
        let op = c["op"].as_str().unwrap_or("build");
        match guarded(|| match op { "steps" => run_steps(&mut ctx, c), "sob" => run_sob(&mut ctx, c), _ => run_case(&mut ctx, c) }) {
            Ok(Ok(())) => {}
            Ok(Err((k, m))) => s.violation(&k, format!("{} (input {c})", m), c.clone()),
            Err(m) => s.violation(&format!("{}:panic", c["kind"].as_str().unwrap_or(op)), format!("{m} (input {c})"), c.clone()),
        }
        s.eval(Some(&format!("{c}")));
        if s.samples.len() < 4 && s.evaluations % 577 == 3 {
            s.sample(c.clone());
        }
    }
    s.print();
}
