//! (extra) binds spec/PubProto.tla to the RFC 8181 vocabulary of rpki::ca::publication.
//!
//! Publisher and server are played by the harness; everything they say to each other is a `Message` of the library, written to
//! XML and parsed back on the other side, and every decision they take is taken on the library's values (list elements and
//! their hashes, delta elements unpacked, Base64::to_hash, error replies with the RFC's codes).
use crate::common::*;
use rpki::ca::publication::{Base64, ErrorReply, ListElement, ListReply, Message, Publish, PublishDelta, PublishDeltaElement, Query, Reply,
                            ReportError, ReportErrorCode, Update, Withdraw};
use rpki::rrdp::Hash;
use rpki::uri;
use serde_json::{json, Value};
use std::collections::{BTreeMap, HashMap};
use std::str::FromStr;

fn uri_of(u: &str) -> uri::Rsync {
    // (an ampersand and an apostrophe: the URI travels in an XML attribute)
    uri::Rsync::from_str(if u == "u1" { "rsync://host.example/module/dir/a&b'c.cer" } else if u == "u2" { "rsync://Host.Example/module/x.roa" } else { "rsync://host.example/module/dir/z.mft" }).unwrap()
}
fn data_of(d: &str) -> Vec<u8> {
    match d { "d1" => b"object one\n".to_vec(), "d2" => (0..5000u32).map(|i| (i * 31 % 251) as u8).collect(), _ => vec![0x30, 0x00] }
}
// (keyed by the URI itself: its Hash and Eq are what a server would rely on)
type Store = HashMap<uri::Rsync, Vec<u8>>;
fn store_of(v: &Value) -> Store {
    v.as_object().unwrap().iter().filter(|(_, d)| *d != "none").map(|(u, d)| (uri_of(u), data_of(d.as_str().unwrap()))).collect()
}
/// over the wire and back
fn wire(m: Message) -> Result<Message, String> {
    let xml = m.to_xml_bytes();
    let back = Message::decode(xml.as_ref()).map_err(|e| format!("the library does not parse its own message: {e}: {}", String::from_utf8_lossy(&xml)))?;
    if back != m { return Err(format!("message changed on the wire: {}", String::from_utf8_lossy(&xml))); }
    Ok(back)
}
fn code_of(s: &str) -> ReportErrorCode {
    ReportErrorCode::from_str(s).unwrap()
}

/// The server's handling of one query message; returns its reply message.
fn serve(store: &mut Store, query: Message) -> Result<Message, String> {
    match query.as_query().map_err(|e| format!("not a query: {e}"))? {
        Query::List => Ok(Message::list_reply(ListReply::new(store.iter().map(|(u, d)| ListElement::new(u.clone(), Hash::from_data(d))).collect()))),
        Query::Delta(delta) => {
            let mut next = store.clone();
            for el in delta.into_elements() {
                let problem = match el {
                    PublishDeltaElement::Publish(p) => {
                        let (_, u, content) = p.unpack();
                        if next.contains_key(&u) { Some(ReportErrorCode::ObjectAlreadyPresent) } else { next.insert(u, content.to_bytes().to_vec()); None }
                    }
                    PublishDeltaElement::Update(p) => {
                        let (_, u, content, hash) = p.unpack();
                        match next.get(&u) {
                            None => Some(ReportErrorCode::NoObjectPresent),
                            Some(d) if Hash::from_data(d) != hash => Some(ReportErrorCode::NoObjectMatchingHash),
                            Some(_) => { next.insert(u, content.to_bytes().to_vec()); None }
                        }
                    }
                    PublishDeltaElement::Withdraw(p) => {
                        let (_, u, hash) = p.unpack();
                        match next.get(&u) {
                            None => Some(ReportErrorCode::NoObjectPresent),
                            Some(d) if Hash::from_data(d) != hash => Some(ReportErrorCode::NoObjectMatchingHash),
                            Some(_) => { next.remove(&u); None }
                        }
                    }
                };
                if let Some(code) = problem {
                    // all or nothing: the store stays as it was
                    return Ok(Message::error(ErrorReply::for_error(ReportError::with_code(code))));
                }
            }
            *store = next;
            Ok(Message::success())
        }
    }
}

fn run(c: &Value) -> Result<(), (String, String)> {
    let e = |k: &str, m: String| Err((k.to_string(), m));
    let log = c["log"].as_array().unwrap();
    let mut store = store_of(&log[0]["server"]);
    let want = store_of(&log[0]["want"]);
    let mut listed: Option<ListReply> = None;
    for (i, ev) in log.iter().enumerate().skip(1) {
        let op = ev["op"].as_str().unwrap();
        match op {
            "rival" => {
                let u = uri_of(ev["uri"].as_str().unwrap());
                if ev["data"] == "none" { store.remove(&u); } else { store.insert(u, data_of(ev["data"].as_str().unwrap())); }
            }
            "list" => {
                let q = wire(Message::list_query()).map_err(|m| ("pub:wire".to_string(), m))?;
                let r = serve(&mut store, q).and_then(wire).map_err(|m| ("pub:wire".to_string(), m))?;
                match r.as_reply() {
                    Ok(Reply::List(l)) => {
                        let got: BTreeMap<String, Hash> = l.elements().iter().map(|x| (x.uri().to_string(), *x.hash())).collect();
                        let model: BTreeMap<String, Hash> = store_of(&ev["reply"][1]).iter().map(|(u, d)| (u.to_string(), Hash::from_data(d))).collect();
                        if got != model { return e("pub:list", format!("step {i}: the list reply names {got:?}, specification {model:?}")); }
                        listed = Some(l);
                    }
                    other => return e("pub:list", format!("step {i}: a list query is answered with {other:?}")),
                }
            }
            "delta" | "wipe" => {
                let l = listed.clone().ok_or(("pub:harness".to_string(), "delta before list".to_string()))?;
                let delta = if op == "wipe" { l.into_withdraw_delta() } else {
                    // what the publisher wants against what the list said, element kinds as RFC 8181 defines them
                    let seen: HashMap<uri::Rsync, Hash> = l.into_elements().into_iter().map(|x| x.unpack()).collect();
                    let mut first = PublishDelta::empty();
                    let mut second = PublishDelta::empty();
                    for (u, d) in &want {
                        match seen.get(u) {
                            None => first.add_publish(Publish::with_hash_tag(u.clone(), Base64::from_content(d))),
                            Some(h) if *h != Base64::from_content(d).to_hash() => first.add_update(Update::with_hash_tag(u.clone(), Base64::from_content(d), *h)),
                            Some(_) => {}
                        }
                    }
                    for (u, h) in &seen {
                        if !want.contains_key(u) { second.add_withdraw(Withdraw::with_hash_tag(u.clone(), *h)); }
                    }
                    first + second
                };
                // the delta is the specification's, element for element (as a set: the order of independent elements is free)
                let kinds = |d: &PublishDelta| -> Vec<String> {
                    let mut v: Vec<String> = d.clone().into_elements().into_iter().map(|x| match x {
                        PublishDeltaElement::Publish(p) => format!("publish {} {}", p.uri(), p.content().to_hash()),
                        PublishDeltaElement::Update(p) => format!("update {} {} {}", p.uri(), p.hash(), p.content().to_hash()),
                        PublishDeltaElement::Withdraw(p) => format!("withdraw {} {}", p.uri(), p.hash()),
                    }).collect();
                    v.sort();
                    v
                };
                let mut model: Vec<String> = ev["delta"].as_array().unwrap().iter().map(|x| {
                    let u = uri_of(x[1].as_str().unwrap());
                    let h = |k: usize| Hash::from_data(&data_of(x[k].as_str().unwrap()));
                    match x[0].as_str().unwrap() { "publish" => format!("publish {u} {}", h(2)), "update" => format!("update {u} {} {}", h(2), h(3)), _ => format!("withdraw {u} {}", h(2)) }
                }).collect();
                model.sort();
                if kinds(&delta) != model { return e(&format!("pub:{op}:elements"), format!("step {i}: the delta is {:?}, specification {model:?}", kinds(&delta))); }
                let q = wire(Message::delta(delta)).map_err(|m| ("pub:wire".to_string(), m))?;
                let r = serve(&mut store, q).and_then(wire).map_err(|m| ("pub:wire".to_string(), m))?;
                let want_reply = &ev["reply"];
                match r.as_reply() {
                    Ok(Reply::Success) => if want_reply[0] != "success" { return e("pub:reply", format!("step {i}: success, specification {want_reply}")); },
                    Ok(Reply::ErrorReply(er)) => {
                        if want_reply[0] != "error" { return e("pub:reply", format!("step {i}: {er}, specification {want_reply}")); }
                        // (the order of independent elements in a delta is free, so is which failing element is reported)
                        let codes: Vec<&str> = ev["codes"].as_array().unwrap().iter().map(|x| x.as_str().unwrap()).collect();
                        if !codes.iter().any(|code| er == ErrorReply::for_error(ReportError::with_code(code_of(code))) && er.to_string().contains(code)) {
                            return e("pub:reply:code", format!("step {i}: {er}, specification one of {codes:?}"));
                        }
                    }
                    other => return e("pub:reply", format!("step {i}: a delta is answered with {other:?}")),
                }
            }
            other => return e("pub:harness", format!("unknown op {other}")),
        }
        let model = store_of(&ev["server"]);
        if store != model {
            return e("pub:server", format!("step {i} ({op}): the server holds {:?}, specification {:?}", store.keys().map(|u| u.to_string()).collect::<std::collections::BTreeSet<_>>(), model.keys().map(|u| u.to_string()).collect::<std::collections::BTreeSet<_>>()));
        }
    }
    Ok(())
}

pub fn replay(args: &[String]) {
    let cases = read_cases(&args[0]);
    let mut s = Summary::new();
    for (i, c) in cases.iter().enumerate() {
        match guarded(|| run(c)) {
            Ok(Ok(())) => {}
            Ok(Err((k, m))) => s.violation(&k, m, c.clone()),
            Err(m) => s.violation("pub:panic", m, c.clone()),
        }
        s.eval_if(c["log"].as_array().unwrap().len() >= 3, &c["log"].to_string());
        if i % 2003 == 11 { s.sample(c.clone()); }
    }
    let _ = json!(null);
    s.print();
}
