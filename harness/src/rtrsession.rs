//! C06 — binds spec/RtrSession.tla to the real rtr::client::Client and rtr::server::Server.
//!
//! Each TLC behaviour (`log`) is executed on a paused single-threaded tokio runtime:
//! the real client talks over an in-memory duplex socket to the real server (or, for
//! SrvMax < 2, to a legacy cache played by the harness from the specification's
//! server actions).  The harness' PayloadSource counts the server's calls into the
//! source and applies the behaviour's SrcUpdates exactly at the recorded call index.
use crate::common::*;
use rpki::crypto::keys::KeyIdentifier;
use rpki::resources::addr::{MaxLenPrefix, Prefix};
use rpki::resources::asn::Asn;
use rpki::rtr::client::{Client, PayloadError, PayloadTarget, PayloadUpdate};
use rpki::rtr::payload::{Action, Payload, PayloadRef, Timing};
use rpki::rtr::pdu::{self, ProviderAsns, RouterKeyInfo};
use rpki::rtr::server::{NotifySender, PayloadDiff, PayloadSet, PayloadSource, Server, Socket};
use rpki::rtr::state::{Serial, State};
use serde_json::{json, Value};
use std::collections::BTreeSet;
use std::net::{IpAddr, Ipv4Addr, Ipv6Addr};
use std::pin::Pin;
use std::sync::{Arc, Mutex};
use std::task::{Context, Poll};
use tokio::io::{AsyncRead, AsyncReadExt, AsyncWrite, AsyncWriteExt, DuplexStream, ReadBuf};

// --------------------------------------------------------------------------
// model items <-> real payload
// --------------------------------------------------------------------------
pub type Item = (u64, String, u64);

pub fn item_of(v: &Value) -> Item {
    (v[0].as_u64().unwrap(), v[1].as_str().unwrap().to_string(), v[2].as_u64().unwrap())
}

/// which concrete values the model's items stand for: 0 = ordinary values, 1 = values at the edges (host prefixes /32 and /128,
/// a key with a single octet of key information, provider AS numbers 0 and 2^32-1)
pub static REALISATION: std::sync::atomic::AtomicUsize = std::sync::atomic::AtomicUsize::new(0);

/// octets of key information of the model's router key in the ordinary realisation (0: the usual 91, a P-256 key); the replays
/// walk this through the lengths up to 1300, because nothing says a writer treats all lengths alike
pub static KEYINFO_LEN: std::sync::atomic::AtomicUsize = std::sync::atomic::AtomicUsize::new(0);

/// The session id a model session stands for.  In the edge realisation the ids are small numbers: the header field that
/// carries a session id carries an error code in an Error PDU and flags in a payload PDU (model session 1 is id 4, the code of
/// "unsupported protocol version"; the next ones 5, 6, ... and the foreign session 7 is id 10).
pub fn sess_id(s: u64) -> u16 {
    if REALISATION.load(std::sync::atomic::Ordering::SeqCst) == 1 { 3 + s as u16 } else { 100 + s as u16 }
}

pub fn payload_of(it: &Item) -> Payload {
    if REALISATION.load(std::sync::atomic::Ordering::SeqCst) == 1 {
        return match it.1.as_str() {
            "o4" => Payload::origin(MaxLenPrefix::new(Prefix::new(IpAddr::V4(Ipv4Addr::new(192, 0, 2, 1)), 32).unwrap(), None).unwrap(), Asn::from_u32(0)),
            "o6" => Payload::origin(MaxLenPrefix::new(Prefix::new(IpAddr::V6(Ipv6Addr::from((0x2001_0db8u128 << 96) | 1)), 128).unwrap(), Some(128)).unwrap(), Asn::from_u32(u32::MAX)),
            "k1" => Payload::router_key(KeyIdentifier::from([0xFFu8; 20]), Asn::from_u32(u32::MAX), RouterKeyInfo::try_from(vec![0x30u8]).unwrap()),
            // (one provider: AS 0; two: the last AS number twice in a row - a list is a list, the source said so)
            "c1" => Payload::aspa(Asn::from_u32(u32::MAX - 1),
                                  ProviderAsns::try_from_iter((0..it.2).map(|_| Asn::from_u32(if it.2 == 1 { 0 } else { u32::MAX }))).unwrap()),
            other => panic!("unknown model item {other}"),
        };
    }
    match it.1.as_str() {
        "o4" => Payload::origin(
            MaxLenPrefix::new(Prefix::new(IpAddr::V4(Ipv4Addr::new(10, 0, 0, 0)), 8).unwrap(), Some(16)).unwrap(),
            Asn::from_u32(64496),
        ),
        "o6" => Payload::origin(
            MaxLenPrefix::new(Prefix::new(IpAddr::V6(Ipv6Addr::from(0x2001_0db8u128 << 96)), 32).unwrap(), Some(48)).unwrap(),
            Asn::from_u32(4_200_000_000),
        ),
        "k1" => Payload::router_key(
            KeyIdentifier::from([0xA5u8; 20]),
            Asn::from_u32(65010),
            RouterKeyInfo::try_from({
                let n = KEYINFO_LEN.load(std::sync::atomic::Ordering::SeqCst);
                (0..if n == 0 { 91 } else { n }).map(|i| i as u8).collect::<Vec<u8>>()
            }).unwrap(),
        ),
        "c1" => Payload::aspa(
            Asn::from_u32(65000),
            ProviderAsns::try_from_iter((0..it.2).map(|i| Asn::from_u32(65001 + i as u32))).unwrap(),
        ),
        other => panic!("unknown model item {other}"),
    }
}

/// Real payload -> model item (None if it is none of the scenario's items).
pub fn item_from(p: &Payload) -> Option<Item> {
    for it in [(0, "o4", 0), (0, "o6", 0), (1, "k1", 0), (2, "c1", 1), (2, "c1", 2), (2, "c1", 0)] {
        let it = (it.0, it.1.to_string(), it.2);
        if payload_of(&it) == *p {
            return Some(it);
        }
    }
    None
}

pub fn timing_of(t: u64) -> Timing {
    // the edge realisation: values each inside its RFC 8210 range whose order is unusual (retry as long as expire, refresh
    // longer than expire) - what the source says is what the client must hold, whatever one thinks of it
    if REALISATION.load(std::sync::atomic::Ordering::SeqCst) == 1 {
        match t {
            1 => return Timing { refresh: 3600, retry: 7200, expire: 7200 },
            2 => return Timing { refresh: 14400, retry: 900, expire: 10800 },
            _ => {}
        }
    }
    match t {
        1 => Timing { refresh: 11, retry: 12, expire: 13 },
        2 => Timing { refresh: 0x0102_0304, retry: 600, expire: u32::MAX },
        3 => Timing { refresh: 20, retry: 600, expire: 7200 },          // (RtrPacing: four ticks of five seconds)
        _ => Timing::default(),
    }
}
pub fn timing_index(t: Timing) -> u64 {
    for i in [1u64, 2] {
        let x = timing_of(i);
        if (x.refresh, x.retry, x.expire) == (t.refresh, t.retry, t.expire) {
            return i;
        }
    }
    if (t.refresh, t.retry, t.expire) == (3600, 600, 7200) { 0 } else { 99 }
}

// --------------------------------------------------------------------------
// the data source (harness side of the PayloadSource trait)
// --------------------------------------------------------------------------
#[derive(Clone, Debug)]
pub struct Version {
    pub session: u64,
    pub serial: u64,
    pub data: Vec<Item>,
}

pub fn version_of(v: &Value) -> Version {
    Version {
        session: v["session"].as_u64().unwrap(),
        serial: v["serial"].as_u64().unwrap(),
        data: v["data"].as_array().unwrap().iter().map(item_of).collect(),
    }
}

pub type EvLog = Arc<Mutex<Vec<Value>>>;

pub struct SrcState {
    /// when set, every call the library makes into the source is recorded (trace validation)
    pub evlog: Option<EvLog>,
    pub hist: Vec<Version>,
    pub timing: u64,
    pub window: u64,
    pub serial_base: u32,
    pub calls: u64,
    /// updates still to apply in this step: (after this many calls, new version, new timing)
    pub pending: Vec<(u64, Version, u64)>,
    pub ready: bool,
    /// the transport dies when the library enters the source with this many calls made in the current step
    pub cut_at: Option<u64>,
    pub dead: Arc<std::sync::atomic::AtomicBool>,
    /// the order in which the source hands out the items of a set or diff is its own business: false = origins, router keys,
    /// ASPAs; true = the reverse (items a low protocol version cannot carry come first)
    pub order_desc: bool,
}

impl SrcState {
    fn state_of(&self, v: &Version) -> State {
        State::from_parts(sess_id(v.session), Serial(self.serial_base.wrapping_add(v.serial as u32)))
    }
    /// the library is about to make its next call into the source
    fn ev(&self, e: Value) {
        if let Some(l) = &self.evlog {
            l.lock().unwrap().push(e);
        }
    }
    fn push_version(&mut self, v: Version, t: u64) {
        self.ev(json!({"ev": "update", "v": {"session": v.session, "serial": v.serial,
            "data": v.data.iter().map(|i| json!([i.0, i.1, i.2])).collect::<Vec<_>>()}, "timing": t}));
        self.hist.push(v);
        self.timing = t;
    }
    fn tick(&mut self) {
        while let Some(pos) = self.pending.iter().position(|p| p.0 <= self.calls) {
            let (_, v, t) = self.pending.remove(pos);
            self.push_version(v, t);
        }
        if self.cut_at == Some(self.calls) {
            self.dead.store(true, std::sync::atomic::Ordering::SeqCst);
        }
        self.calls += 1;
    }
    pub fn flush(&mut self) {
        for (_, v, t) in std::mem::take(&mut self.pending) {
            self.push_version(v, t);
        }
        self.calls = 0;
    }
    fn cur(&self) -> &Version {
        self.hist.last().unwrap()
    }
}

#[derive(Clone)]
pub struct Source(pub Arc<Mutex<SrcState>>);

pub struct ItemList {
    src: Arc<Mutex<SrcState>>,
    items: Vec<(Payload, Action)>,
    pos: usize,
}

fn rank(it: &Item) -> u64 {
    match (it.1.as_str(), it.2) {
        ("o4", _) => 1,
        ("o6", _) => 2,
        ("k1", _) => 3,
        ("c1", 1) => 4,
        _ => 5,
    }
}

/// The specification's DiffSeq / FullSeq (same enumeration order).
pub fn diff_seq(old: &[Item], new: &[Item], desc: bool) -> Vec<(Payload, Action)> {
    let mut wd: Vec<&Item> = old
        .iter()
        .filter(|it| !new.contains(it) && !(it.0 == 2 && new.iter().any(|n| n.0 == 2 && n.1 == it.1)))
        .collect();
    let mut an: Vec<&Item> = new.iter().filter(|it| !old.contains(it)).collect();
    wd.sort_by_key(|i| rank(i));
    an.sort_by_key(|i| rank(i));
    if desc {
        wd.reverse();
        an.reverse();
    }
    wd.into_iter().map(|i| (payload_of(i), Action::Withdraw)).chain(an.into_iter().map(|i| (payload_of(i), Action::Announce))).collect()
}

impl ItemList {
    fn note(&self) {
        if let Some((p, a)) = self.items.get(self.pos) {
            let it = item_from(p).unwrap();
            self.src.lock().unwrap().ev(json!({"ev": "item", "act": if *a == Action::Announce { "a" } else { "w" }, "item": [it.0, it.1, it.2]}));
        }
    }
}
impl PayloadSet for ItemList {
    fn next(&mut self) -> Option<PayloadRef<'_>> {
        self.src.lock().unwrap().tick();
        self.note();
        let r = self.items.get(self.pos).map(|(p, _)| p.as_ref());
        self.pos += 1;
        r
    }
}
impl PayloadDiff for ItemList {
    fn next(&mut self) -> Option<(PayloadRef<'_>, Action)> {
        self.src.lock().unwrap().tick();
        self.note();
        let r = self.items.get(self.pos).map(|(p, a)| (p.as_ref(), *a));
        self.pos += 1;
        r
    }
}

impl PayloadSource for Source {
    type Set = ItemList;
    type Diff = ItemList;
    fn ready(&self) -> bool {
        let mut s = self.0.lock().unwrap();
        s.tick();
        s.ready
    }
    fn notify(&self) -> State {
        let s = self.0.lock().unwrap();
        s.state_of(s.cur())
    }
    fn full(&self) -> (State, Self::Set) {
        let mut s = self.0.lock().unwrap();
        s.tick();
        let cur = s.cur().clone();
        s.ev(json!({"ev": "query", "kind": "full", "target": [cur.session, cur.serial]}));
        (s.state_of(&cur), ItemList { src: self.0.clone(), items: diff_seq(&[], &cur.data, s.order_desc), pos: 0 })
    }
    fn diff(&self, state: State) -> Option<(State, Self::Diff)> {
        let mut s = self.0.lock().unwrap();
        s.tick();
        let cur = s.cur().clone();
        let from = s.hist.iter().find(|v| {
            let st = s.state_of(v);
            st.session() == state.session() && st.serial() == state.serial() && v.session == cur.session && cur.serial - v.serial <= s.window
        });
        let Some(from) = from else {
            s.ev(json!({"ev": "query", "kind": "nodiff", "target": []}));
            return None;
        };
        s.ev(json!({"ev": "query", "kind": "diff", "target": [cur.session, cur.serial]}));
        Some((s.state_of(&cur), ItemList { src: self.0.clone(), items: diff_seq(&from.data, &cur.data, s.order_desc), pos: 0 }))
    }
    fn timing(&self) -> Timing {
        let mut s = self.0.lock().unwrap();
        s.tick();
        s.ev(json!({"ev": "eod", "timing": s.timing}));
        timing_of(s.timing)
    }
}

// --------------------------------------------------------------------------
// the client's target (harness side of PayloadTarget)
// --------------------------------------------------------------------------
#[derive(Default)]
pub struct Target {
    pub evlog: Option<EvLog>,
    pub last_reset: bool,
    pub data: BTreeSet<Item>,
    pub unknown: u64,
    pub last_timing: Option<Timing>,
    pub applies: u64,
}
pub struct Update {
    reset: bool,
    items: Vec<(Action, Payload)>,
}
impl PayloadUpdate for Update {
    fn push_update(&mut self, action: Action, payload: Payload) -> Result<(), PayloadError> {
        self.items.push((action, payload));
        Ok(())
    }
}
impl PayloadTarget for Target {
    type Update = Update;
    fn start(&mut self, reset: bool) -> Update {
        Update { reset, items: Vec::new() }
    }
    fn apply(&mut self, update: Update, timing: Timing) -> Result<(), PayloadError> {
        if update.reset {
            self.data.clear();
        }
        let Update { reset: _, items } = &update;
        for (action, p) in items.clone() {
            match item_from(&p) {
                None => self.unknown += 1,
                Some(it) => {
                    // ASPA records are keyed by customer
                    if it.0 == 2 {
                        self.data.retain(|x| !(x.0 == 2 && x.1 == it.1));
                        if action == Action::Announce {
                            self.data.insert(it);
                        }
                    } else if action == Action::Announce {
                        self.data.insert(it);
                    } else {
                        self.data.remove(&it);
                    }
                }
            }
        }
        self.last_timing = Some(timing);
        self.last_reset = update.reset;
        self.applies += 1;
        Ok(())
    }
}

// --------------------------------------------------------------------------
// sockets
// --------------------------------------------------------------------------
/// One end of an in-memory connection; once `dead` is set nothing can be written through it any more.
pub struct Sock(pub DuplexStream, pub Arc<std::sync::atomic::AtomicBool>);
impl AsyncRead for Sock {
    fn poll_read(mut self: Pin<&mut Self>, cx: &mut Context<'_>, buf: &mut ReadBuf<'_>) -> Poll<std::io::Result<()>> {
        Pin::new(&mut self.0).poll_read(cx, buf)
    }
}
impl AsyncWrite for Sock {
    fn poll_write(mut self: Pin<&mut Self>, cx: &mut Context<'_>, buf: &[u8]) -> Poll<std::io::Result<usize>> {
        if self.1.load(std::sync::atomic::Ordering::SeqCst) {
            return Poll::Ready(Err(std::io::Error::new(std::io::ErrorKind::BrokenPipe, "connection lost")));
        }
        Pin::new(&mut self.0).poll_write(cx, buf)
    }
    fn poll_flush(mut self: Pin<&mut Self>, cx: &mut Context<'_>) -> Poll<std::io::Result<()>> {
        // a notification armed to go off with the next query that leaves (NotifyCross)
        if let Some(mut n) = CROSS.with(|c| c.borrow_mut().take()) { n.notify(); }
        Pin::new(&mut self.0).poll_flush(cx)
    }
    fn poll_shutdown(mut self: Pin<&mut Self>, cx: &mut Context<'_>) -> Poll<std::io::Result<()>> {
        Pin::new(&mut self.0).poll_shutdown(cx)
    }
}
impl Socket for Sock {}
thread_local! { static CROSS: std::cell::RefCell<Option<NotifySender>> = const { std::cell::RefCell::new(None) }; }

/// A cache that speaks at most version `max`: the specification's server actions, played by the harness.
async fn legacy_server(mut sock: DuplexStream, src: Source, max: u8) -> std::io::Result<()> {
    let mut conn_ver: Option<u8> = None;
    loop {
        let mut h = [0u8; 8];
        if sock.read_exact(&mut h).await.is_err() {
            return Ok(());
        }
        let (ver, typ) = (h[0], h[1]);
        let session = u16::from_be_bytes([h[2], h[3]]);
        let len = u32::from_be_bytes([h[4], h[5], h[6], h[7]]);
        let mut body = vec![0u8; (len as usize).saturating_sub(8).min(64)];
        sock.read_exact(&mut body).await?;
        if let Some(cv) = conn_ver {
            if cv != ver {
                pdu::Error::new(cv, 8, h, "version switched").write(&mut sock).await?;
                continue;
            }
        } else if ver > max {
            src.0.lock().unwrap().ev(json!({"ev": "err4"}));
            pdu::Error::new(max, 4, h, "unsupported version").write(&mut sock).await?;
            continue;
        } else {
            conn_ver = Some(ver);
        }
        let _ = src.ready();
        let answer = match typ {
            1 => {
                let serial = u32::from_be_bytes([body[0], body[1], body[2], body[3]]);
                match src.diff(State::from_parts(session, Serial(serial))) {
                    Some((st, l)) => Some((st, l, false)),
                    None => {
                        pdu::CacheReset::new(ver).write(&mut sock).await?;
                        None
                    }
                }
            }
            2 => {
                let (st, l) = src.full();
                Some((st, l, true))
            }
            _ => {
                pdu::Error::new(ver, 3, h, "unexpected").write(&mut sock).await?;
                None
            }
        };
        if let Some((state, mut list, _)) = answer {
            pdu::CacheResponse::new(ver, state).write(&mut sock).await?;
            while let Some((p, a)) = PayloadDiff::next(&mut list) {
                if let Some(p) = pdu::Payload::new_if_supported(ver, a.into_flags(), p) {
                    p.write(&mut sock).await?;
                }
            }
            let t = src.timing();
            pdu::EndOfData::new(ver, state, t).write(&mut sock).await?;
        }
        sock.flush().await?;
    }
}

// --------------------------------------------------------------------------
// replay of one behaviour
// --------------------------------------------------------------------------
struct StepExp {
    /// the source notifies just as the query of this step goes out
    cross: bool,
    ok: bool,
    /// Some(k): the connection is cut once the server has made k source calls in this step
    lost_at: Option<u64>,
    state: Option<(u64, u64)>,
    data: BTreeSet<Item>,
    timing: u64,
    ver: u64,
}

fn run_behaviour(c: &Value, serial_base: u32) -> Result<(), (String, String)> {
    let log = c["log"].as_array().unwrap();
    let init = &log[0];
    let cli_init = c["cliInit"].as_u64().unwrap() as u8;
    let srv_max = c["srvMax"].as_u64().unwrap() as u8;
    let src = Source(Arc::new(Mutex::new(SrcState {
        evlog: None,
        hist: vec![version_of(&init["v"])],
        timing: 1,
        window: c["window"].as_u64().unwrap(),
        serial_base,
        calls: 0,
        pending: Vec::new(),
        ready: true,
        cut_at: None,
        dead: Default::default(),
        // the order in which the source lists a set is arbitrary: descending for the runs on a shifted serial base
        order_desc: serial_base != 0,
    })));
    let mk_state = |s: &Value| -> Option<State> {
        let a = s.as_array()?;
        if a.is_empty() {
            return None;
        }
        Some(State::from_parts(sess_id(a[0].as_u64().unwrap()), Serial(serial_base.wrapping_add(a[1].as_u64().unwrap() as u32))))
    };
    let mut target = Target::default();
    target.data = init["data"].as_array().unwrap().iter().map(item_of).collect();
    // group the log into steps
    let mut steps: Vec<(Vec<(u64, Version, u64)>, StepExp)> = Vec::new();
    let mut inj: Vec<(u64, Version, u64)> = Vec::new();
    for e in &log[1..] {
        match e["a"].as_str().unwrap() {
            "update" => inj.push((e["at"].as_u64().unwrap(), version_of(&e["v"]), e["timing"].as_u64().unwrap())),
            "step" => {
                let st = e["state"].as_array().unwrap();
                steps.push((
                    std::mem::take(&mut inj),
                    StepExp {
                        cross: false,
                        ok: true,
                        lost_at: None,
                        state: Some((st[0].as_u64().unwrap(), st[1].as_u64().unwrap())),
                        data: e["data"].as_array().unwrap().iter().map(item_of).collect(),
                        timing: e["timing"].as_u64().unwrap(),
                        ver: e["ver"].as_u64().unwrap(),
                    },
                ));
            }
            "fail" | "lost" | "cross" => {
                let st = e["state"].as_array().unwrap();
                steps.push((std::mem::take(&mut inj), StepExp {
                    cross: e["a"] == "cross",
                    ok: false,
                    lost_at: if e["a"] == "lost" { Some(e["at"].as_u64().unwrap()) } else { None },
                    state: if st.is_empty() { None } else { Some((st[0].as_u64().unwrap(), st[1].as_u64().unwrap())) },
                    data: e["data"].as_array().unwrap().iter().map(item_of).collect(),
                    timing: 0,
                    ver: 0,
                }))
            }
            _ => {}
        }
    }
    let rt = tokio::runtime::Builder::new_current_thread().enable_time().start_paused(true).build().unwrap();
    rt.block_on(async move {
        let (a, b) = tokio::io::duplex(1 << 16);
        let dead = src.0.lock().unwrap().dead.clone();
        let notify = NotifySender::new();
        let srv = if srv_max >= 2 {
            let listener = Box::pin(futures_util::stream::iter(vec![Ok::<Sock, std::io::Error>(Sock(b, dead.clone()))]));
            let server = Server::new(listener, notify.clone(), src.clone());
            tokio::spawn(async move {
                let _ = server.run().await;
            })
        } else {
            let s2 = src.clone();
            tokio::spawn(async move {
                let _ = legacy_server(b, s2, srv_max).await;
            })
        };
        let mut client = Client::with_initial_version(cli_init, Sock(a, Default::default()), target, mk_state(&init["state"]));
        let mut prev_applies = 0;
        for (i, (inj, exp)) in steps.into_iter().enumerate() {
            {
                let mut s = src.0.lock().unwrap();
                s.calls = 0;
                s.pending = inj;
                s.cut_at = exp.lost_at;
                if exp.cross {
                    // whatever the source was to publish before this step's first source call is published now, the notification goes
                    // off with the client's query
                    s.flush();
                }
            }
            // let the server task reach its select before the query leaves
            for _ in 0..4 { tokio::task::yield_now().await; }
            CROSS.with(|c| *c.borrow_mut() = if exp.cross { Some(notify.clone()) } else { None });
            let r = tokio::time::timeout(std::time::Duration::from_secs(30_000_000), client.step()).await;
            CROSS.with(|c| *c.borrow_mut() = None);
            src.0.lock().unwrap().flush();
            let ok = matches!(r, Ok(Ok(())));
            if exp.cross && ok {
                // The step finished after all (a client that skips the notification would): then it must have finished right -
                // the data of the state the client now names, as the source reported it, for the version both sides speak.
                let t = client.target();
                let st = client.state().map(|s| (s.session(), s.serial().0));
                let s = src.0.lock().unwrap();
                let eff = cli_init.min(srv_max) as u64;
                let named = s.hist.iter().find(|v| Some((sess_id(v.session), serial_base.wrapping_add(v.serial as u32))) == st);
                return match named {
                    None => Err(("cross:state".into(), format!("step {} finished across a Serial Notify naming a state {st:?} the source never had", i + 1))),
                    Some(v) => {
                        let want: std::collections::BTreeSet<Item> = v.data.iter().filter(|it| it.0 <= eff).cloned().collect();
                        if t.data != want {
                            Err(("cross:data".into(), format!("step {} finished across a Serial Notify with client data {:?}; the source's data for that state is {:?}", i + 1, t.data, want)))
                        } else { Ok(()) }
                    }
                };
            }
            if ok != exp.ok {
                return Err((
                    format!("step:{}", if exp.ok { "failed" } else { "succeeded" }),
                    format!("step {} returned {:?}, specification says ok = {}", i + 1, r.map(|x| x.map_err(|e| e.to_string())).map_err(|_| "timeout"), exp.ok),
                ));
            }
            if !exp.ok {
                // Beyond C06's statement (which speaks about steps that finish): a failed step hands nothing to the target and
                // leaves the client's state alone (or forgotten after a cache reset). Keys start with "beyond:".
                let t = client.target();
                if t.applies != prev_applies {
                    return Err(("beyond:fail:applied".into(), format!("step {} failed but the target was handed an update", i + 1)));
                }
                if t.data != exp.data {
                    return Err(("beyond:fail:data".into(), format!("step {} failed; client data {:?}, specification {:?}", i + 1, t.data, exp.data)));
                }
                let want_state = exp.state.map(|(s, n)| (sess_id(s), serial_base.wrapping_add(n as u32)));
                let got_state = client.state().map(|s| (s.session(), s.serial().0));
                if got_state != want_state {
                    return Err(("beyond:fail:state".into(), format!("step {} failed; client state {got_state:?}, specification {want_state:?}", i + 1)));
                }
                break;
            }
            let t = client.target();
            if t.applies != prev_applies + 1 {
                return Err(("step:apply-count".into(), format!("step {}: target.apply called {} times", i + 1, t.applies - prev_applies)));
            }
            prev_applies = t.applies;
            if t.unknown > 0 {
                return Err(("data:unknown-item".into(), format!("step {}: the target was handed a payload item that is none of the source's", i + 1)));
            }
            if t.data != exp.data {
                return Err(("data".into(), format!("step {}: client data {:?}, specification {:?}", i + 1, t.data, exp.data)));
            }
            let want_state = exp.state.map(|(s, n)| (sess_id(s), serial_base.wrapping_add(n as u32)));
            let got_state = client.state().map(|s| (s.session(), s.serial().0));
            if got_state != want_state {
                return Err(("state".into(), format!("step {}: client state {got_state:?}, specification {want_state:?}", i + 1)));
            }
            if exp.ver >= 1 {
                let got = client.target().last_timing.map(timing_index);
                if got != Some(exp.timing) {
                    return Err(("timing".into(), format!("step {}: timing handed to the target {:?} (index {got:?}), specification index {}", i + 1, client.target().last_timing, exp.timing)));
                }
            }
        }
        srv.abort();
        Ok(())
    })
}

pub fn replay(args: &[String]) {
    let cases = read_cases(&args[0]);
    let mut s = Summary::new();
    for (ci, c) in cases.iter().enumerate() {
        KEYINFO_LEN.store(1 + (ci * 7) % 1300, std::sync::atomic::Ordering::SeqCst);
        for base in [0u32, 0xFFFF_FFFF] {
            // the runs on the shifted serial base also use the edge realisation of the payload items
            REALISATION.store(if base == 0 { 0 } else { 1 }, std::sync::atomic::Ordering::SeqCst);
            match guarded(|| run_behaviour(c, base)) {
                Ok(Ok(())) => {}
                Ok(Err((k, m))) => s.violation(&k, format!("[serial base {base:#x}] {m}"), json!({"case": c, "serial_base": base})),
                Err(m) => s.violation("panic", m, json!({"case": c, "serial_base": base})),
            }
            let nontrivial = c["log"].as_array().unwrap().iter().any(|e| e["a"] == "update");
            s.eval_if(nontrivial, &format!("{}|{base}", c["log"]));
        }
        if s.samples.len() < 3 && s.evaluations % 2003 < 2 {
            s.sample(c.clone());
        }
    }
    s.print();
}


// --------------------------------------------------------------------------
// impl -> spec: one long randomly scheduled connection, recorded at the trait boundary
// --------------------------------------------------------------------------
fn rand_data(rng: &mut Rng) -> Vec<Item> {
    let mut d: Vec<Item> = Vec::new();
    for (k, name) in [(0u64, "o4"), (0, "o6"), (1, "k1")] {
        if rng.chance(1, 2) {
            d.push((k, name.to_string(), 0));
        }
    }
    match rng.below(4) {
        0 => {}
        n => d.push((2, "c1".to_string(), n - 1)),      // an announced ASPA may have no providers at all
    }
    d
}

pub fn drive(args: &[String]) {
    let seed = arg_u64(args, "--seed", 1);
    let n = arg_u64(args, "--n", 60);
    let out = arg_val(args, "--out").expect("--out");
    let cli_init = arg_u64(args, "--cli-init", 2) as u8;
    let srv_max = arg_u64(args, "--srv-max", 2) as u8;
    let window = arg_u64(args, "--window", 1);
    let cli_start = arg_val(args, "--cli-start").unwrap_or("none".into());
    let serial_base = if seed % 2 == 0 { 0u32 } else { 0xFFFF_FFF0 };
    let mut rng = Rng::new(seed);
    let evlog: EvLog = Arc::new(Mutex::new(Vec::new()));
    let v0 = Version { session: 1, serial: 0, data: rand_data(&mut rng) };
    let eff = cli_init.min(srv_max) as u64;
    let (init_state, init_data): (Vec<u64>, Vec<Item>) = match cli_start.as_str() {
        "stale" => (vec![1, 0], v0.data.iter().filter(|i| i.0 <= eff).cloned().collect()),
        "foreign" => (vec![7, 0], if rng.chance(1, 2) { vec![] } else { vec![(0, "o4".to_string(), 0)] }),
        _ => (vec![], vec![]),
    };
    evlog.lock().unwrap().push(json!({"ev": "init", "v": {"session": 1, "serial": 0, "data": v0.data.iter().map(|i| json!([i.0, i.1, i.2])).collect::<Vec<_>>()},
        "state": init_state, "data": init_data.iter().map(|i| json!([i.0, i.1, i.2])).collect::<Vec<_>>()}));
    let src = Source(Arc::new(Mutex::new(SrcState {
        evlog: Some(evlog.clone()), hist: vec![v0], timing: 1, window, serial_base, calls: 0, pending: Vec::new(), ready: true, cut_at: None, dead: Default::default(), order_desc: false,
    })));
    let mut target = Target::default();
    target.data = init_data.into_iter().collect();
    let mut s = Summary::new();
    let st0 = if init_state.is_empty() { None } else { Some(State::from_parts(sess_id(init_state[0]), Serial(serial_base.wrapping_add(init_state[1] as u32)))) };
    let rt = tokio::runtime::Builder::new_current_thread().enable_time().start_paused(true).build().unwrap();
    let el = evlog.clone();
    let src2 = src.clone();
    let failed = rt.block_on(async move {
        let (a, b) = tokio::io::duplex(1 << 16);
        let srv = if srv_max >= 2 {
            let listener = Box::pin(futures_util::stream::iter(vec![Ok::<Sock, std::io::Error>(Sock(b, Default::default()))]));
            let server = Server::new(listener, NotifySender::new(), src2.clone());
            tokio::spawn(async move { let _ = server.run().await; })
        } else {
            let s3 = src2.clone();
            tokio::spawn(async move { let _ = legacy_server(b, s3, srv_max).await; })
        };
        let mut client = Client::with_initial_version(cli_init, Sock(a, Default::default()), target, st0);
        let mut failed = false;
        for _ in 0..n {
            // schedule 0-3 source updates at random call indices of this step
            {
                let mut st = src2.0.lock().unwrap();
                st.calls = 0;
                let k = rng.below(4);
                let mut last = st.cur().clone();
                let mut ats: Vec<u64> = (0..k).map(|_| rng.below(9)).collect();
                ats.sort();
                for at in ats {
                    let v = if rng.chance(1, 12) { Version { session: last.session + 1, serial: 0, data: rand_data(&mut rng) } }
                            else { Version { session: last.session, serial: last.serial + 1, data: rand_data(&mut rng) } };
                    last = v.clone();
                    st.pending.push((at, v, rng.range(1, 2)));
                }
            }
            el.lock().unwrap().push(json!({"ev": "begin"}));
            let r = tokio::time::timeout(std::time::Duration::from_secs(30_000_000), client.step()).await;
            if matches!(r, Ok(Ok(()))) {
                let t = client.target();
                let stt = client.state().map(|x| vec![(x.session() - 100) as u64, x.serial().0.wrapping_sub(serial_base) as u64]).unwrap_or_default();
                el.lock().unwrap().push(json!({"ev": "apply", "reset": t.last_reset, "state": stt, "timing": t.last_timing.map(timing_index).unwrap_or(0),
                    "data": t.data.iter().map(|i| json!([i.0, i.1, i.2])).collect::<Vec<_>>(), "unknown": t.unknown}));
            } else {
                el.lock().unwrap().push(json!({"ev": "fail"}));
                failed = true;
            }
            // updates scheduled beyond the last call of the step happen now
            src2.0.lock().unwrap().flush();
            if failed { break; }
        }
        srv.abort();
        failed
    });
    let mut t = TraceOut::create(&out);
    let events = evlog.lock().unwrap().clone();
    for e in &events {
        t.ev(e.clone());
    }
    s.evals(events.len() as u64);
    for (i, e) in events.iter().enumerate() {
        if e["ev"] == "apply" { s.nontrivial(&format!("{i}")); }
    }
    s.set("client_step_failed", json!(failed));
    s.sample(json!({"cli_init": cli_init, "srv_max": srv_max, "window": window, "cli_start": cli_start, "serial_base": serial_base,
        "first_events": events.iter().take(8).cloned().collect::<Vec<_>>()}));
    let nev = t.finish();
    s.set("events", json!(nev));
    s.print();
}
