//! Beyond the listed properties — binds spec/RtrFanout.tla to rtr::server::Server::run with several sockets: the listener hands out
//! sockets one by one, every connection runs as its own task on a paused single-threaded runtime, the environment events of a
//! behaviour (offer a socket, write a whole query, close, notify) are applied in bursts and the runtime is left to settle where the
//! specification's schedule settles; what every connection has written at the end is compared with the specification's `out`.
use crate::common::*;
use crate::rtrconn::{parse_out, CtlSock, Entry, Wire};
use crate::rtrsession::{Source, SrcState, Version};
use rpki::rtr::server::{NotifySender, Server};
use serde_json::{json, Value};
use std::collections::HashMap;
use std::sync::{Arc, Mutex};

fn run(c: &Value) -> Result<(), (String, String)> {
    let env = c["env"].as_array().unwrap();
    let marks: Vec<usize> = c["marks"].as_array().unwrap().iter().map(|m| m.as_u64().unwrap() as usize).collect();
    let src = Source(Arc::new(Mutex::new(SrcState {
        evlog: None,
        hist: vec![Version { session: 1, serial: 5, data: vec![(0, "o4".into(), 0), (0, "o6".into(), 0), (1, "k1".into(), 0), (2, "c1".into(), 2)] }],
        timing: 1, window: 1, serial_base: 0, calls: 0, pending: vec![], ready: true, cut_at: None, dead: Default::default(), order_desc: false,
    })));
    let mut wires: HashMap<u64, Arc<Mutex<Wire>>> = HashMap::new();
    let rt = tokio::runtime::Builder::new_current_thread().enable_time().start_paused(true).build().unwrap();
    let mut outs: HashMap<u64, Vec<u8>> = HashMap::new();
    let mut ended: HashMap<u64, bool> = HashMap::new();
    rt.block_on(async {
        let mut notify = NotifySender::new();
        let (tx, rx) = tokio::sync::mpsc::unbounded_channel::<CtlSock>();
        let listener = Box::pin(futures_util::stream::unfold(rx, |mut rx| async move { rx.recv().await.map(|s| (Ok::<CtlSock, std::io::Error>(s), rx)) }));
        let server = Server::new(listener, notify.clone(), src.clone());
        let h = tokio::spawn(async move { let _ = server.run().await; });
        let settle = || async { for _ in 0..40 { tokio::task::yield_now().await; } };
        settle().await;
        for (i, e) in env.iter().enumerate() {
            if marks.contains(&i) {
                settle().await;
            }
            let conn = e[1].as_u64().unwrap();
            match e[0].as_str().unwrap() {
                "offer" => {
                    let w = Arc::new(Mutex::new(Wire::default()));
                    wires.insert(conn, w.clone());
                    let _ = tx.send(CtlSock(w));
                }
                "ask" => {
                    let mut w = wires[&conn].lock().unwrap();
                    w.inbox.extend([1u8, 2, 0, 0, 0, 0, 0, 8]);      // reset query, version 1
                    if let Some(wk) = w.waker.take() { wk.wake(); }
                }
                "close" => {
                    let mut w = wires[&conn].lock().unwrap();
                    w.eof = true;
                    if let Some(wk) = w.waker.take() { wk.wake(); }
                }
                _ => notify.notify(),
            }
        }
        settle().await;
        for (k, w) in &wires {
            let evs = std::mem::take(&mut w.lock().unwrap().events);
            let mut o = Vec::new();
            for (kind, b, _) in &evs {
                if kind == "write" { o.extend_from_slice(b); }
                if kind == "end" { ended.insert(*k, true); }
            }
            outs.insert(*k, o);
        }
        h.abort();
    });
    // (functions over 1..n arrive as arrays)
    for (idx, want) in c["out"].as_array().unwrap().iter().enumerate() {
        let conn = idx as u64 + 1;
        let k = idx;
        let want: Vec<Entry> = want.as_array().unwrap().iter().map(|x| if x[0] == "notify" { Entry::Notify(0) } else { Entry::Full(1) }).collect();
        // (which version octet a Serial Notify carries is C08's business)
        let got: Vec<Entry> = outs.get(&conn).map(|b| parse_out(b)).unwrap_or_default().into_iter().map(|e| if let Entry::Notify(_) = e { Entry::Notify(0) } else { e }).collect();
        if got != want {
            return Err((format!("fanout:out:{}", if got.len() < want.len() { "missing" } else { "different" }),
                        format!("connection {conn} wrote {got:?}, specification {want:?} (events {}, settles after {marks:?})", c["env"])));
        }
        let closed = c["st"][k] == "closed";
        if closed != ended.get(&conn).copied().unwrap_or(false) {
            return Err(("fanout:end".into(), format!("connection {conn}: task ended = {}, specification {}", !closed, c["st"][k])));
        }
    }
    Ok(())
}

pub fn replay(args: &[String]) {
    let cases = read_cases(&args[0]);
    let mut s = Summary::new();
    for (i, c) in cases.iter().enumerate() {
        match guarded(|| run(c)) {
            Ok(Ok(())) => {}
            Ok(Err((k, m))) => s.violation(&k, m, c.clone()),
            Err(m) => s.violation("fanout:panic", m, c.clone()),
        }
        s.eval(Some(&format!("{}|{}", c["env"], c["marks"])));
        if i % 9973 == 5 { s.sample(c.clone()); }
    }
    let _ = json!(null);
    s.print();
}
