//! C07 — binds spec/RtrLayout.tla + RtrWire.tla to rpki::rtr::pdu.
use crate::common::*;
use rpki::resources::addr::{MaxLenPrefix, Prefix};
use rpki::resources::asn::Asn;
use rpki::rtr::payload::{Action, Payload, Timing};
use rpki::rtr::pdu::{self, ProviderAsns, RouterKeyInfo};
use rpki::rtr::state::{Serial, State};
use serde_json::{json, Value};
use std::net::{IpAddr, Ipv4Addr, Ipv6Addr};
use std::pin::Pin;
use std::task::{Context, Poll};
use tokio::io::{AsyncRead, ReadBuf};

/// A finite stream followed by end-of-stream; counts what was consumed and how often
/// the reader came back after having been told the stream has ended.
pub struct Counting {
    data: Vec<u8>,
    pos: usize,
    chunk: usize,
    pub zero_reads: usize,
    /// the stream does not end after its data: it stays open and silent
    open: bool,
    pub starved: bool,
}
impl Counting {
    pub fn new(data: Vec<u8>, chunk: usize) -> Self {
        Counting { data, pos: 0, chunk, zero_reads: 0, open: false, starved: false }
    }
    pub fn open(data: Vec<u8>, chunk: usize) -> Self {
        Counting { data, pos: 0, chunk, zero_reads: 0, open: true, starved: false }
    }
    pub fn consumed(&self) -> usize {
        self.pos
    }
}
const SPIN_LIMIT: usize = 64;
impl AsyncRead for Counting {
    fn poll_read(mut self: Pin<&mut Self>, _: &mut Context<'_>, buf: &mut ReadBuf<'_>) -> Poll<std::io::Result<()>> {
        let left = self.data.len() - self.pos;
        if left == 0 && self.open {
            // nothing more will ever come, and nobody will wake the reader: the harness polls by hand
            self.starved = true;
            return Poll::Pending;
        }
        if left == 0 {
            self.zero_reads += 1;
            if self.zero_reads > SPIN_LIMIT {
                // the reader keeps asking after end of stream: break its loop so the harness can report it
                return Poll::Ready(Err(std::io::Error::other("harness: reader spins at end of stream")));
            }
            return Poll::Ready(Ok(()));
        }
        let n = left.min(self.chunk).min(buf.remaining());
        let p = self.pos;
        buf.put_slice(&self.data[p..p + n]);
        self.pos += n;
        Poll::Ready(Ok(()))
    }
}

fn block<F: std::future::Future>(f: F) -> F::Output {
    // the readers under test never wait: every poll of the stream is ready
    let rt = tokio::runtime::Builder::new_current_thread().build().unwrap();
    rt.block_on(f)
}

/// poll a future by hand; None = it is waiting (for a stream that will never deliver)
fn poll_once_starved<F: std::future::Future>(f: F) -> Option<F::Output> {
    let mut f = std::pin::pin!(f);
    let waker = std::task::Waker::noop();
    let mut cx = Context::from_waker(waker);
    // every poll of the stream is ready until it is exhausted, so one poll either finishes the reader or leaves it waiting
    for _ in 0..4 {
        if let Poll::Ready(v) = f.as_mut().poll(&mut cx) {
            return Some(v);
        }
    }
    None
}

async fn read_entry(entry: &str, r: &mut Counting) -> bool {
    macro_rules! three {
        ($t:ty, $kind:expr) => {
            match $kind {
                b't' => <$t>::read(r).await.is_ok(),
                // try_read: Ok(Ok(pdu)) and Ok(Err(header of an Error PDU)) are both values
                b'y' => <$t>::try_read(r).await.is_ok(),
                _ => match pdu::Header::read(r).await {
                    Ok(h) => <$t>::read_payload(h, r).await.is_ok(),
                    Err(_) => false,
                },
            }
        };
    }
    match entry {
        "payload" => pdu::Payload::read(r).await.is_ok(),
        "skip" => match pdu::Header::read(r).await {
            Ok(h) => pdu::Error::skip_payload(h, r).await.is_ok(),
            Err(_) => false,
        },
        e => {
            let kind = e.as_bytes()[0];
            match &e[1..] {
                "0" => three!(pdu::SerialNotify, kind),
                "1" => three!(pdu::SerialQuery, kind),
                "2" => three!(pdu::ResetQuery, kind),
                "3" => three!(pdu::CacheResponse, kind),
                "4" => three!(pdu::Ipv4Prefix, kind),
                "6" => three!(pdu::Ipv6Prefix, kind),
                "70" => three!(pdu::EndOfDataV0, kind),
                "71" => three!(pdu::EndOfDataV1, kind),
                "8" => three!(pdu::CacheReset, kind),
                _ => panic!("unknown entry {e}"),
            }
        }
    }
}

/// Some((ok, consumed, zero reads)); None: the reader is waiting on an open, silent stream
fn run_reader(entry: &str, bytes: Vec<u8>, chunk: usize, open: bool) -> Result<Option<(bool, usize, usize)>, String> {
    guarded(|| {
        if open {
            let mut r = Counting::open(bytes, chunk);
            let done = poll_once_starved(read_entry(entry, &mut r));
            done.map(|ok| (ok, r.consumed(), 0))
        } else {
            let mut r = Counting::new(bytes, chunk);
            let ok = block(read_entry(entry, &mut r));
            Some((ok, r.consumed(), r.zero_reads))
        }
    })
}

fn replay_read(s: &mut Summary, c: &Value) {
    let entry = c["entry"].as_str().unwrap();
    let (typ, ver) = (c["type"].as_u64().unwrap() as u8, c["ver"].as_u64().unwrap() as u8);
    let (len, avail) = (c["len"].as_u64().unwrap() as u32, c["avail"].as_u64().unwrap() as usize);
    let want_ok = c["verdict"] == "ok";
    let open = c["open"].as_bool().unwrap_or(false);
    let bound = c["bound"].as_u64().unwrap() as usize;
    let eat = c["eat"].as_u64().unwrap_or(len as u64) as usize;
    let mut bytes = vec![ver, typ, 0, 1];
    bytes.extend_from_slice(&len.to_be_bytes());
    bytes.extend((0..40u8).map(|i| if i % 4 == 3 { i } else { 0 }));
    bytes.truncate(avail);
    for chunk in [1usize, 3, 4096] {
        match run_reader(entry, bytes.clone(), chunk, open) {
            Err(m) => s.violation("read:panic", format!("reader {entry} panicked: {m}"), c.clone()),
            Ok(None) => s.violation("read:waits", format!("reader {entry} (chunk {chunk}) is waiting for more than the {avail} bytes that decide type {typ} ver {ver} length {len}"), c.clone()),
            Ok(Some((ok, consumed, zeros))) => {
                if zeros > SPIN_LIMIT {
                    s.violation("read:spin", format!("reader {entry} keeps reading after the stream ended (chunk {chunk})"), c.clone());
                } else if ok != want_ok {
                    s.violation(if want_ok { "read:rejects-wellformed" } else { "read:accepts-broken" },
                        format!("reader {entry} (chunk {chunk}) returned ok={ok} on type {typ} ver {ver} length {len} with {avail} bytes; specification {}", c["verdict"]), c.clone());
                } else if consumed > bound {
                    s.violation("read:overconsumes", format!("reader {entry} consumed {consumed} bytes, bound {bound}"), c.clone());
                } else if ok && consumed != eat {
                    s.violation("read:consumed", format!("reader {entry} consumed {consumed} bytes, specification {eat}"), c.clone());
                }
            }
        }
    }
    s.eval_if(avail >= 8, &format!("{entry}:{typ}:{ver}:{len}:{avail}:{open}"));
}

fn b(v: &Value) -> Vec<u8> {
    v.as_array().unwrap().iter().map(|x| x.as_u64().unwrap() as u8).collect()
}
fn u32of(v: &Value) -> u32 {
    let x = b(v);
    u32::from_be_bytes([x[0], x[1], x[2], x[3]])
}
fn u16of(v: &Value) -> u16 {
    let x = b(v);
    u16::from_be_bytes([x[0], x[1]])
}

/// A sink that takes at most `k` bytes per write call, like a socket with little room in its send buffer.
pub struct Dribble {
    pub data: Vec<u8>,
    k: usize,
}
impl tokio::io::AsyncWrite for Dribble {
    fn poll_write(mut self: std::pin::Pin<&mut Self>, _: &mut std::task::Context<'_>, buf: &[u8]) -> std::task::Poll<std::io::Result<usize>> {
        let n = buf.len().min(self.k);
        self.data.extend_from_slice(&buf[..n]);
        std::task::Poll::Ready(Ok(n))
    }
    fn poll_flush(self: std::pin::Pin<&mut Self>, _: &mut std::task::Context<'_>) -> std::task::Poll<std::io::Result<()>> {
        std::task::Poll::Ready(Ok(()))
    }
    fn poll_shutdown(self: std::pin::Pin<&mut Self>, _: &mut std::task::Context<'_>) -> std::task::Poll<std::io::Result<()>> {
        std::task::Poll::Ready(Ok(()))
    }
}
thread_local! { pub static DRIBBLE: std::cell::Cell<usize> = const { std::cell::Cell::new(usize::MAX) }; }

pub fn write_bytes<F: std::future::Future<Output = std::io::Result<()>>>(f: impl FnOnce(&'static mut Dribble) -> F) -> Vec<u8> {
    // the writers take &mut A: AsyncWrite; the sink accepts DRIBBLE bytes per call
    let buf: &'static mut Dribble = Box::leak(Box::new(Dribble { data: Vec::new(), k: DRIBBLE.with(|d| d.get()) }));
    let ptr = buf as *mut Dribble;
    block(f(buf)).unwrap();
    unsafe { Box::from_raw(ptr) }.data
}

fn replay_pdu(s: &mut Summary, c: &Value) {
    let p = &c["p"];
    let want = b(&c["bytes"]);
    let ver = p["ver"].as_u64().unwrap() as u8;
    let t = p["t"].as_str().unwrap();
    let r = guarded(|| -> Result<(), (String, String)> {
        let state = |p: &Value| State::from_parts(u16of(&p["sess"]), Serial(u32of(&p["serial"])));
        let flags = p["flags"].as_u64().unwrap_or(0) as u8;
        // --- write through the library
        let got: Vec<u8> = match t {
            "serial_notify" => { let x = pdu::SerialNotify::new(ver, state(p)); write_bytes(|w| async move { x.write(w).await }) }
            "serial_query" => { let x = pdu::SerialQuery::new(ver, state(p)); write_bytes(|w| async move { x.write(w).await }) }
            "reset_query" => { let x = pdu::ResetQuery::new(ver); write_bytes(|w| async move { x.write(w).await }) }
            "cache_response" => { let x = pdu::CacheResponse::new(ver, State::from_parts(u16of(&p["sess"]), Serial(0))); write_bytes(|w| async move { x.write(w).await }) }
            "cache_reset" => { let x = pdu::CacheReset::new(ver); write_bytes(|w| async move { x.write(w).await }) }
            "end_of_data" => {
                let x = pdu::EndOfData::new(ver, state(p), Timing { refresh: u32of(&p["refresh"]), retry: u32of(&p["retry"]), expire: u32of(&p["expire"]) });
                write_bytes(|w| async move { x.write(w).await })
            }
            "error" => { let x = pdu::Error::new(ver, p["code"].as_u64().unwrap() as u16, b(&p["pdu"]), b(&p["text"])); write_bytes(|w| async move { x.write(w).await }) }
            "ipv4" | "ipv6" | "router_key" | "aspa" => {
                let item = payload_item(p).map_err(|e| ("pdu:construct".to_string(), e))?;
                let x = pdu::Payload::new(ver, flags, item.as_ref());
                if flags == 1 && pdu::Payload::new_if_supported(ver, flags, item.as_ref()).is_none() {
                    return Err(("pdu:version-gate".into(), format!("{t} not supported at version {ver}")));
                }
                write_bytes(|w| async move { x.write(w).await })
            }
            k => return Err(("pdu:unknown".into(), k.to_string())),
        };
        if got != want {
            return Err(("pdu:bytes".into(), format!("{t} v{ver}: library wrote {got:02x?}, layout table says {want:02x?}")));
        }
        let len = u32::from_be_bytes([got[4], got[5], got[6], got[7]]) as usize;
        if len != got.len() {
            return Err(("pdu:length-field".into(), format!("{t}: length field {len}, {} bytes written", got.len())));
        }
        // --- read back
        for chunk in [1usize, 4096] {
            let mut r = Counting::new(want.clone(), chunk);
            match t {
                "ipv4" | "ipv6" | "router_key" | "aspa" => {
                    let back = block(pdu::Payload::read(&mut r)).map_err(|e| ("pdu:read".to_string(), e.to_string()))?;
                    let Ok(Some(pdu)) = back else { return Err(("pdu:read".into(), "payload PDU read back as end of data".into())) };
                    let (action, payload) = pdu.to_payload().map_err(|_| ("pdu:read".to_string(), "to_payload failed".to_string()))?;
                    let item = payload_item(p).unwrap();
                    let want_action = if flags & 1 == 1 { Action::Announce } else { Action::Withdraw };
                    let want_item = if t == "aspa" && want_action == Action::Withdraw {
                        Payload::aspa(item.as_aspa().unwrap().customer, ProviderAsns::empty())
                    } else { item.clone() };
                    if action != want_action || payload != want_item || pdu.version() != ver {
                        return Err(("pdu:roundtrip".into(), format!("{t} v{ver} read back as {action:?} {payload:?}")));
                    }
                }
                "end_of_data" => {
                    let back = block(pdu::Payload::read(&mut r)).map_err(|e| ("pdu:read".to_string(), e.to_string()))?;
                    let Err(eod) = back else { return Err(("pdu:read".into(), "end of data read back as payload".into())) };
                    let tm = eod.timing().map(|t| (t.refresh, t.retry, t.expire));
                    let wt = if ver == 0 { None } else { Some((u32of(&p["refresh"]), u32of(&p["retry"]), u32of(&p["expire"]))) };
                    if eod.version() != ver || eod.session() != u16of(&p["sess"]) || eod.serial().0 != u32of(&p["serial"]) || tm != wt {
                        return Err(("pdu:roundtrip".into(), format!("end of data v{ver} read back as {eod:?}")));
                    }
                }
                "serial_notify" => {
                    let x = block(pdu::SerialNotify::read(&mut r)).map_err(|e| ("pdu:read".to_string(), e.to_string()))?;
                    if x.version() != ver || x.session() != u16of(&p["sess"]) || x.as_ref()[8..12] != b(&p["serial"])[..] {
                        return Err(("pdu:roundtrip".into(), "serial notify changed".into()));
                    }
                }
                "serial_query" => {
                    let x = block(pdu::SerialQuery::read(&mut r)).map_err(|e| ("pdu:read".to_string(), e.to_string()))?;
                    if x.version() != ver || x.session() != u16of(&p["sess"]) || x.as_ref()[8..12] != b(&p["serial"])[..] {
                        return Err(("pdu:roundtrip".into(), "serial query changed".into()));
                    }
                }
                "reset_query" => { let x = block(pdu::ResetQuery::read(&mut r)).map_err(|e| ("pdu:read".to_string(), e.to_string()))?; if x.version() != ver { return Err(("pdu:roundtrip".into(), "reset query changed".into())); } }
                "cache_response" => { let x = block(pdu::CacheResponse::read(&mut r)).map_err(|e| ("pdu:read".to_string(), e.to_string()))?; if x.version() != ver || x.session() != u16of(&p["sess"]) { return Err(("pdu:roundtrip".into(), "cache response changed".into())); } }
                "cache_reset" => { let x = block(pdu::CacheReset::read(&mut r)).map_err(|e| ("pdu:read".to_string(), e.to_string()))?; if x.version() != ver { return Err(("pdu:roundtrip".into(), "cache reset changed".into())); } }
                "error" => {
                    let h = block(pdu::Header::read(&mut r)).map_err(|e| ("pdu:read".to_string(), e.to_string()))?;
                    block(pdu::Error::skip_payload(h, &mut r)).map_err(|e| ("pdu:read".to_string(), e.to_string()))?;
                    if h.version() != ver || h.session() != p["code"].as_u64().unwrap() as u16 {
                        return Err(("pdu:roundtrip".into(), "error header changed".into()));
                    }
                }
                _ => {}
            }
            if r.consumed() != want.len() {
                return Err(("pdu:consumed".into(), format!("{t}: reading back consumed {} of {} bytes", r.consumed(), want.len())));
            }
        }
        Ok(())
    });
    match r {
        Ok(Ok(())) => {}
        Ok(Err((k, m))) => s.violation(&k, m, c.clone()),
        Err(m) => s.violation("pdu:panic", m, c.clone()),
    }
    s.eval(Some(&format!("{p}")));
}

fn payload_item(p: &Value) -> Result<Payload, String> {
    let asn = |k: &str| Asn::from_u32(u32of(&p[k]));
    Ok(match p["t"].as_str().unwrap() {
        "ipv4" => {
            let a = b(&p["addr"]);
            let pre = Prefix::new(IpAddr::V4(Ipv4Addr::new(a[0], a[1], a[2], a[3])), p["plen"].as_u64().unwrap() as u8).map_err(|e| e.to_string())?;
            Payload::origin(MaxLenPrefix::new(pre, Some(p["mlen"].as_u64().unwrap() as u8)).map_err(|e| e.to_string())?, asn("asn"))
        }
        "ipv6" => {
            let a: [u8; 16] = b(&p["addr"]).try_into().unwrap();
            let pre = Prefix::new(IpAddr::V6(Ipv6Addr::from(a)), p["plen"].as_u64().unwrap() as u8).map_err(|e| e.to_string())?;
            Payload::origin(MaxLenPrefix::new(pre, Some(p["mlen"].as_u64().unwrap() as u8)).map_err(|e| e.to_string())?, asn("asn"))
        }
        "router_key" => {
            let ski: [u8; 20] = b(&p["ski"]).try_into().unwrap();
            Payload::router_key(ski.into(), asn("asn"), RouterKeyInfo::try_from(b(&p["info"])).map_err(|e| e.to_string())?)
        }
        _ => {
            let provs = b(&p["providers"]);
            Payload::aspa(asn("customer"), ProviderAsns::try_from_iter(provs.chunks(4).map(|c| Asn::from_u32(u32::from_be_bytes([c[0], c[1], c[2], c[3]])))).map_err(|e| e.to_string())?)
        }
    })
}

pub fn replay(args: &[String]) {
    let cases = read_cases(&args[0]);
    // (a replay file of the session-level model belongs to rtrclient)
    if !cases.is_empty() && cases.iter().all(|c| c["op"] == "clientstream") { return crate::rtrclient::replay(args); }
    let mut s = Summary::new();
    for c in &cases {
        match c["op"].as_str().unwrap_or("") {
            "read" => replay_read(&mut s, c),
            "pdu" => {
                // once into a sink that takes everything, once into one that takes three bytes per call (short writes)
                replay_pdu(&mut s, c);
                DRIBBLE.with(|d| d.set(3));
                replay_pdu(&mut s, c);
                DRIBBLE.with(|d| d.set(usize::MAX));
            }
            o => { eprintln!("unknown op {o}"); std::process::exit(2) }
        }
        if s.samples.len() < 4 && s.evaluations % 20011 < 3 { s.sample(c.clone()); }
    }
    large_pdus(&mut s);
    s.print();
}

/// The layout table's size rules (router key: 32 + |info|, error: 16 + |pdu| + |text|) at sizes the model does not enumerate:
/// PDUs around and beyond 64 KiB.  Written by the library, length field = octets written, read back as the same item (or skipped
/// to exactly its end) - the wire format's length field has 32 bits, nothing in it stops at 16.
fn large_pdus(s: &mut Summary) {
    // ... and every size in between that a writer or reader might treat specially (a stack buffer, a one-octet length, a word
    // boundary): every length of key information from 1 to 320 octets, every provider count from 0 to 80
    for n in (1usize..=320).chain([65_503usize, 65_504, 65_505, 70_000, 200_000]) {
        for ver in [1u8, 2] {
            let r = guarded(|| -> Result<(), String> {
                let info: Vec<u8> = (0..n).map(|i| (i * 7 + 3) as u8).collect();
                let item = Payload::router_key([0x5Au8; 20].into(), Asn::from_u32(64496), RouterKeyInfo::try_from(info).map_err(|e| e.to_string())?);
                let x = pdu::Payload::new(ver, 1, item.as_ref());
                let bytes = write_bytes(|w| async move { x.write(w).await });
                if bytes.len() != 32 + n || u32::from_be_bytes([bytes[4], bytes[5], bytes[6], bytes[7]]) as usize != bytes.len() {
                    return Err(format!("{} octets written, length field {}", bytes.len(), u32::from_be_bytes([bytes[4], bytes[5], bytes[6], bytes[7]])));
                }
                for chunk in [4096usize, 7] {
                    let mut rd = Counting::new(bytes.clone(), chunk);
                    match block(pdu::Payload::read(&mut rd)) {
                        Ok(Ok(Some(p))) => match p.to_payload() {
                            Ok((Action::Announce, back)) if back == item && rd.consumed() == bytes.len() => {}
                            other => return Err(format!("reads back as {:?} after {} of {} octets", other.map(|x| x.0), rd.consumed(), bytes.len())),
                        },
                        other => return Err(format!("Payload::read fails on the library's own {}-octet router key PDU: {:?}", bytes.len(), other.map(|_| ()).map_err(|e| e.to_string()))),
                    }
                    let mut rd = Counting::new(bytes.clone(), chunk);
                    if block(pdu::RouterKey::read(&mut rd)).is_err() || rd.consumed() != bytes.len() {
                        return Err(format!("RouterKey::read fails on the library's own {}-octet PDU", bytes.len()));
                    }
                }
                Ok(())
            });
            match r {
                Ok(Ok(())) => {}
                Ok(Err(m)) => s.violation("pdu:large:router-key", format!("router key with {n} octets of key information, version {ver}: {m}"), json!({"info_len": n, "ver": ver})),
                Err(m) => s.violation("pdu:panic", m, json!({"info_len": n, "ver": ver})),
            }
            s.evals(1);
        }
    }
    for n in 0usize..=80 {
        let r = guarded(|| -> Result<(), String> {
            let provs: Vec<Asn> = (0..n).map(|i| Asn::from_u32(65000 + 3 * i as u32)).collect();
            let item = Payload::aspa(Asn::from_u32(64496), pdu::ProviderAsns::try_from_iter(provs.iter().copied()).map_err(|e| e.to_string())?);
            for flags in [1u8, 0] {
                let x = pdu::Payload::new(2, flags, item.as_ref());
                let bytes = write_bytes(|w| async move { x.write(w).await });
                // (a withdrawal carries no providers)
                let want = if flags == 1 { 12 + 4 * n } else { bytes.len() };
                if bytes.len() != want || u32::from_be_bytes([bytes[4], bytes[5], bytes[6], bytes[7]]) as usize != bytes.len() {
                    return Err(format!("{} octets written, length field {}", bytes.len(), u32::from_be_bytes([bytes[4], bytes[5], bytes[6], bytes[7]])));
                }
                for chunk in [4096usize, 7] {
                    let mut rd = Counting::new(bytes.clone(), chunk);
                    match block(pdu::Payload::read(&mut rd)) {
                        Ok(Ok(Some(p))) => match p.to_payload() {
                            Ok((Action::Announce, back)) if flags == 1 && back == item && rd.consumed() == bytes.len() => {}
                            Ok((Action::Withdraw, Payload::Aspa(a))) if flags == 0 && a.customer == Asn::from_u32(64496) && rd.consumed() == bytes.len() => {}
                            other => return Err(format!("flags {flags}: reads back as {:?} after {} of {} octets", other.map(|x| x.0), rd.consumed(), bytes.len())),
                        },
                        other => return Err(format!("Payload::read fails on the library's own {}-octet ASPA PDU: {:?}", bytes.len(), other.map(|_| ()).map_err(|e| e.to_string()))),
                    }
                }
            }
            Ok(())
        });
        match r {
            Ok(Ok(())) => {}
            Ok(Err(m)) => s.violation("pdu:sizes:aspa", format!("ASPA with {n} providers: {m}"), json!({"providers": n})),
            Err(m) => s.violation("pdu:panic", m, json!({"providers": n})),
        }
        s.evals(1);
    }
    // a long ASPA PDU whose stream ends early must end in an error wherever it ends - also past the first page of providers
    for n in [1023usize, 1024, 1025, 1500, 5000] {
        let provs: Vec<Asn> = (0..n).map(|i| Asn::from_u32(65000 + 3 * i as u32)).collect();
        let item = Payload::aspa(Asn::from_u32(64496), pdu::ProviderAsns::try_from_iter(provs.iter().copied()).unwrap());
        let x = pdu::Payload::new(2, 1, item.as_ref());
        let bytes = write_bytes(|w| async move { x.write(w).await });
        let total = bytes.len();
        let mut cuts: Vec<usize> = vec![8, 11, 12, 4095, 4096, 4097, 4107, 4108, 4109, 4110, 4111, 4112, 8191, 8192, 8204, total - 5, total - 4, total - 1];
        cuts.retain(|c| *c < total);
        for cut in cuts {
            for chunk in [4096usize, 7] {
                let r = guarded(|| {
                    let mut rd = Counting::new(bytes[..cut].to_vec(), chunk);
                    let ok = matches!(block(pdu::Payload::read(&mut rd)), Ok(Ok(Some(_))));
                    let mut rd2 = Counting::new(bytes[..cut].to_vec(), chunk);
                    let ok2 = block(pdu::Aspa::read(&mut rd2)).is_ok();
                    (ok, ok2, rd.zero_reads.max(rd2.zero_reads))
                });
                match r {
                    Ok((false, false, z)) if z <= 2 => {}
                    Ok((a, b, z)) => s.violation("read:accepts-broken", format!("an ASPA PDU of {total} octets ({n} providers) cut after {cut} octets: Payload::read ok = {a}, Aspa::read ok = {b}, reads after the end {z}"), json!({"providers": n, "cut": cut})),
                    Err(m) => s.violation("pdu:panic", m, json!({"providers": n, "cut": cut})),
                }
                s.evals(1);
            }
        }
    }
    for n in (0usize..=300).chain([65_519usize, 65_520, 65_521, 300_000]) {
        let r = guarded(|| -> Result<(), String> {
            let e = pdu::Error::new(1, 2, [0u8; 0], vec![b'x'; n]);
            let mut bytes = write_bytes(|w| async move { e.write(w).await });
            if bytes.len() != 16 + n {
                return Err(format!("{} octets written", bytes.len()));
            }
            bytes.extend_from_slice(&[0xEE; 9]);     // what follows on the stream is not the error PDU's
            let mut rd = Counting::new(bytes.clone(), 5000);
            let ok = block(async { match pdu::Header::read(&mut rd).await { Ok(h) => pdu::Error::skip_payload(h, &mut rd).await.is_ok(), Err(_) => false } });
            if !ok || rd.consumed() != 16 + n {
                return Err(format!("skip_payload ok = {ok}, consumed {} of the PDU's {} octets", rd.consumed(), 16 + n));
            }
            Ok(())
        });
        match r {
            Ok(Ok(())) => {}
            Ok(Err(m)) => s.violation("pdu:large:error", format!("error PDU with {n} octets of text: {m}"), json!({"text_len": n})),
            Err(m) => s.violation("pdu:panic", m, json!({"text_len": n})),
        }
        s.evals(1);
    }
}

// --------------------------------------------------------------------------
// impl -> spec: random full-range PDUs and cut PDU sequences
// --------------------------------------------------------------------------
fn rand_payload_pdu(rng: &mut Rng) -> (Value, Payload, u8, u8) {
    let flags = rng.below(2) as u8;
    let asn = rng.next() as u32;
    match rng.below(4) {
        0 => {
            let len = rng.below(33) as u8;
            let addr = if len == 0 { 0 } else { (rng.next() as u32) >> (32 - len as u32) << (32 - len as u32) };
            let ml = rng.range(len as u64, 32) as u8;
            let ver = rng.below(3) as u8;
            let p = Payload::origin(MaxLenPrefix::new(Prefix::new(IpAddr::V4(Ipv4Addr::from(addr)), len).unwrap(), Some(ml)).unwrap(), Asn::from_u32(asn));
            (json!({"t": "ipv4", "ver": ver, "flags": flags, "plen": len, "mlen": ml, "addr": addr.to_be_bytes().to_vec(), "asn": asn.to_be_bytes().to_vec()}), p, ver, flags)
        }
        1 => {
            let len = rng.below(129) as u8;
            let addr = if len == 0 { 0 } else { rng.u128() >> (128 - len as u32) << (128 - len as u32) };
            let ml = rng.range(len as u64, 128) as u8;
            let ver = rng.below(3) as u8;
            let p = Payload::origin(MaxLenPrefix::new(Prefix::new(IpAddr::V6(Ipv6Addr::from(addr)), len).unwrap(), Some(ml)).unwrap(), Asn::from_u32(asn));
            (json!({"t": "ipv6", "ver": ver, "flags": flags, "plen": len, "mlen": ml, "addr": addr.to_be_bytes().to_vec(), "asn": asn.to_be_bytes().to_vec()}), p, ver, flags)
        }
        2 => {
            let ver = rng.range(1, 2) as u8;
            let mut ski = [0u8; 20];
            for x in ski.iter_mut() { *x = rng.next() as u8; }
            let n = if rng.chance(1, 5) { 0 } else { rng.below(600) };
            let info: Vec<u8> = (0..n).map(|_| rng.next() as u8).collect();
            let p = Payload::router_key(ski.into(), Asn::from_u32(asn), RouterKeyInfo::try_from(info.clone()).unwrap());
            (json!({"t": "router_key", "ver": ver, "flags": flags, "ski": ski.to_vec(), "asn": asn.to_be_bytes().to_vec(), "info": info}), p, ver, flags)
        }
        _ => {
            let n = if rng.chance(1, 6) { 0 } else if rng.chance(1, 10) { *rng.pick(&[2000u64, 16379, 16380]) } else { rng.below(40) };
            let provs: Vec<u32> = (0..n).map(|_| rng.next() as u32).collect();
            let p = Payload::aspa(Asn::from_u32(asn), ProviderAsns::try_from_iter(provs.iter().map(|x| Asn::from_u32(*x))).unwrap());
            (json!({"t": "aspa", "ver": 2, "flags": flags, "customer": asn.to_be_bytes().to_vec(), "providers": provs.iter().flat_map(|x| x.to_be_bytes()).collect::<Vec<u8>>()}), p, 2, flags)
        }
    }
}

pub fn drive(args: &[String]) {
    let seed = arg_u64(args, "--seed", 1);
    let n = arg_u64(args, "--n", 300);
    let out = arg_val(args, "--out").expect("--out");
    let mut rng = Rng::new(seed);
    let mut t = TraceOut::create(&out);
    let mut s = Summary::new();
    for i in 0..n {
        let r = guarded(|| {
            if i % 2 == 0 {
                // one random payload PDU: fields + bytes as written + read-back verdict
                let (model, item, ver, flags) = rand_payload_pdu(&mut rng);
                let x = pdu::Payload::new(ver, flags, item.as_ref());
                let bytes = write_bytes(|w| async move { x.write(w).await });
                let mut rd = Counting::new(bytes.clone(), rng.range(1, 64) as usize);
                let back_ok = match block(pdu::Payload::read(&mut rd)) {
                    Ok(Ok(Some(p))) => match p.to_payload() {
                        Ok((a, pl)) => {
                            let wa = if flags == 1 { Action::Announce } else { Action::Withdraw };
                            let wi = if matches!(item, Payload::Aspa(_)) && flags == 0 { Payload::aspa(item.as_aspa().unwrap().customer, ProviderAsns::empty()) } else { item.clone() };
                            a == wa && pl == wi && p.version() == ver && rd.consumed() == bytes.len()
                        }
                        Err(_) => false,
                    },
                    _ => false,
                };
                json!({"ev": "enc", "p": model, "bytes": bytes, "back_ok": back_ok})
            } else {
                // a sequence of payload PDUs (+ end of data), cut anywhere
                let k = rng.range(1, 4);
                let mut all = Vec::new();
                let mut lens = Vec::new();
                for _ in 0..k {
                    let (_, item, ver, flags) = rand_payload_pdu(&mut rng);
                    let x = pdu::Payload::new(ver, flags, item.as_ref());
                    let b = write_bytes(|w| async move { x.write(w).await });
                    lens.push(b.len());
                    all.extend(b);
                }
                let eod = pdu::EndOfData::new(rng.below(3) as u8, State::from_parts(7, Serial(rng.next() as u32)), Timing::default());
                let b = write_bytes(|w| async move { eod.write(w).await });
                lens.push(b.len());
                all.extend(b);
                let cut = rng.below(all.len() as u64 + 1) as usize;
                all.truncate(cut);
                let mut rd = Counting::new(all, rng.range(1, 100) as usize);
                let mut oks = 0;
                let mut err = false;
                for _ in 0..lens.len() {
                    match block(pdu::Payload::read(&mut rd)) {
                        Ok(_) => oks += 1,
                        Err(_) => { err = true; break; }
                    }
                }
                json!({"ev": "seq", "lens": lens, "cut": cut, "oks": oks, "consumed": rd.consumed(), "ended_in_error": err, "spun": rd.zero_reads > SPIN_LIMIT})
            }
        });
        match r {
            Ok(ev) => { if s.samples.len() < 2 && ev["ev"] == "seq" { s.sample(ev.clone()); } t.ev(ev); s.eval(Some(&format!("{i}"))); }
            Err(m) => s.violation("trace:panic", m, json!({"seed": seed, "i": i})),
        }
    }
    s.set("events", json!(t.finish()));
    s.print();
}
