"""C14 — manifest entries cannot name anything outside the publication point (spec/Manifest.tla)."""
import os
import vlib
from vlib import Check, tlc, tlc_must_hold, vh, workdir, write_ndjson, cfg_with

PROP = "C14"


def run(tier, seed):
    c = Check(PROP, tier, seed, "model_checking")
    wd = workdir(PROP)
    quick = tier == "quick"
    workers = 6 if quick else 14
    cases = []
    r = tlc("MC_ManifestNames", cfg_with(wd, "MC_ManifestNames.cfg", "names.cfg", [("MaxLen = 6", "MaxLen = 6" if quick else "MaxLen = 7")]),
            workers=workers, xmx="10g", timeout=5400)
    tlc_must_hold(r, "ManifestNames")
    vlib.require_coverage(r, ["AppendChar"], "ManifestNames")
    c.add_tlc(r, "every name over {a,Z,1,-,_,.,/,space} up to length 6/7: GrammarLaw (validate_file_name = RFC 9286 grammar) InsideLaw")
    cases += r.replay
    r = tlc("MC_ManifestList", "MC_ManifestList.cfg", workers=workers, xmx="8g", timeout=3000)
    tlc_must_hold(r, "ManifestList")
    vlib.require_coverage(r, ["AddEntry"], "ManifestList")
    c.add_tlc(r, "manifests of 0-3 entries over 7 names x 4 hash-length classes x 9 time orders: SafeLaw")
    cases += r.replay
    path = write_ndjson(os.path.join(wd, "cases.ndjson"), cases)
    s = vh(["replay", "manifest", path], timeout=3000)
    if s.get("accepted", 0) < 100:
        raise vlib.ToolError("vacuous: (almost) no manifest decoded")
    c.add_harness(s, "every case as ManifestContent DER from the harness' encoder: decode (one-directional), len = iterator count, "
                     "iter_uris under 3 bases stays directly inside the base, hash verifies iff equal to SHA-256")

    def corrupt(cs):
        for x in cs:
            if x["op"] == "name" and x["ok"]:
                y = dict(x)
                y["ok"] = False
                return y
    vlib.selfcheck_replay(c, "manifest", cases, corrupt, "name.ok")

    def mut(items):
        for k, it in enumerate(items):
            if it["ok"] and it["names"]:
                it["names"][0] = it["names"][0][:-1] + ["1"]
                return k + 1
        return 0
    seeds = [seed * 1000 + i for i in range(2 if quick else 30)]
    vlib.trace_rounds(c, "Trace_Manifest", "manifest", seeds, 1500 if quick else 15000, mut)
    c.cov["rule"] = ("cases = every name string of the push machine (single-entry manifest, two renderings) and every manifest of the list "
                     "model; acceptance compared one-directionally (decoded => valid); non-trivial = name of >= 4 characters / >= 1 entry; "
                     "traces = random manifests with long and odd names")
    c.cov["exhaustive"] = True
    c.assumptions += ["ManifestContent is decoded directly (ManifestContent::take_from is public); the signed wrapper is covered by C02",
                      "rejecting a valid name is not reported here (the statement is about decoded manifests)"]
    return c.finish()


replay = vlib.generic_replay(PROP, "manifest")
