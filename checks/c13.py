"""C13 — prefixes, max-length prefixes, route origins and AS-number sets (spec/PrefixLaws.tla, AsnSet.tla)."""
import os
import vlib
from vlib import Check, tlc, tlc_must_hold, vh, workdir, write_ndjson, cfg_with

PROP = "C13"


def run(tier, seed):
    c = Check(PROP, tier, seed, "model_checking")
    wd = workdir(PROP)
    quick = tier == "quick"
    workers = 4 if quick else 12
    cases = []
    w = ("W4 = 2 W6 = 3", "W4 = 2 W6 = 3" if quick else "W4 = 3 W6 = 4")
    r = tlc("MC_PrefixPairs", cfg_with(wd, "MC_PrefixPairs.cfg", "pairs.cfg", [w]), workers=workers, xmx="8g", timeout=3000)
    tlc_must_hold(r, "PrefixPairs")
    vlib.require_coverage(r, ["SetAsn", "SetM"], "PrefixPairs")
    c.add_tlc(r, f"all pairs ({w[1]}): CoversLaw CmpEqLaw CmpAntisym SpecificFirst MLEqLaw MLAntisym OrigEqLaw OrigAntisym")
    cases += r.replay
    r = tlc("MC_PrefixTriples", cfg_with(wd, "MC_PrefixTriples.cfg", "triples.cfg", [("W4 = 2 W6 = 3", "W4 = 2 W6 = 3" if quick else "W4 = 2 W6 = 4")]),
            workers=workers, xmx="8g", timeout=3000)
    tlc_must_hold(r, "PrefixTriples")
    c.add_tlc(r, "all triples: TransP TransML TransO TransCovers")
    r = tlc("MC_PrefixCtor", cfg_with(wd, "MC_PrefixCtor.cfg", "ctor.cfg", [("W4 = 2 W6 = 3", "W4 = 2 W6 = 3" if quick else "W4 = 3 W6 = 5")]),
            workers=workers, xmx="4g", timeout=1200)
    tlc_must_hold(r, "PrefixCtor")
    c.add_tlc(r, "constructor guard table: RelaxedLaw")
    cases += r.replay
    r = tlc("AsnSet", cfg_with(wd, "AsnSet.cfg", "asnset.cfg", [("MaxItems = 3", "MaxItems = 3" if quick else "MaxItems = 4")]),
            workers=workers, xmx="8g", timeout=3000)
    tlc_must_hold(r, "AsnSet")
    vlib.require_coverage(r, ["PushX", "PushY"], "AsnSet")
    c.add_tlc(r, "all pairs of multisets: SetLaw DiffLaw SymLaw InterLaw UnionLaw")
    cases += r.replay
    path = write_ndjson(os.path.join(wd, "cases.ndjson"), cases)
    s = vh(["replay", "prefixlaws", path], timeout=3000)
    c.add_harness(s, "every TLC case in 4 windows (top, bottom x2, middle) of the 32/128-bit spaces")

    def corrupt(cs):
        for x in cs:
            if x["op"] == "pair" and x["cmp"] == "lt":
                y = dict(x)
                y["cmp"] = "gt"
                return y
    vlib.selfcheck_replay(c, "prefixlaws", cases, corrupt, "pair.cmp")

    def mut(items):
        for k, it in enumerate(items):
            if it["ev"] == "pair" and it["cmp"] == "lt":
                it["cmp"] = "gt"
                return k + 1
        return 0
    seeds = [seed * 1000 + i for i in range(2 if quick else 30)]
    vlib.trace_rounds(c, "Trace_PrefixLaws", "prefixlaws", seeds, 3000 if quick else 20000, mut)

    c.cov["rule"] = ("cases = every pair of (max-length) prefixes x ASN pair, every constructor argument tuple, every pair of ASN multisets "
                     "of the bounded models, each replayed in 4 windows of the real address spaces; non-trivial = the two values differ")
    c.cov["exhaustive"] = True
    c.assumptions += ["window embeddings preserve covers/order/equality (DESIGN 2.3)"]
    return c.finish()


replay = vlib.generic_replay(PROP, "prefixlaws")
