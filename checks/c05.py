"""C05 — built objects decode back to themselves and look the same either way (spec/BuildDecode.tla, spec/TbsBuilder.tla)."""
import os
import vlib
from vlib import Check, tlc, tlc_must_hold, vh, workdir, write_ndjson, cfg_with

PROP = "C05"


def run(tier, seed):
    c = Check(PROP, tier, seed, "model_checking")
    wd = workdir(PROP)
    quick = tier == "quick"
    workers = 4 if quick else 12
    cases = []
    r = tlc("MC_BuildDecode", "MC_BuildDecode.cfg", workers=workers, xmx="4g", timeout=1200)
    tlc_must_hold(r, "BuildDecode")
    vlib.require_coverage(r, ["AddItem"], "BuildDecode")
    c.add_tlc(r, "builder-input machine: 9 object kinds x serial forms x 5 validity windows (both UTCTime/GeneralizedTime boundaries) x "
                 "resource shapes x URI forms x every sequence of <= 3 list items out of 4 (any order, duplicates included); LayoutDiscipline, TimesRoundTrip, SerialsMinimal")
    cases += r.replay
    r = tlc("MC_TbsBuilder", cfg_with(wd, "MC_TbsBuilder.cfg", "tb.cfg", [("MaxSteps = 2", "MaxSteps = 2" if quick else "MaxSteps = 3")]),
            workers=workers, xmx="12g", timeout=5400)
    tlc_must_hold(r, "TbsBuilder")
    vlib.require_coverage(r, ["Set"], "TbsBuilder")
    c.add_tlc(r, "certificate builder state machine: every setter script of length <= 2 (quick) / 3 (thorough) from 8 TbsCert::new "
                 "states over 18 fields; SkiTracksKey, OneField")
    cases += r.replay
    r = tlc("MC_SobBuilder", cfg_with(wd, "MC_SobBuilder.cfg", "sob.cfg", [("MaxSteps = 2", "MaxSteps = 2" if quick else "MaxSteps = 3")]),
            workers=workers, xmx="8g", timeout=3000)
    tlc_must_hold(r, "SobBuilder")
    vlib.require_coverage(r, ["Set"], "SobBuilder")
    c.add_tlc(r, "signed-object builder state machine: every setter script of length <= 2/3 over 11 fields; the derived EE certificate "
                 "(issuer/subject defaults, AKI, SKI = signer id, URIs, resources, signing time); SidIsSki, OneField")
    cases += r.replay
    path = write_ndjson(os.path.join(wd, "cases.ndjson"), cases)
    s = vh(["replay", "builddecode", path], timeout=5400)
    c.add_harness(s, "every case through the real builders with real RSA keys: build -> DER -> decode -> validate -> re-encode (bytes "
                     "equal) -> every accessor of the built object and of its decoded twin compared; time tags/characters and the "
                     "serial INTEGER compared with the forms computed in the specification; setter scripts compared field by field "
                     "with the model's record on the builder, the built and the decoded certificate")

    def corrupt(cs):
        for x in cs:
            if x["op"] == "steps" and x["expect"]["ski"] == "k1" and any(st["field"] == "key" for st in x["script"]):
                y = dict(x)
                y["expect"] = dict(x["expect"], ski="e0")
                return y
    vlib.selfcheck_replay(c, "builddecode", cases, corrupt, "steps.expect.ski")

    def corrupt2(cs):
        for x in cs:
            if x["op"] == "build" and x["kind"] == "cert_ee" and x["times"] == "cross2050":
                y = dict(x)
                y["tag_na"] = "utc"
                return y
    vlib.selfcheck_replay(c, "builddecode", cases, corrupt2, "build.tag_na")
    c.cov["rule"] = ("cases = every state of the builder-input machine and every buildable state of the setter machine; an evaluation = one "
                     "object built, encoded, decoded, validated, re-encoded and compared accessor by accessor; non-trivial = all of them "
                     "(each builds and signs a real object)")
    c.cov["exhaustive"] = True
    c.assumptions += ["inputs are drawn from value classes (serial forms, validity windows around the 1950/2050 boundaries, resource shapes, "
                      "list permutations of <= 3 items); values inside a class are fixed representatives",
                      "ROA/ASPA with an empty list are builder-refused inputs and skipped; Roa::process/Aspa::process use the wall clock, "
                      "so other windows are validated through SignedObject::validate_at on the same bytes",
                      "encode/decode fidelity of individual primitives (times, serials) is decided by C17; here the model supplies the "
                      "expected forms and the state machine of the builders"]
    return c.finish()


replay = vlib.generic_replay(PROP, "builddecode")
