"""C09 — RRDP files round-trip; hostile XML is rejected within fixed bounds (spec/RrdpDoc.tla, XmlLimit.tla)."""
import os
import vlib
from vlib import Check, tlc, tlc_must_hold, vh, workdir, write_ndjson, cfg_with

PROP = "C09"
XL = ('CONSTANTS B = {b} Inf = 999 DocId = {d}\nCONSTANT Doc <- DocDef\nSPECIFICATION Spec\n'
      'INVARIANTS Budgeted TripBound ReadBound UsedBound\n{props}CHECK_DEADLOCK FALSE\n')


def run(tier, seed):
    c = Check(PROP, tier, seed, "model_checking")
    wd = workdir(PROP)
    quick = tier == "quick"
    workers = 6 if quick else 14
    # 1. the byte-budget automaton
    for d, props in ((1, ""), (2, "PROPERTIES Refuses EndlessRefused\n"), (3, "PROPERTIES Refuses EndlessRefused\n"),
                     (4, "PROPERTIES Refuses\n"), (5, "PROPERTIES Refuses\n")):
        for b in ((2,) if quick else (1, 2)):
            cfg = os.path.join(wd, f"xl{d}.cfg")
            open(cfg, "w").write(XL.format(b=b, d=d, props=props))
            r = tlc("MC_XmlLimit", cfg, workers=2, xmx="2g", timeout=600)
            tlc_must_hold(r, f"XmlLimit doc {d}")
            vlib.require_coverage(r, ["ResetAndLimit", "Fill", "Consume"], f"XmlLimit doc {d}")
            c.add_tlc(r, f"budget automaton, document shape {d}, buffer {b}: Budgeted TripBound ReadBound UsedBound + liveness Refuses/EndlessRefused")
    # 2. documents, delta chains, origins
    r = tlc("MC_RrdpDoc", "MC_RrdpDoc.cfg", workers=workers, xmx="8g", timeout=3000)
    tlc_must_hold(r, "RrdpDoc")
    vlib.require_coverage(r, ["AddElem"], "RrdpDoc")
    c.add_tlc(r, "all documents with <= 2 elements; all delta serial lists over {0,1,2,5,Max-1,Max} x limits {None,0,1,2,5}; "
                 "all authority combinations: ChainLaw RetainLaw")
    cases = r.replay
    path = write_ndjson(os.path.join(wd, "cases.ndjson"), cases)
    s = vh(["replay", "rrdp", path], timeout=3000)
    c.add_harness(s, "every document: write_xml -> parse -> equal; sort_and_verify_deltas / retained list / has_matching_origins vs specification")

    def corrupt(cs):
        for x in cs:
            if x.get("op") == "doc" and x["kind"] == "notification" and len(x["elems"]) == 2 and not x["chain_ok"] and x["elems"][0]["serial"] + 3 < x["elems"][1]["serial"]:
                y = dict(x)
                y["chain_ok"] = True
                return y
    vlib.selfcheck_replay(c, "rrdp", cases, corrupt, "chain_ok")

    # 3. budget traces from the hook: valid, mutated, captured and hostile endless inputs
    def mut(items):
        for k, it in enumerate(items):
            if it["ev"] == "limit":
                it["n"] = 0
                return k + 1
        return 0
    seeds = [seed * 1000 + i for i in range(1 if quick else 8)]
    vlib.trace_rounds(c, "Trace_XmlLimit", "rrdp", seeds, 40 if quick else 400, mut, xmx="6g",
                      extra_args=["--full-size", 0 if quick else 1], timeout=3000)
    c.cov["rule"] = ("cases = every state of RrdpDoc (document shapes, delta lists x limits, authority triples); non-trivial = at least one element; "
                     "traces = BufReadCounter events (cfg hook) of random valid files, byte-mutated files, the repository's captured files and "
                     "29 endless generated streams (whitespace, comment, name, attribute value, entity text, nesting, base64 text) per tier rule")
    c.cov["exhaustive"] = True
    c.assumptions += ["inner buffer = BufReader of 8192 bytes; bound checked = offset of the offending element + its limit + one buffer",
                      "malformed-document grammar is explored by byte mutation (no panic), not enumerated from a token-level specification yet",
                      "quick tier runs the 1 MB budgets and one 100 MB budget; thorough runs every 100 MB budget"]
    return c.finish()


replay = vlib.generic_replay(PROP, "rrdp")
