"""C02 — signed objects accepted iff digest, signature, EE certificate and coverage all hold (spec/SignedObj.tla)."""
import os
import vlib
from vlib import Check, tlc, tlc_must_hold, vh, workdir, write_ndjson, cfg_with

PROP = "C02"


def run(tier, seed):
    c = Check(PROP, tier, seed, "fault_enumeration")
    wd = workdir(PROP)
    quick = tier == "quick"
    r = tlc("MC_SignedObj", cfg_with(wd, "MC_SignedObj.cfg", "so.cfg", [("MaxDev = 2", "MaxDev = 2" if quick else "MaxDev = 3")]),
            workers=6 if quick else 14, xmx="8g", timeout=3000)
    tlc_must_hold(r, "SignedObj")
    vlib.require_coverage(r, ["Deviate"], "SignedObj")
    c.add_tlc(r, "conforming ROA / ASPA / manifest / generic object (7 signed-attribute size classes) and every single and double "
                 "(thorough: triple) deviation of a facet: SinglePoint Monotone")
    cases = r.replay
    path = write_ndjson(os.path.join(wd, "cases.ndjson"), cases)
    s = vh(["replay", "sigobj", path], timeout=3000)
    c.add_harness(s, "every case assembled by the harness' own RFC 5652/6488 encoder (real keys, real EE certificates), decoded strictly "
                     "and validated / processed by the library; verdict compared both ways")

    def corrupt(cs):
        for x in cs:
            if not x["accept"] and x["kind"] == "roa" and x["f"]["digest"] == "bad":
                y = dict(x)
                y["accept"] = True
                return y
    vlib.selfcheck_replay(c, "sigobj", cases, corrupt, "accept")

    def mut(items):
        for k, it in enumerate(items):
            if it["ev"] == "roa" and not it["ok"]:
                it["ok"] = True
                return k + 1
        return 0
    seeds = [seed * 1000 + i for i in range(2 if quick else 30)]
    vlib.trace_rounds(c, "Trace_SignedObj", "sigobj", seeds, 150 if quick else 1500, mut)
    c.cov["rule"] = ("cases = every state of the deviation machine: 10 conforming bases (4 kinds; the generic object in 7 signed-attribute sizes "
                     "127/128/129/255/256/257/107 bytes) x all single and double deviations over 8 facets (20 deviating values); non-trivial = "
                     "deviating case; traces = random ROAs/ASPAs vs random full-width EE resources")
    c.cov["exhaustive"] = True
    c.level = "fault_enumeration"
    c.assumptions += ["ROA / ASPA process() validates against the wall clock: EE validity is +-24 h around now (expired / not-yet-valid: a day off)",
                      "bytes are sampled: one flipped bit per tampered field; the decision structure (facets) is what is enumerated",
                      "signing-time is treated as required (RFC 9589) and binary-signing-time as an unknown attribute"]
    return c.finish()


replay = vlib.generic_replay(PROP, "sigobj")
