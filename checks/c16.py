"""C16 — RTR serial numbers compare and advance per RFC 1982 (spec/Rfc1982.tla)."""
import json
import os
import vlib
from vlib import Check, tlc, tlc_must_hold, vh, workdir, write_ndjson

PROP = "C16"


def run(tier, seed):
    c = Check(PROP, tier, seed, "model_checking")
    wd = workdir(PROP)
    widths = [4, 6] if tier == "quick" else [3, 4, 5, 6, 8]
    cases = []
    for w in widths:
        cfg = os.path.join(wd, f"MC_Rfc1982_w{w}.cfg")
        with open(os.path.join(vlib.SPEC, "MC_Rfc1982.cfg")) as f:
            text = f.read().replace("W = 6", f"W = {w}")
        with open(cfg, "w") as f:
            f.write(text)
        r = tlc("MC_Rfc1982", cfg, workers=4 if tier == "quick" else 8, xmx="3g", timeout=900)
        tlc_must_hold(r, f"Rfc1982 W={w}")
        vlib.require_coverage(r, ["Advance", "Swap"], f"Rfc1982 W={w}")
        c.add_tlc(r, f"exhaustive W={w}: ImplMatches DiffOnly Antisymmetric EqIffSame NoneIffHalf AddLaw AddGreater Wire WideMatches")
        cases += r.replay
    if not cases:
        raise vlib.ToolError("no replay cases emitted")
    path = write_ndjson(os.path.join(wd, "cases.ndjson"), cases)
    s = vh(["replay", "rfc1982", path])
    c.add_harness(s, "replay of every TLC state under x*2^(32-W) at 6 offsets")

    # binding self-check (spec -> impl): a corrupted expectation must be reported
    bad = [dict(x) for x in cases[:50]]
    for x in bad:
        if x["cmp"] == "lt":
            x["cmp"] = "gt"
            break
    sb = vh(["replay", "rfc1982", write_ndjson(os.path.join(wd, "corrupt.ndjson"), bad)])
    if not sb["violations"] and not c.violations:
        raise vlib.ToolError("binding self-check failed: corrupted expectation not detected")
    c.cov["binding_selfcheck_replay"] = "corrupted cmp expectation detected"

    # impl -> spec: recorded full-width operations validated by Trace_Rfc1982
    ntr = 2 if tier == "quick" else 10
    for i in range(ntr):
        tp = os.path.join(wd, f"trace{i}.ndjson")
        sd = vh(["drive", "rfc1982", "--seed", seed * 1000 + i, "--n", 3000 if tier == "quick" else 20000, "--out", tp])
        tr = vlib.validate_trace("Trace_Rfc1982", tp)
        c.add_tlc(tr.run, f"trace validation seed {seed*1000+i}")
        if tr.accepted:
            c.add_harness(sd, f"driven trace {i}", traces=1)
        else:
            ev = vlib.trace_line(tp, tr.rejected_at)
            c.add_harness(sd, f"driven trace {i} (rejected)")
            c.violation(f"trace:{ev.get('ev') if ev else '?'}", f"Trace_Rfc1982 cannot explain line {tr.rejected_at}: {json.dumps(ev)}",
                        {"trace": tp, "line": tr.rejected_at, "event": ev})
        if i == 0 and tr.accepted and not c.violations:
            def mut(items):
                for k, it in enumerate(items):
                    if it["ev"] == "cmp" and it["res"] == "lt":
                        it["res"] = "gt"
                        return k + 1
                return 0
            c.cov["binding_selfcheck_trace"] = vlib.binding_selfcheck_trace("Trace_Rfc1982", tp, mut)

    # serial numbers where they are used: one connection of the real client and server whose serials start sixteen below 2^32 and
    # walk across the wrap (C06's session model explains every step: a client that compared serials as plain integers would refuse
    # the update that follows 2^32 - 1)
    import checks.c06 as c06
    for k, (ci, sm, cs_, w) in enumerate([(2, 2, "stale", 1)] if tier == "quick" else [(2, 2, "stale", 1), (1, 2, "none", 1), (2, 1, "stale", 1)]):
        tc = c06.trace_cfg(wd, f"session-wrap{k}.cfg", ci, sm, w, cs_)
        vlib.trace_rounds(c, "Trace_RtrSession", "rtrsession", [seed * 200 + 2 * k + 1], 60 if tier == "quick" else 300, None, cfg=tc,
                          extra_args=["--cli-init", ci, "--srv-max", sm, "--window", w, "--cli-start", cs_])

    # unbounded lemma at width 32 (Apalache), and in the thorough tier all 2^32 differences natively
    ok, out, wall = vlib.apalache("APA_Rfc1982", "Inv", length=0, timeout=300)
    c.cov["apalache"] = {"module": "APA_Rfc1982", "inv": "Inv", "ok": ok, "wall_s": round(wall, 1)}
    if not ok:
        vlib.log(out[-2000:])
        raise vlib.ToolError("Apalache lemma APA_Rfc1982!Inv not discharged")
    stride = 4099 if tier == "quick" else 1
    sn = vh(["native", "rfc1982", "--stride", stride], timeout=1800)
    c.add_harness(sn, f"native loop over differences (stride {stride}) from 6 bases")

    c.cov["rule"] = ("cases = every state <<a,b>> of MC_Rfc1982 at the listed widths, replayed under the exact "
                     "embedding x*2^(32-W) plus 6 offsets; non-trivial = a # b; trace events are full 32-bit operations")
    c.cov["exhaustive"] = True
    c.assumptions += ["TLC/Apalache/SANY are correct", "x -> x*2^(32-W) preserves the RFC 1982 classification (DESIGN 2.3)"]
    return c.finish()


def replay(path):
    with open(path) as f:
        v = json.load(f)
    case = v.get("case") or {}
    inner = case.get("case", case)
    if "w" in inner:
        p = write_ndjson(os.path.join(workdir(PROP), "one.ndjson"), [inner])
        s = vh(["replay", "rfc1982", p])
        print(json.dumps(s["violations"], indent=1))
        if s["violations"]:
            print(f"VIOLATION property={PROP} replay={path}")
            return 1
        return 0
    print(json.dumps(v, indent=1))
    return 0
