"""C10 — CA protocol CMS accepted iff signed under the peer key, current, not revoked (spec/CmsMsg.tla)."""
import os
import vlib
from vlib import Check, tlc, tlc_must_hold, vh, workdir, write_ndjson, cfg_with

PROP = "C10"


def run(tier, seed):
    c = Check(PROP, tier, seed, "fault_enumeration")
    wd = workdir(PROP)
    quick = tier == "quick"
    r = tlc("MC_CmsMsg", cfg_with(wd, "MC_CmsMsg.cfg", "cm.cfg", [("MaxDev = 1", "MaxDev = 2" if quick else "MaxDev = 3")]),
            workers=6 if quick else 14, xmx="8g", timeout=3000)
    tlc_must_hold(r, "CmsMsg")
    vlib.require_coverage(r, ["Deviate"], "CmsMsg")
    c.add_tlc(r, "conforming messages (9 signed-attribute sizes incl. 127-129 and 255-257 bytes; AKI present/absent; CRL empty / listing "
                 "another certificate) and every single and double (thorough: triple) deviation over 13 facets: SinglePoint (the conforming message is accepted, every single deviation rejected), OnlyWholeIdentity")
    cases = r.replay
    path = write_ndjson(os.path.join(wd, "cases.ndjson"), cases)
    s = vh(["replay", "cmsmsg", path], timeout=3000)
    c.add_harness(s, "every case assembled by the harness' own CMS / X.509 / CRL encoder with real keys, decoded (relaxed and strict) and "
                     "validated with SignedMessage::validate_at; plus library-created messages at both ends of and outside their validity, and under another key")

    def corrupt(cs):
        for x in cs:
            if not x["accept"] and x["f"]["revoked"] == "ee":
                y = dict(x)
                y["accept"] = True
                return y
    vlib.selfcheck_replay(c, "cmsmsg", cases, corrupt, "accept")

    def mut(items):
        for k, it in enumerate(items):
            if not it["ok"]:
                it["ok"] = True
                return k + 1
        return 0
    seeds = [seed * 1000 + i for i in range(2 if quick else 30)]
    vlib.trace_rounds(c, "Trace_CmsMsg", "cmsmsg", seeds, 400 if quick else 4000, mut)
    c.cov["rule"] = ("cases = every state of the deviation machine over 13 facets; non-trivial = deviating case; traces = random facet "
                     "combinations with additional signed attributes of 110-420 bytes")
    c.cov["exhaustive"] = True
    c.assumptions += ["decision structure enumerated, bytes sampled (one flipped bit per tampered field)",
                      "EE certificate and CRL are hand-assembled RFC 5280 structures (issuer name and SPKI bytes taken from the library's encoder)"]
    return c.finish()


replay = vlib.generic_replay(PROP, "cmsmsg")
