"""C03 — resource sets are exact, canonical sets (spec/ResChain.tla, IntervalSet.tla, IpCanon.tla)."""
import json
import os
import vlib
from vlib import Check, tlc, tlc_must_hold, vh, workdir, write_ndjson

PROP = "C03"


def cfg_with(wd, base, name, repl):
    with open(os.path.join(vlib.SPEC, base)) as f:
        text = f.read()
    for a, b in repl:
        assert a in text, (a, base)
        text = text.replace(a, b)
    path = os.path.join(wd, name)
    with open(path, "w") as f:
        f.write(text)
    return path


def run(tier, seed):
    c = Check(PROP, tier, seed, "model_checking")
    wd = workdir(PROP)
    quick = tier == "quick"
    workers = 4 if quick else 12
    cases = []
    # 1. collecting blocks in any order (push machine)
    top, maxlen = (6, 3) if quick else (7, 4)
    cfg = cfg_with(wd, "MC_ResChainBuild.cfg", "build.cfg", [("Top = 6 MaxLen = 3", f"Top = {top} MaxLen = {maxlen}")])
    r = tlc("MC_ResChainBuild", cfg, workers=workers, xmx="8g", timeout=3000)
    tlc_must_hold(r, "ResChainBuild")
    vlib.require_coverage(r, ["Push"], "ResChainBuild")
    c.add_tlc(r, f"push machine Top={top} MaxLen={maxlen}: BuildLaw MemberLaw CanonIsCanon BadLaw")
    cases += r.replay
    # 2. all pairs of canonical chains under every operation
    top2 = 5 if quick else 7
    cfg = cfg_with(wd, "MC_ResChainOps.cfg", "ops.cfg", [("Top = 5", f"Top = {top2}")])
    r = tlc("MC_ResChainOps", cfg, workers=workers, xmx="8g", timeout=3000)
    tlc_must_hold(r, "ResChainOps")
    vlib.require_coverage(r, ["ToggleA", "ToggleB"], "ResChainOps")
    c.add_tlc(r, f"all pairs of sets over 0..{top2}: TrimLaw DiffLaw UnionLaw EncLaw EqLaw RefuseLaw TrimIssLaw InheritLaw SubsetLaw")
    cases += r.replay
    # 3. range -> prefix decomposition
    for w in ([3, 4] if quick else [3, 4, 5, 6]):
        cfg = cfg_with(wd, "IpCanon.cfg", f"ipcanon{w}.cfg", [("W = 3", f"W = {w}")])
        r = tlc("IpCanon", cfg, workers=workers, xmx="4g", timeout=1200)
        tlc_must_hold(r, f"IpCanon W={w}")
        vlib.require_coverage(r, ["Grow", "Shrink", "Jump"], f"IpCanon W={w}")
        c.add_tlc(r, f"IpCanon W={w}: Covers AllAligned Ascending Minimal PrefixIff SingleIff")
        cases += r.replay
    # 4. the resource builders as state machines: any sequence of inherit() / blocks() calls, then finalize()
    #    (two calls with up to two pushes each; thorough: also three calls with up to one push each - the full product of three
    #    calls with two pushes is 1.4 M sequences, which costs more to print and parse than it can tell)
    for (mc, mp) in ([(2, 2)] if quick else [(2, 2), (3, 1)]):
        cfg = cfg_with(wd, "MC_ResBuilder.cfg", f"builder{mc}{mp}.cfg", [("MaxCalls = 2", f"MaxCalls = {mc}"), ("MaxPush = 2", f"MaxPush = {mp}")])
        r = tlc("MC_ResBuilder", cfg, workers=workers, xmx="8g", timeout=3000)
        tlc_must_hold(r, "ResBuilder")
        vlib.require_coverage(r, ["CallInherit", "CallBlocks"], "ResBuilder")
        c.add_tlc(r, f"resource builders, up to {mc} calls (inherit, or blocks with up to {mp} pushes over 0..3): BuilderLaw (a bare builder collects over "
                     "calls, inherit forgets) TbsLaw (in a certificate under construction the last call alone decides)")
        cases += r.replay
    if len(cases) < 100:
        raise vlib.ToolError("too few replay cases")
    path = write_ndjson(os.path.join(wd, "cases.ndjson"), cases)
    s = vh(["replay", "reschain", path], timeout=3000)
    c.add_harness(s, "every TLC case through AsBlocks/IpBlocks/ResourceSet under 14 embeddings")

    # binding self-check spec -> impl
    bad = None
    for x in cases:
        if x["op"] == "pair" and x["inter"]:
            bad = dict(x)
            bad["inter"] = bad["inter"][:-1]
            break
    sb = vh(["replay", "reschain", write_ndjson(os.path.join(wd, "corrupt.ndjson"), [bad])])
    if not sb["violations"] and not c.violations:
        raise vlib.ToolError("binding self-check failed: corrupted expectation not detected")
    c.cov["binding_selfcheck_replay"] = "corrupted intersection expectation detected"

    # impl -> spec traces
    ntr = 2 if quick else 12
    for i in range(ntr):
        tp = os.path.join(wd, f"trace{i}.ndjson")
        sd = vh(["drive", "reschain", "--seed", seed * 1000 + i, "--n", 40 if quick else 150, "--out", tp])
        tr = vlib.validate_trace("Trace_ResChain", tp, xmx="4g", timeout=1200)
        c.add_tlc(tr.run, f"trace validation seed {seed*1000+i}")
        if tr.accepted:
            c.add_harness(sd, f"driven trace {i}", traces=1)
        else:
            ev = vlib.trace_line(tp, tr.rejected_at)
            c.add_harness(sd, f"driven trace {i} (rejected)")
            c.violation(f"trace:{ev.get('ev') if ev else '?'}",
                        f"Trace_ResChain cannot explain line {tr.rejected_at}: {json.dumps(ev)}",
                        {"trace_seed": seed * 1000 + i, "line": tr.rejected_at, "event": ev})
        if i == 0 and tr.accepted and not c.violations:
            def mut(items):
                for k, it in enumerate(items):
                    if it["ev"] in ("union", "inter", "diff", "from") and it["res"]:
                        it["res"] = it["res"][:-1]
                        return k + 1
                return 0
            c.cov["binding_selfcheck_trace"] = vlib.binding_selfcheck_trace("Trace_ResChain", tp, mut)

    c.cov["rule"] = ("cases = every state of the push machine (all block sequences up to MaxLen over 0..Top), every pair of sets over 0..Top, "
                     "every range at width W, each replayed under 14 embeddings (both ends of the AS, IPv4, IPv6 spaces, scaled and unit); "
                     "non-trivial = >= 2 input blocks / two different non-empty sets; traces are random full-width scenarios")
    c.cov["exhaustive"] = True
    c.assumptions += ["blocks handed to the collectors are well-formed (min <= max); inverted ranges are tested only through text and DER",
                      "embeddings / coordinate compression preserve order, adjacency and the ends of the space (DESIGN 2.3)"]
    return c.finish()


def replay(path):
    with open(path) as f:
        v = json.load(f)
    case = (v.get("case") or {}).get("case")
    if case and "op" in case:
        s = vh(["replay", "reschain", write_ndjson(os.path.join(workdir(PROP), "one.ndjson"), [case])])
        print(json.dumps(s["violations"], indent=1))
        if s["violations"]:
            print(f"VIOLATION property={PROP} replay={path}")
            return 1
        return 0
    print(json.dumps(v, indent=1))
    return 0
