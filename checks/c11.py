"""C11 — CA protocol XML (RFC 6492, 8181, 8183) round-trips and stays well-formed (spec/CaXml*.tla)."""
import os
import vlib
from vlib import Check, tlc, tlc_must_hold, vh, workdir, write_ndjson, cfg_with

PROP = "C11"


def run(tier, seed):
    c = Check(PROP, tier, seed, "model_checking")
    wd = workdir(PROP)
    quick = tier == "quick"
    workers = 6 if quick else 14
    cases = []
    r = tlc("MC_CaXmlEsc", cfg_with(wd, "MC_CaXmlEsc.cfg", "esc.cfg", [("MaxLen = 4", "MaxLen = 4" if quick else "MaxLen = 6")]),
            workers=workers, xmx="8g", timeout=3000)
    tlc_must_hold(r, "CaXmlEsc")
    vlib.require_coverage(r, ["AppendChar"], "CaXmlEsc")
    c.add_tlc(r, "escaping machine: every value over {a < > & \" ' ; l t} up to length 4/6 in attribute and PCDATA mode: Incremental, "
                 "RoundTrip (well-formed in context and reads back as the value), AttrCoversPcdata")
    cases += r.replay
    r = tlc("MC_CaXmlMsg", cfg_with(wd, "MC_CaXmlMsg.cfg", "msg.cfg", [("MaxStr = 2", "MaxStr = 2" if quick else "MaxStr = 3")]),
            workers=workers, xmx="8g", timeout=3000)
    tlc_must_hold(r, "CaXmlMsg")
    vlib.require_coverage(r, ["Grow"], "CaXmlMsg")
    c.add_tlc(r, "case machine: 16 message variants x list shapes 0-3 x optional fields x focus field x every focus string up to length "
                 "2/3 over the field's admitted specials; fault plans 16 variants x 34 mutation kinds x 5 positions; CarrierSafe, FocusReadsBack")
    cases += r.replay
    path = write_ndjson(os.path.join(wd, "cases.ndjson"), cases)
    s = vh(["replay", "caxml", path], timeout=3000)
    if s.get("roundtrips", 0) < 1000 or s.get("mutants_accepted", 0) < 50 or s.get("mutants_rejected", 0) < 1000:
        raise vlib.ToolError("vacuous: too few round trips / accepted / rejected mutants")
    c.add_harness(s, "esc cases through xml::encode::Writer (an independent scanner and the library's reader get back what the "
                     "model's Read gives; the written form may differ from the reference writer Esc); msg cases built through the public constructors of all three protocols, written, scanned by an "
                     "independent well-formedness scanner (focus attribute reads back as the model's Read(Esc(value))), parsed back = equal; fault plans "
                     "applied to written documents and offered to all six parsers (no panic; accepted values stabilise under write/parse)")

    def corrupt(cs):
        for x in cs:
            if x["op"] == "msg" and x["focus"] == "tag" and "\"" in x["value"]:
                y = dict(x)
                y["expect"] = x["value"] + ["x"]
                return y
    vlib.selfcheck_replay(c, "caxml", cases, corrupt, "msg.expect")

    def corrupt2(cs):
        for x in cs:
            if x["op"] == "esc" and x["mode"] == "pcdata" and ">" in x["value"]:
                y = dict(x)
                y["expect"] = x["value"][:-1]
                return y
    vlib.selfcheck_replay(c, "caxml", cases, corrupt2, "esc.expect")

    def mut(items):
        for k, it in enumerate(items):
            if it["ev"] == "attr" and "&" in it["value"]:
                i = it["raw"].index("&")
                it["raw"] = it["raw"][:i + 1] + it["raw"][i + 5:]
                return k + 1
        return 0
    seeds = [seed * 1000 + i for i in range(2 if quick else 30)]
    vlib.trace_rounds(c, "Trace_CaXml", "caxml", seeds, 400 if quick else 4000, mut)
    c.cov["rule"] = ("cases = every state of the escaping machine and of the message case machine (fault plans included); an evaluation = "
                     "one value escaped / one message built, written, scanned, re-parsed / one mutated document offered to six parsers; "
                     "non-trivial = all; traces = random messages with random free text in every free field at once")
    c.cov["exhaustive"] = True
    c.assumptions += ["field values are ASCII without C0 control characters (XML cannot carry them at all); times have whole seconds "
                      "(resource_set_notafter is written with second precision); published objects are non-empty (an empty <publish> is "
                      "written but refused by the parser); publish/withdraw tags are present (RFC 8181 makes the attribute mandatory; "
                      "None is written as \"\")",
                      "error texts and descriptions can only be set to the RFC's canned strings through the public constructors; the "
                      "field table records them as raw carriers over a domain without < and &"]
    return c.finish()


replay = vlib.generic_replay(PROP, "caxml")
