"""C07 — RTR PDUs survive the wire; broken streams end in errors, not hangs (spec/RtrLayout.tla, RtrWire.tla)."""
import json
import os
import vlib
from vlib import Check, tlc, tlc_must_hold, vh, workdir, write_ndjson, cfg_with

PROP = "C07"


def run(tier, seed):
    c = Check(PROP, tier, seed, "model_checking")
    wd = workdir(PROP)
    quick = tier == "quick"
    workers = 6 if quick else 14
    cases = []
    repl = [] if quick else [("Lens = {0, 7, 8, 12, 16, 20, 21, 24, 32, 34, 36}", "Lens = {0, 7, 8, 9, 11, 12, 13, 16, 19, 20, 21, 23, 24, 25, 28, 31, 32, 33, 34, 36, 40}"),
                             ("Avails <- QuickAvails", "Avails <- AllAvails"),
                             ("Entries <- QuickEntries", "Entries <- AllEntries")]
    r = tlc("MC_RtrWire", cfg_with(wd, "MC_RtrWire.cfg", "wire.cfg", repl), workers=workers, xmx="12g", timeout=5400)
    tlc_must_hold(r, "RtrWire")
    vlib.require_coverage(r, ["ReadSome", "ReadEof", "Dispatch", "BodyDone"], "RtrWire")
    c.add_tlc(r, "reader automaton: every entry point x PDU type x version x length field x truncation point x chunking: "
                 "Bounded OkMeansComplete ErrMeansBroken SkipStopsAtEof + liveness Terminates")
    cases += r.replay
    r = tlc("MC_RtrWireEnc", "MC_RtrWireEnc.cfg", workers=workers, xmx="4g", timeout=1200)
    tlc_must_hold(r, "RtrWireEnc")
    c.add_tlc(r, "layout table: every PDU type x version x action x boundary field values: LenLaw VersionLaw WholeOk")
    cases += r.replay
    path = write_ndjson(os.path.join(wd, "cases.ndjson"), cases)
    s = vh(["replay", "rtrwire", path], timeout=3000)
    c.add_harness(s, "every case: bytes written by the library = layout table, read back = same item; every truncated / corrupted "
                     "header stream through the real readers with 3 chunkings, counting bytes and end-of-stream polls")

    # the one reader of control PDUs that lives outside pdu.rs: the server connection reads the queries a client wrote, in whatever
    # fragments they arrive and with notifications in between (the model and the replay are C08's, at its smallest configuration)
    mc = os.path.join(wd, "srvconn.cfg")
    open(mc, "w").write('CONSTANTS StreamId = 1 MaxNotify = 1 HeaderSurvives = TRUE\nCONSTANT Queries <- QueriesDef\nSPECIFICATION Spec\nVIEW view\n'
                        'INVARIANTS AnswersInOrder NoLoss NoGarbage Complete NotifyCount Emit\nPROPERTY AllAnswered\nCHECK_DEADLOCK FALSE\n')
    r = tlc("MC_RtrServerConn", mc, workers=workers, xmx="8g", timeout=3000)
    tlc_must_hold(r, "RtrServerConn (queries read by the server)")
    c.add_tlc(r, "queries written by a client, read by the server connection under every fragmentation and one notification: NoLoss NoGarbage Complete")
    s2 = vh(["replay", "rtrconn", write_ndjson(os.path.join(wd, "srvconn.ndjson"), r.replay)], timeout=3000)
    c.add_harness(s2, "the same against the real Server on a controlled socket: every query is read back as what was written (its answer says so)")

    # ... and the client's readers of what a cache sends (first reply, payload PDUs, End of Data; version checks, downgrade after
    # an Unsupported Protocol Version error): one driven session per version pairing against C06's session model
    import checks.c06 as c06
    for k, (ci, sm, cs_, w) in enumerate([(2, 1, "stale", 1), (1, 2, "none", 1)]):
        tc = c06.trace_cfg(wd, f"session-trace{k}.cfg", ci, sm, w, cs_)
        vlib.trace_rounds(c, "Trace_RtrSession", "rtrsession", [seed * 100 + 50 + k], 60 if quick else 300, None, cfg=tc,
                          extra_args=["--cli-init", ci, "--srv-max", sm, "--window", w, "--cli-start", cs_])

    # ... and the session as a reader of whole replies: RtrClientStream.tla - a cache that speaks one version and deviates in one
    # place (version, type or length field of one PDU of a reply or of a Serial Notify, or the stream ends early), up to
    # MaxSteps update() calls; every conversation goes through the real Client on a scripted socket that hands out 7 octets a time
    ms = 2 if quick else 3
    cfgp = cfg_with(wd, "MC_RtrClientStream.cfg", "clientstream.cfg", [("MaxSteps = 2", f"MaxSteps = {ms}")])
    r = tlc("MC_RtrClientStream", cfgp, workers=workers, xmx="6g", timeout=3000)
    tlc_must_hold(r, "RtrClientStream")
    vlib.require_coverage(r, ["StartFirst", "Wait", "Query", "ReadFirst", "ReadNext"], "RtrClientStream")
    c.add_tlc(r, "the client's reader of whole replies: cache version x start with/without state x conforming reply (data, Cache Reset, "
                 "version downgrade) or one deviation (version / type / length of one PDU, Serial Notify, early end between or inside PDUs): "
                 "OkMeansClean ErrMeansDirty StopsAtBad SettledIsCache VersionStable + liveness Terminates")
    cs_cases = r.replay
    s3 = vh(["replay", "rtrclient", write_ndjson(os.path.join(wd, "clientstream.ndjson"), cs_cases)], timeout=3000)
    c.add_harness(s3, "every conversation through the real Client (update/serial/reset, first-reply readers, check_version): the outcome of every "
                      "step, the items handed over, and the octets consumed up to the deviating PDU")

    def corrupt_cs(cs):
        for x in cs:
            if x["dirty"] and x["verdicts"][-1][0] == "err" and not x["hist"][-1]["ends"]:
                y = json.loads(json.dumps(x))
                y["verdicts"][-1] = ["ok", 1]
                return y
    vlib.selfcheck_replay(c, "rtrclient", cs_cases, corrupt_cs, "clientstream.verdict")

    # impl -> spec: random conversations (any number of payload PDUs, arbitrary wrong values, cuts at any octet, reads in random
    # pieces) recorded and explained event by event by Trace_RtrClientStream, the reader's own steps taken as silent steps
    def mut_cs(items):
        for k, it in enumerate(items):
            if it["ev"] == "step" and it["verdict"] == "err":
                it["verdict"] = "ok"
                it["items"] = 1
                return k + 1
        return 0
    vlib.trace_rounds(c, "Trace_RtrClientStream", "rtrclient", [seed * 1000 + 500 + i for i in range(2 if quick else 20)], 300 if quick else 2000, mut_cs)

    def corrupt(cs):
        for x in cs:
            if x["op"] == "read" and x["verdict"] == "ok":
                y = dict(x)
                y["verdict"] = "err"
                return y
    vlib.selfcheck_replay(c, "rtrwire", cases, corrupt, "read.verdict")

    def mut(items):
        for k, it in enumerate(items):
            if it["ev"] == "enc":
                it["bytes"][7] ^= 4
                return k + 1
        return 0
    seeds = [seed * 1000 + i for i in range(2 if quick else 30)]
    vlib.trace_rounds(c, "Trace_RtrWire", "rtrwire", seeds, 300 if quick else 3000, mut, xmx="6g")
    c.cov["rule"] = ("cases = every initial state of the reader automaton (entry x type x version x length field x available bytes) and every "
                     "PDU of the layout model; non-trivial = at least a full header available / every PDU; traces = random full-range payload "
                     "PDUs (up to 2000 providers, 600-byte key info) and randomly cut PDU sequences")
    c.cov["exhaustive"] = True
    c.assumptions += ["a reader that polls more than 64 times after end of stream is reported as spinning (no wall clock involved)",
                      "memory use on huge length fields is not measured here (length fields up to 40 in the model)"]
    return c.finish()


replay = vlib.generic_replay(PROP, "rtrwire")
