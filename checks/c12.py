"""C12 — URIs: faithful parse, equality/hash agree, consistent path algebra (spec/UriAlgebra.tla)."""
import os
import vlib
from vlib import Check, tlc, tlc_must_hold, vh, workdir, write_ndjson, cfg_with

PROP = "C12"


def run(tier, seed):
    c = Check(PROP, tier, seed, "model_checking")
    wd = workdir(PROP)
    quick = tier == "quick"
    workers = 4 if quick else 12
    cases = []
    ml = 5 if quick else 6
    r = tlc("MC_UriStrings", cfg_with(wd, "MC_UriStrings.cfg", "strings.cfg", [("MaxLen = 5", f"MaxLen = {ml}")]), workers=workers, xmx="6g", timeout=3000)
    tlc_must_hold(r, "UriStrings")
    vlib.require_coverage(r, ["AppendChar"], "UriStrings")
    c.add_tlc(r, f"every string over {{a,A,b,/,.,space}} up to length {ml}: RsyncLaws HttpsLaws")
    cases += r.replay
    r = tlc("MC_UriPairs", cfg_with(wd, "MC_UriPairs.cfg", "pairs.cfg", [("MaxLen = 5", "MaxLen = 5")]),
            workers=workers, xmx="8g", timeout=6000)   # MaxLen 6 has 40x the pairs and TLC enumerates initial states on one thread (> 1 h)
    tlc_must_hold(r, "UriPairs")
    c.add_tlc(r, "all pairs of accepted URIs x 11 join arguments: EqSym RelEmptyIff RelJoin ParentAsym JoinLaws EqCongr")
    cases += r.replay
    # longer URIs over a smaller alphabet: deeper paths and trailing slashes (a/a/a/ against a/a/a needs length 6)
    deep = [('Chars = {"a", "A", "b", "/", "."} MaxLen = 5', 'Chars = {"a", "/"} MaxLen = 8' if quick else 'Chars = {"a", "A", "/"} MaxLen = 7')]
    r = tlc("MC_UriPairs", cfg_with(wd, "MC_UriPairs.cfg", "pairs-deep.cfg", deep), workers=workers, xmx="8g", timeout=6000)
    tlc_must_hold(r, "UriPairs (deep)")
    c.add_tlc(r, "all pairs of accepted URIs up to length 8 over {a,/} (thorough: 7 over {a,A,/}): the same laws on deeper paths and trailing slashes")
    cases += r.replay
    # authorities with a port: the default ports of the two schemes are characters like any other (host:443 is not host)
    ports = [('Chars = {"a", "A", "b", "/", "."} MaxLen = 5', 'Chars = {"a", "/", ":443", ":873"} MaxLen = 5')]
    r = tlc("MC_UriPairs", cfg_with(wd, "MC_UriPairs.cfg", "pairs-ports.cfg", ports), workers=workers, xmx="8g", timeout=6000)
    tlc_must_hold(r, "UriPairs (ports)")
    c.add_tlc(r, "all pairs of accepted URIs up to 5 tokens over {a,/,:443,:873}: the same laws when authorities carry the schemes' default ports")
    cases += r.replay
    r = tlc("MC_UriTriples", cfg_with(wd, "MC_UriTriples.cfg", "triples.cfg", [("MaxLen = 5", "MaxLen = 4" if quick else "MaxLen = 5")]),
            workers=workers, xmx="8g", timeout=6000)
    tlc_must_hold(r, "UriTriples")
    c.add_tlc(r, "all triples: EqTrans ParentTrans ParentCongr")
    path = write_ndjson(os.path.join(wd, "cases.ndjson"), cases)
    s = vh(["replay", "urialg", path], timeout=3000)
    if s.get("rsync_accepted", 0) < 50 or s.get("https_accepted", 0) < 50:
        raise vlib.ToolError("vacuous: the parsers accepted (almost) nothing")
    c.add_harness(s, "every string / pair under 3 scheme spellings and 2 alphabet renderings")

    def corrupt(cs):
        for x in cs:
            if x["op"] == "pair" and x["kind"] == "rsync" and x["eq"]:
                y = dict(x)
                y["eq"] = False
                return y
    vlib.selfcheck_replay(c, "urialg", cases, corrupt, "pair.eq")

    def mut(items):
        for k, it in enumerate(items):
            if it["ev"] == "pair" and not it["eq"]:
                it["eq"] = True
                it["hash_eq"] = True
                return k + 1
        return 0
    seeds = [seed * 1000 + i for i in range(2 if quick else 10)]
    vlib.trace_rounds(c, "Trace_UriAlgebra", "urialg", seeds, 1500 if quick else 6000, mut)
    c.cov["rule"] = ("cases = every string over the 6-character alphabet up to MaxLen (acceptance compared one-directionally: accepted => "
                     "well-formed), every pair of well-formed URIs with 11 join arguments; each under 3 scheme spellings and 2 renderings; "
                     "non-trivial = body longer than 3 characters / two different URIs; traces = random long URIs")
    c.cov["exhaustive"] = True
    c.assumptions += ["rejecting more than the may-accept set is not a violation (one-directional acceptance)",
                      "'lies beneath' for HTTPS is textual: same authority and the base-as-directory is a proper prefix"]
    return c.finish()


replay = vlib.generic_replay(PROP, "urialg")
