"""C01 — certificate validation: only correctly issued certificates, resources never grow (spec/CertChain.tla)."""
import os
import vlib
from vlib import Check, tlc, tlc_must_hold, vh, workdir, write_ndjson, cfg_with

PROP = "C01"


def run(tier, seed):
    c = Check(PROP, tier, seed, "model_checking")
    wd = workdir(PROP)
    quick = tier == "quick"
    workers = 6 if quick else 14
    cases = []
    for mode in ("res", "id-ta", "id-ca", "id-leaf"):
        r = tlc("MC_CertChain", cfg_with(wd, "MC_CertChain.cfg", f"cc-{mode}.cfg", [('Mode = "res"', f'Mode = "{mode}"')]),
                workers=workers, xmx="8g", timeout=3000)
        tlc_must_hold(r, f"CertChain {mode}")
        vlib.require_coverage(r, ["ValidateTA"] + ([] if mode == "id-ta" else ["ValidateCA"]) + (["ValidateLeaf"] if mode in ("res", "id-leaf") else []), f"CertChain {mode}")
        c.add_tlc(r, {"res": "chains TA -> CA -> EE/router, all correctly issued, resources (missing/inherit/blocks over 3 atoms per family) and overclaim policy vary at every level",
                      "id-ta": "trust anchor: every combination of signing key, AKI, SKI validity, byte tamper, notBefore/notAfter",
                      "id-ca": "CA under a valid TA: every combination of the identity facets",
                      "id-leaf": "EE and router certificate under a valid chain: every combination of the identity facets"}[mode]
                  + ": NeverGrow TransitiveShrink TaNoInherit SinglePoint")
        cases += r.replay if not (quick and mode == "res") else r.replay[::3]
    # issuer/claim pairs with real interval structure: every pair of sets over 0..4 (0..5) from C03's model, as certificates
    r = tlc("MC_ResChainOps", cfg_with(wd, "MC_ResChainOps.cfg", "pairs.cfg", [("Top = 5", "Top = 4" if quick else "Top = 5")]), workers=workers, xmx="8g", timeout=3000)
    tlc_must_hold(r, "ResChainOps (issuer/claim pairs)")
    c.add_tlc(r, "every pair (claimed set, issuer set) over a small number line: RefuseLaw TrimIssLaw SubsetLaw (shared with C03)")
    cases += r.replay
    path = write_ndjson(os.path.join(wd, "cases.ndjson"), cases)
    s = vh(["replay", "certchain", path], timeout=3000)
    c.add_harness(s, "every chain built with real RSA keys (SKI patch / signature bit / TBS byte tampers applied to the DER), decoded and validated "
                     "with validate_{ta,ca,ee,router}_at; verdict and validated resources compared at every step")

    def corrupt(cs):
        for x in cs:
            if x["mode"] == "res" and len(x["certs"]) == 3 and x["certs"][2]["ok"] and x["certs"][2]["eff"]["v4"]:
                y = {**x, "certs": [dict(z) for z in x["certs"]]}
                y["certs"][2] = {**y["certs"][2], "eff": {**y["certs"][2]["eff"], "v4": []}}
                return y
    vlib.selfcheck_replay(c, "certchain", cases, corrupt, "eff.v4")

    def mut(items):
        for k, it in enumerate(items):
            if it["ev"] == "link" and it["ok"] and it["eff"]:
                it["eff"] = it["eff"][:-1]
                return k + 1
        return 0
    seeds = [seed * 1000 + i for i in range(2 if quick else 30)]
    vlib.trace_rounds(c, "Trace_CertChain", "certchain", seeds, 120 if quick else 1500, mut, xmx="6g")
    c.cov["rule"] = ("cases = every maximal behaviour of MC_CertChain in its four modes (quick: every third of the resource mode); non-trivial = "
                     "chain of at least two certificates; traces = random issuer/child links with large random full-width resource sets, "
                     "coordinate-compressed and validated with ResChain's VerifyIssued")
    c.cov["exhaustive"] = not quick
    c.assumptions += ["cryptographic facts are realised by the harness (sign with key X, patch SKI, flip bits) and observed only through the verdict",
                      "byte tampering is sampled: one signature bit and one TBS byte (serial number) per certificate, not every bit",
                      "router certificates: only the verdict is observable (validate_router_at returns no resources)"]
    return c.finish()


replay = vlib.generic_replay(PROP, "certchain")
