"""C06 — RTR: after any completed exchange the client holds exactly the server's data (spec/RtrSession.tla)."""
import os
import vlib
from vlib import Check, tlc, tlc_must_hold, vh, workdir, write_ndjson

PROP = "C06"
TEMPLATE = ('CONSTANTS CliInit = {ci} SrvMax = {sm} MaxHist = {mh} MaxSteps = {ms} Window = {w} CliStart = "{cs}" KeepLog = {kl} Faults = {fl} Crossing = {cr}\n'
            'SPECIFICATION Spec\nVIEW view\nPROPERTY FailAtomic\nINVARIANTS SyncCorrect VersionOk Consistent NoStaleSession {emit}\n{prop}CHECK_DEADLOCK FALSE\n')


def cfg(wd, name, **k):
    path = os.path.join(wd, name)
    k.setdefault("emit", "Emit")
    k.setdefault("prop", "")
    k.setdefault("kl", "TRUE")
    k.setdefault("fl", "FALSE")
    k.setdefault("cr", "TRUE")
    with open(path, "w") as f:
        f.write(TEMPLATE.format(**k))
    return path


def trace_cfg(wd, name, ci, sm, w, cs):
    path = os.path.join(wd, name)
    with open(path, "w") as f:
        f.write(f'CONSTANTS CliInit = {ci} SrvMax = {sm} MaxHist = 1000000 MaxSteps = 1000000 Window = {w} CliStart = "{cs}" KeepLog = FALSE Faults = FALSE Crossing = FALSE\n'
                'SPECIFICATION TraceSpec\nINVARIANTS SyncCorrect VersionOk NoStaleSession\nPOSTCONDITION TraceAccepted\nCHECK_DEADLOCK FALSE\n')
    return path


def run(tier, seed):
    c = Check(PROP, tier, seed, "model_checking")
    wd = workdir(PROP)
    quick = tier == "quick"
    workers = 6 if quick else 14
    if quick:
        grid = [(2, 2, "none", 1), (2, 2, "stale", 1), (2, 2, "foreign", 0), (1, 2, "stale", 1), (0, 2, "none", 1),
                (2, 1, "none", 1), (2, 0, "stale", 1), (1, 0, "foreign", 0)]
    else:
        grid = [(ci, sm, cs, w) for ci in (0, 1, 2) for sm in (0, 1, 2) for cs in ("none", "stale", "foreign") for w in (0, 1)]
    cases = []
    for (ci, sm, cs, w) in grid:
        r = tlc("MC_RtrSession", cfg(wd, "mc.cfg", ci=ci, sm=sm, mh=2, ms=2, w=w, cs=cs), workers=workers, xmx="8g", timeout=1800)
        tlc_must_hold(r, f"RtrSession {ci}/{sm}/{cs}/{w}")
        vlib.require_coverage(r, ["SrcUpdate", "CliBegin", "SrvQuery", "SrvSendEod", "CliApply"] + (["NotifyCross"] if sm >= 2 else []), f"RtrSession {ci}/{sm}/{cs}/{w}")
        c.add_tlc(r, f"client v{ci} / server max v{sm} / start {cs} / window {w}: 2 source versions, 2 steps: SyncCorrect VersionOk Consistent NoStaleSession")
        cases += r.replay
    # transport faults: the connection may break at any point of a response (ConnLost); the library's server only
    for (ci, sm, cs, w) in ([(2, 2, "stale", 1), (1, 2, "none", 1)] if quick else [(2, 2, "stale", 1), (1, 2, "none", 1), (0, 2, "stale", 1), (2, 2, "foreign", 0)]):
        r = tlc("MC_RtrSession", cfg(wd, "faults.cfg", ci=ci, sm=sm, mh=2, ms=2, w=w, cs=cs, fl="TRUE"), workers=workers, xmx="8g", timeout=1800)
        tlc_must_hold(r, f"RtrSession faults {ci}/{sm}/{cs}/{w}")
        vlib.require_coverage(r, ["ConnLost"], f"RtrSession faults {ci}/{sm}/{cs}/{w}")
        c.add_tlc(r, f"with transport faults: client v{ci} / server v{sm} / start {cs}: ConnLost at every point of every response; FailAtomic")
        cases += [x for x in r.replay if x["log"][-1]["a"] == "lost"]
    # liveness (fairness, no emission) on the downgrade configuration
    r = tlc("MC_RtrSession", cfg(wd, "live.cfg", ci=2, sm=1, mh=2, ms=2, w=1, cs="stale", emit="", prop="PROPERTY Progress\n", kl="FALSE"),
            workers=workers, xmx="8g", timeout=1800)
    tlc_must_hold(r, "RtrSession liveness")
    c.add_tlc(r, "liveness: Progress under weak fairness of the protocol actions")
    if not quick:
        # deeper: three source versions, invariants only (7.7 M states each) ...
        for (ci, sm, cs, w) in [(2, 2, "stale", 1), (2, 1, "none", 1), (1, 2, "foreign", 1), (2, 0, "stale", 0)]:
            r = tlc("MC_RtrSession", cfg(wd, "deep.cfg", ci=ci, sm=sm, mh=3, ms=3, w=w, cs=cs, emit="", kl="FALSE"), workers=workers, xmx="24g", timeout=5400)
            tlc_must_hold(r, f"RtrSession deep {ci}/{sm}/{cs}")
            c.add_tlc(r, f"deep: client v{ci} / server v{sm} / {cs}: 3 source versions, 3 steps")
        # ... and random behaviours of that larger model for replay
        for k, (ci, sm, cs, w) in enumerate([(2, 2, "stale", 1), (2, 1, "none", 1), (0, 2, "foreign", 1), (1, 0, "stale", 0)]):
            r = tlc("MC_RtrSession", cfg(wd, "sim.cfg", ci=ci, sm=sm, mh=4, ms=4, w=w, cs=cs), workers=1, xmx="8g", timeout=1800,
                    simulate=3000, depth=60, seed=seed * 10 + k)
            c.add_tlc(r, f"simulation: 3000 random behaviours, 4 source versions, 4 steps ({ci}/{sm}/{cs})")
            cases += r.replay
    if len(cases) < 1000 or not any(x["log"][-1]["a"] == "cross" for x in cases):
        raise vlib.ToolError("too few behaviours emitted / none with a notification crossing a query")
    path = write_ndjson(os.path.join(wd, "cases.ndjson"), cases)
    s = vh(["replay", "rtrsession", path], timeout=3000)
    c.add_harness(s, "every emitted behaviour executed: real Client against real Server (or the legacy cache for SrvMax < 2), "
                     "source updates injected at the recorded source-call index, two serial bases (0 and wrap-around)")

    def corrupt(cs_):
        for x in cs_:
            for e in x["log"]:
                if e["a"] == "step" and e["data"]:
                    y = {**x, "log": [dict(z) for z in x["log"]]}
                    for z in y["log"]:
                        if z["a"] == "step" and z["data"]:
                            z["data"] = z["data"][1:]
                            return y
    vlib.selfcheck_replay(c, "rtrsession", cases, corrupt, "step.data")

    # impl -> spec: long random connections recorded at the trait boundary
    tgrid = [(2, 2, "none", 1), (2, 1, "stale", 1), (1, 0, "foreign", 0)] if quick else \
        [(ci, sm, cs, w) for ci in (0, 1, 2) for sm in (0, 1, 2) for cs, w in (("none", 1), ("stale", 2), ("foreign", 0))]
    for k, (ci, sm, cs, w) in enumerate(tgrid):
        tc = trace_cfg(wd, f"trace{k}.cfg", ci, sm, w, cs)
        def mut(items):
            for j, it in enumerate(items):
                if it["ev"] == "apply" and it["data"]:
                    it["data"] = it["data"][1:]
                    return j + 1
            return 0
        c.cov.pop("binding_selfcheck_trace", None) if k else None
        vlib.trace_rounds(c, "Trace_RtrSession", "rtrsession", [seed * 100 + k], 60 if quick else 300, mut if k == 0 else None, cfg=tc,
                          extra_args=["--cli-init", ci, "--srv-max", sm, "--window", w, "--cli-start", cs])
    c.cov["rule"] = ("cases = every maximal behaviour (first one reaching each distinct state) of RtrSession for the listed client/server "
                     "version pairs, start states and diff windows, with source updates between any two server source calls; "
                     "non-trivial = the behaviour contains a source update; traces = 60-300 randomly scheduled steps on one connection")
    c.cov["exhaustive"] = True
    c.assumptions += ["delivery + client handling of a PDU folded into the send action (client handlers read only the PDU and client state)",
                      "the legacy cache (SrvMax < 2) is played by the harness from the specification's server actions",
                      "single-threaded schedule; payload universe of 5 items (2 origins, 1 router key, 2 provider sets of one ASPA customer)"]
    return c.finish()


replay = vlib.generic_replay(PROP, "rtrsession")
