"""C17 — X.509 times, validity windows and serial numbers (spec/X509Time.tla)."""
import os
import vlib
from vlib import Check, tlc, tlc_must_hold, vh, workdir, write_ndjson, cfg_with

PROP = "C17"


def run(tier, seed):
    c = Check(PROP, tier, seed, "model_checking")
    wd = workdir(PROP)
    quick = tier == "quick"
    workers = 4 if quick else 12
    cases = []
    r = tlc("MC_X509Enc", "MC_X509Enc.cfg", workers=workers, xmx="4g", timeout=1200)
    tlc_must_hold(r, "X509Enc")
    vlib.require_coverage(r, ["SetY", "SetMo", "SetD", "SetH", "SetMi", "SetS"], "X509Enc")
    c.add_tlc(r, "boundary times (17 years x months 0-13 x days {0,1,28..32} x h/m/s boundaries): RoundTrip OtherTag RejectBad")
    cases += r.replay
    ed = 1 if quick else 2
    r = tlc("MC_X509Mut", cfg_with(wd, "MC_X509Mut.cfg", "mut.cfg", [("MaxEdits = 1", f"MaxEdits = {ed}")]), workers=workers, xmx="6g", timeout=3000)
    tlc_must_hold(r, "X509Mut")
    vlib.require_coverage(r, ["Edit", "Cut", "Grow", "Swap"], "X509Mut")
    c.add_tlc(r, f"strings within {ed} edit(s) of valid ones over a digit-and-sign alphabet, length +-1, tag swap: OnlyCanonical")
    cases += r.replay
    r = tlc("MC_X509Win", "MC_X509Win.cfg", workers=workers, xmx="4g", timeout=1200)
    tlc_must_hold(r, "X509Win")
    c.add_tlc(r, "all (nb, na, now, nb2, na2) over 4 instants; all pairs of serials over byte classes: TrimLaw DerLaw OrderLaw")
    cases += r.replay
    path = write_ndjson(os.path.join(wd, "cases.ndjson"), cases)
    s = vh(["replay", "x509time", path], timeout=3000)
    c.add_harness(s, "every TLC case through Time/Validity/Serial (DER wrapper built by the harness)")

    def corrupt(cs):
        for x in cs:
            if x["op"] == "time" and x["valid"]:
                y = dict(x)
                y["str"] = list(y["str"])
                y["str"][-2] = "1" if y["str"][-2] != "1" else "2"
                return y
    vlib.selfcheck_replay(c, "x509time", cases, corrupt, "time.str")
    # native sweep over calendar days against the Rust transcription of Enc (itself tied to TLC's table above)
    sn = vh(["native", "x509time", "--stride", 53 if quick else 1, "--seed", seed], timeout=3000)
    c.add_harness(sn, "native sweep: every calendar day of the swept years x 3 seconds: encode = Enc, decode(encode) = id, day+1 rejected")
    def mut(items):
        for k, it in enumerate(items):
            if it["ev"] == "enc":
                it["str"][-2] = "1" if it["str"][-2] != "1" else "2"
                return k + 1
        return 0
    seeds = [seed * 1000 + i for i in range(2 if quick else 30)]
    vlib.trace_rounds(c, "Trace_X509Time", "x509time", seeds, 3000 if quick else 20000, mut)
    c.cov["rule"] = ("cases = every state of the three X509Time models; non-trivial = distinct case; the native sweep adds every day of "
                     "every (quick: every 53rd) year 1..9999; traces = random times, mutated time strings, windows and 1-20 octet serials")
    c.cov["exhaustive"] = True
    c.assumptions += ["year 0000 may be accepted by the decoder (proleptic calendar); zero's decimal text is only required to round-trip"]
    return c.finish()


replay = vlib.generic_replay(PROP, "x509time")
