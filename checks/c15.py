"""C15 — SLURM: a payload is dropped exactly when some filter of its kind matches (spec/Slurm.tla)."""
import json
import os
import vlib
from vlib import Check, tlc, tlc_must_hold, vh, workdir, write_ndjson, cfg_with

PROP = "C15"


def run(tier, seed):
    c = Check(PROP, tier, seed, "model_checking")
    wd = workdir(PROP)
    quick = tier == "quick"
    mf = 2 if quick else 3
    r = tlc("Slurm", cfg_with(wd, "Slurm.cfg", "slurm.cfg", [("MaxFilters = 2", f"MaxFilters = {mf}")]),
            workers=4 if quick else 12, xmx="8g", timeout=3000)
    tlc_must_hold(r, "Slurm")
    vlib.require_coverage(r, ["AddFilter"], "Slurm")
    c.add_tlc(r, f"every filter list up to {mf} filters (39 filter shapes) x 22 payload items: DropLaw EmptyMatchesNothing Monotone")
    cases = r.replay
    path = write_ndjson(os.path.join(wd, "cases.ndjson"), cases)
    s = vh(["replay", "slurm", path], timeout=3000)
    c.add_harness(s, "every case as a real SlurmFile in 2 address renderings: drop_payload, JSON round trip (compact+pretty), iter_payload")

    # the other half of the statement: assertion lists (SlurmAssert.tla), grown one assertion at a time
    ma = 2
    r2 = tlc("MC_SlurmAssert", "MC_SlurmAssert.cfg", workers=4 if quick else 12, xmx="6g", timeout=3000)
    tlc_must_hold(r2, "SlurmAssert")
    vlib.require_coverage(r2, ["Add"], "SlurmAssert")
    c.add_tlc(r2, f"every assertion list up to {ma} assertions out of 222 (prefix length 0 / middle / host x maximum length absent / same / longer / "
                  "top, AS 0 / ordinary / 2^32-1, key information of 0..4 octets, provider lists empty / unsorted / with a repeat, with and "
                  "without comment): YieldsEach RoundTrip")
    acases = r2.replay if not quick else [x for i, x in enumerate(r2.replay) if len(x["alist"]) < 2 or i % 4 == seed % 4]
    s2 = vh(["replay", "slurm", write_ndjson(os.path.join(wd, "assert.ndjson"), acases)], timeout=3000)
    c.add_harness(s2, "every list as a real SlurmFile: iter_payload yields each assertion's item with exactly its fields, the lists one after the "
                      "other; JSON (compact and pretty) parses back to an equal file that yields the same items")

    def corrupt_a(cs):
        for x in cs:
            if len(x["alist"]) == 1 and x["alist"][0]["kind"] == "bgpsec" and x["alist"][0]["keylen"] == 2:
                y = json.loads(json.dumps(x))
                y["yield"][0]["keylen"] = 3
                return y
    vlib.selfcheck_replay(c, "slurm", acases, corrupt_a, "assert.yield")

    def corrupt(cs):
        for x in cs:
            if x["drop"] and len(x["file"]) == 1:
                y = dict(x)
                y["drop"] = False
                return y
    vlib.selfcheck_replay(c, "slurm", cases, corrupt, "drop")

    def mut(items):
        for k, it in enumerate(items):
            if it["res"]:
                it["res"] = False
                return k + 1
        return 0
    seeds = [seed * 1000 + i for i in range(2 if quick else 30)]
    vlib.trace_rounds(c, "Trace_Slurm", "slurm", seeds, 1500 if quick else 10000, mut)
    c.cov["rule"] = ("cases = every state of the filter-list machine (all present/absent criteria combinations over 6 prefixes in 2 families, "
                     "2 ASNs, 2 SKIs) x every payload item; non-trivial = at least one filter; traces = random files with full-size values")
    c.cov["exhaustive"] = True
    return c.finish()


replay = vlib.generic_replay(PROP, "slurm")
