"""C04 — decoders never panic or run away on arbitrary input (spec/Decoders.tla)."""
import os
import vlib
from vlib import Check, tlc, tlc_must_hold, vh, workdir, write_ndjson, cfg_with

PROP = "C04"


def run(tier, seed):
    c = Check(PROP, tier, seed, "fault_enumeration")
    wd = workdir(PROP)
    quick = tier == "quick"
    workers = 6 if quick else 14
    sites = 6 if quick else 40
    r = tlc("MC_Decoders", cfg_with(wd, "MC_Decoders.cfg", "dec.cfg", [("Sites = 12", f"Sites = {sites}")]),
            workers=workers, xmx="12g", timeout=5400)
    tlc_must_hold(r, "Decoders")
    vlib.require_coverage(r, ["Mutate", "Decode"], "Decoders")
    c.add_tlc(r, f"adversary plans: 11 entry points x strict/relaxed x 33 mutation kinds x {sites} sites x 3 variants; capture/re-decode "
                 "table (CapImpliesRed); TypeOk; every run plan terminates (liveness under weak fairness of Decode)")
    cases = r.replay
    write_ndjson(os.path.join(wd, "cases.ndjson"), cases)
    # the allocation meter is per process, so the plans can be spread over several harness processes
    s = vlib.vh_parallel("replay", "decoders", cases, wd, jobs=12 if quick else 14, extra=["--sites", str(sites)], timeout=5400)
    if not s["violations"] and (s.get("outcome_value", 0) < 500 or s.get("outcome_error", 0) < 5000 or s.get("capred_lookup_reached", 0) < 4):
        raise vlib.ToolError("vacuous: too few decoded values / refusals / revocation lookups reached")
    c.add_harness(s, "every plan applied to every valid object of the entry point's type (objects built with real keys plus the repository's "
                     "captured files; TLV tree re-encoded with all enclosing lengths fixed up), decoded strict/relaxed, then every accessor, "
                     "iterator, validator and re-encoder of whatever decoded — under panic capture, an allocation meter (peak <= 64 n + 1 MiB, "
                     "total <= 4096 n + 16 MiB) and a 60 s watchdog; capture/re-decode cells with BER-shaped list entries")

    def corrupt(cs):
        # a plan for an entry point that does not exist must be reported by the replayer as not applicable, and a wrong table cell as refused
        for x in cs:
            if x["op"] == "capred" and x["region"] == "MsgCrlRevoked" and x["capmode"] == "der" and x["shape"] == "indef":
                y = dict(x)
                y["accepts"] = True
                return y
    vlib.selfcheck_replay(c, "decoders", cases, corrupt, "capred.accepts")

    def mut(items):
        for k, it in enumerate(items):
            if it["outcome"] == "value":
                it["outcome"] = "panic"
                return k + 1
        return 0
    seeds = [seed * 1000 + i for i in range(2 if quick else 12)]
    vlib.trace_rounds(c, "Trace_Decoders", "decoders", seeds, 1500 if quick else 20000, mut)
    c.cov["rule"] = ("cases = every adversary plan of the model (single mutations; the trace driver adds random 1-3 fold mutations plus "
                     "byte-level damage) and every cell of the capture/re-decode table; an evaluation = one mutated input decoded and, when "
                     "it decodes, swept; non-trivial = plans applicable to at least one corpus object")
    c.cov["exhaustive"] = False
    c.assumptions += ["'for all byte strings' is approached by structure-preserving mutations of valid objects at a bounded number of sites "
                      "(quick: 6 per object, thorough: 40) plus random multi-mutations; this is fault enumeration, not a proof",
                      "time/memory bounds are budgets: peak live heap <= 64 x input + 1 MiB, total requested <= 4096 x input + 16 MiB, "
                      "3 s + 200 us/byte per input, 60 s watchdog",
                      "the specification contributes the plan space, the capture/re-decode table and the two-outcome decoder; memory "
                      "safety itself is outside what TLC can decide (DESIGN.md)"]
    return c.finish()


def replay(path):
    import json
    with open(path) as f:
        v = json.load(f)
    case = v.get("case") or {}
    inner = case.get("case", case)
    if isinstance(inner, dict) and inner.get("op") in ("plan", "capred"):
        s = vh(["replay", "decoders", write_ndjson(os.path.join(workdir(PROP), "one.ndjson"), [inner]), "--sites", str(v.get("sites", 6))])
        bad = [x for x in s["violations"] if not x["key"].startswith("reencode-after-relaxed-decode")]
        print(json.dumps(bad, indent=1)[:4000])
        if bad:
            print(f"VIOLATION property={PROP} replay={path}")
            return 1
        return 0
    print(json.dumps(v, indent=1)[:4000])
    return 0
