"""C08 — RTR server answers depend on the query bytes, not on how they arrive (spec/RtrServerConn.tla)."""
import json
import os
import vlib
from vlib import Check, tlc, tlc_must_hold, vh, workdir, write_ndjson

PROP = "C08"
MC = ('CONSTANTS StreamId = {sid} MaxNotify = {mn} HeaderSurvives = TRUE\nCONSTANT Queries <- QueriesDef\nSPECIFICATION Spec\nVIEW view\n'
      'INVARIANTS AnswersInOrder NoLoss NoGarbage Complete NotifyCount Emit\nPROPERTY AllAnswered\nCHECK_DEADLOCK FALSE\n')
TR = ('CONSTANTS StreamId = {sid} MaxNotify = 1000000 HeaderSurvives = TRUE\nCONSTANT Queries <- QueriesDef\nSPECIFICATION TraceSpec\n'
      'INVARIANTS AnswersInOrder NoLoss NoGarbage NotifyCount\nPOSTCONDITION TraceAccepted\nCHECK_DEADLOCK FALSE\n')


def run(tier, seed):
    c = Check(PROP, tier, seed, "model_checking")
    wd = workdir(PROP)
    quick = tier == "quick"
    workers = 6 if quick else 14
    all_cases = []
    for sid in (1, 2, 3, 4):
        mn = 2 if quick else 3
        cfg = os.path.join(wd, f"mc{sid}.cfg")
        open(cfg, "w").write(MC.format(sid=sid, mn=mn))
        r = tlc("MC_RtrServerConn", cfg, workers=workers, xmx="8g", timeout=3000)
        tlc_must_hold(r, f"RtrServerConn stream {sid}")
        vlib.require_coverage(r, ["Deliver", "Notify", "ClientClose", "SelectNotify", "ReadHeader", "ReadBody", "ReadEof", "Respond"], f"RtrServerConn stream {sid}")
        c.add_tlc(r, f"stream {sid}: every fragmentation at byte granularity x <= {mn} notifications x client close: "
                     "AnswersInOrder NoLoss NoGarbage Complete NotifyCount + liveness AllAnswered")
        cases = r.replay
        all_cases += cases
        path = write_ndjson(os.path.join(wd, f"cases{sid}.ndjson"), cases)
        tp = os.path.join(wd, f"trace-scripts{sid}.ndjson")
        s = vh(["replay", "rtrconn", path, "--trace-out", tp, "--trace-every", 3 if quick else 1], timeout=3000)
        c.add_harness(s, f"stream {sid}: one script per model state run against the real Server on a controlled socket; output parsed and compared")
        tcfg = os.path.join(wd, f"tr{sid}.cfg")
        open(tcfg, "w").write(TR.format(sid=sid))
        tr = vlib.validate_trace("Trace_RtrServerConn", tp, cfg=tcfg, xmx="6g", timeout=3000)
        c.add_tlc(tr.run, f"stream {sid}: trace validation of the scripted runs (socket reads/writes vs spec actions)")
        if tr.accepted:
            c.cov["traces_validated_against_impl"] += int(s.get("scripts_traced", 0))
        else:
            ev = vlib.trace_line(tp, tr.rejected_at)
            c.violation(f"trace:rtrconn:{ev.get('ev') if ev else '?'}", f"Trace_RtrServerConn (stream {sid}) cannot explain line {tr.rejected_at}: {json.dumps(ev)}",
                        {"stream": sid, "line": tr.rejected_at, "event": ev,
                         "context": [vlib.trace_line(tp, k) for k in range(max(1, tr.rejected_at - 12), tr.rejected_at + 1)]})
        # random chunkings / notify storms
        queries = cases[0]["queries"]
        def mut(items):
            for j, it in enumerate(items):
                if it["ev"] == "read" and it["n"] > 1:
                    it["n"] -= 1
                    return j + 1
            return 0
        vlib.trace_rounds(c, "Trace_RtrServerConn", "rtrconn", [seed * 100 + sid], 150 if quick else 1500, mut if sid == 1 else None, cfg=tcfg,
                          extra_args=["--queries", json.dumps(queries)], xmx="6g")

    def corrupt(cs):
        for x in cs:
            if len(x["answers"]) >= 2 and len(x["script"]) >= 2 and not any(a[0] == "close" for a in x["script"]):
                y = dict(x)
                y["answers"] = list(reversed(x["answers"]))
                return y
    vlib.selfcheck_replay(c, "rtrconn", all_cases, corrupt, "answers")
    c.cov["rule"] = ("cases = for every distinct state of the byte-level connection model a shortest environment script (Deliver(n) / Notify / "
                     "Close) reaching it, for 4 query streams (well-formed, bad length, unknown type, version switch, version too high, "
                     "error PDU); non-trivial = at least two environment actions; traces = all socket reads and writes of those runs "
                     "plus random chunkings with notify storms")
    c.cov["exhaustive"] = True
    c.assumptions += ["single-threaded scheduler (current_thread runtime); a response is written without intervening reads",
                      "malformed queries are given exactly the bytes the server consumes for them (8), so streams stay aligned"]
    return c.finish()


def replay(path):
    with open(path) as f:
        v = json.load(f)
    case = v.get("case")
    if isinstance(case, dict) and case.get("op") == "conn":
        s = vh(["replay", "rtrconn", write_ndjson(os.path.join(workdir(PROP), "one.ndjson"), [case])])
        print(json.dumps(s["violations"], indent=1))
        if s["violations"]:
            print(f"VIOLATION property={PROP} replay={path}")
            return 1
        return 0
    print(json.dumps(v, indent=1))
    return 0
