CONSTANTS MaxDev = 1 MaxSteps = 2 CheckAll = FALSE Splits = {} CancelSafe = FALSE
SPECIFICATION Spec
INVARIANTS OkMeansClean
CHECK_DEADLOCK FALSE
