SPECIFICATION Spec
INVARIANTS TrimLaw DerLaw OrderLaw Emit
CHECK_DEADLOCK FALSE
