----------------------------- MODULE MC_SignedObj -----------------------------
EXTENDS SignedObj, Json
Emit == PrintT(<<"REPLAY", ToJson([op |-> "sigobj", kind |-> obj.kind, size |-> obj.size, fam |-> obj.fam, pol |-> obj.pol, alg |-> obj.alg, f |-> obj.f, accept |-> Accept(obj), relaxed |-> DecidedRelaxed(obj)])>>)
=============================================================================
