SPECIFICATION Spec
CONSTANT MaxSteps = 2
INVARIANTS SidIsSki Emit
PROPERTY OneField
CHECK_DEADLOCK FALSE
