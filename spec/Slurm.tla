------------------------------- MODULE Slurm -------------------------------
(***************************************************************************)
(* SLURM local exceptions (RFC 8416 + ASPA, src/slurm.rs).  A file is a     *)
(* list of filters of three kinds, built one filter at a time; the law is   *)
(* the statement: an item is dropped exactly when some filter OF ITS KIND   *)
(* matches; a filter with no criteria matches nothing.  ImplDrop            *)
(* transcribes ValidationOutputFilters::drop_payload and the per-kind       *)
(* drop_* functions (the (Some,Some)/(Some,None)/(None,Some)/(None,None)    *)
(* tables).  Prefixes are <<addr, len>> over a Wb-bit space.                *)
(***************************************************************************)
EXTENDS Naturals, Sequences, FiniteSets, TLC, Json
CONSTANTS MaxFilters, Wb
NoneK == "none"        \* absent criterion, one marker per value type
NoneP == <<9, 9, 9>>
NoneA == 0
\* <<family, addr, len>>: /0, two /1 and a /2 inside the first /1 in family 4; /0 and a /2 in family 6
Prefixes == {<<4, 0, 0>>, <<4, 0, 1>>, <<4, 2, 1>>, <<4, 0, 2>>, <<6, 0, 0>>, <<6, 0, 2>>}
PRange(p) == p[2]..(p[2] + 2^(Wb - p[3]) - 1)
Covers(p, q) == p[1] = q[1] /\ PRange(q) \subseteq PRange(p)
Asns == {1, 2}
Skis == {"k1", "k2"}
PrefixFilters == {[kind |-> "prefix", prefix |-> p, asn |-> a] : p \in Prefixes \cup {NoneP}, a \in Asns \cup {NoneA}}
BgpsecFilters == {[kind |-> "bgpsec", ski |-> k, asn |-> a] : k \in Skis \cup {NoneK}, a \in Asns \cup {NoneA}}
AspaFilters   == {[kind |-> "aspa", customer |-> a] : a \in Asns \cup {NoneA}}
Filters == PrefixFilters \cup BgpsecFilters \cup AspaFilters
Items == {[kind |-> "prefix", prefix |-> p, asn |-> a] : p \in Prefixes, a \in Asns}
    \cup {[kind |-> "bgpsec", ski |-> k, asn |-> a] : k \in Skis, a \in Asns}
    \cup {[kind |-> "aspa", customer |-> a] : a \in Asns}

\* ---- the statement
Match(f, it) ==
    /\ f.kind = it.kind
    /\ CASE f.kind = "prefix" -> /\ ~(f.prefix = NoneP /\ f.asn = NoneA)
                                 /\ (f.prefix = NoneP \/ Covers(f.prefix, it.prefix))
                                 /\ (f.asn = NoneA \/ f.asn = it.asn)
         [] f.kind = "bgpsec" -> /\ ~(f.ski = NoneK /\ f.asn = NoneA)
                                 /\ (f.ski = NoneK \/ f.ski = it.ski) /\ (f.asn = NoneA \/ f.asn = it.asn)
         [] f.kind = "aspa"   -> f.customer # NoneA /\ f.customer = it.customer
Drop(file, it) == \E i \in 1..Len(file) : Match(file[i], it)

\* ---- transcription of the implementation's decision tables
Tbl(c1, c2) == CASE c1 # NoneK /\ c2 # NoneK -> (c1 = "t") /\ (c2 = "t")
                 [] c1 # NoneK /\ c2 = NoneK -> c1 = "t"
                 [] c1 = NoneK /\ c2 # NoneK -> c2 = "t"
                 [] OTHER -> FALSE
B(cond) == IF cond THEN "t" ELSE "f"
ImplFilterDrop(f, it) ==
    IF f.kind # it.kind THEN FALSE
    ELSE CASE f.kind = "prefix" ->
                Tbl(IF f.prefix = NoneP THEN NoneK ELSE B(Covers(f.prefix, it.prefix)),
                    IF f.asn = NoneA THEN NoneK ELSE B(f.asn = it.asn))
           [] f.kind = "bgpsec" ->
                Tbl(IF f.ski = NoneK THEN NoneK ELSE B(f.ski = it.ski),
                    IF f.asn = NoneA THEN NoneK ELSE B(f.asn = it.asn))
           [] f.kind = "aspa" -> IF f.customer = NoneA THEN FALSE ELSE f.customer = it.customer
Of(file, k) == SelectSeq(file, LAMBDA f : f.kind = k)
ImplDrop(file, it) ==
    \/ \E i \in 1..Len(Of(file, "prefix")) : ImplFilterDrop(Of(file, "prefix")[i], it)
    \/ \E i \in 1..Len(Of(file, "bgpsec")) : ImplFilterDrop(Of(file, "bgpsec")[i], it)
    \/ \E i \in 1..Len(Of(file, "aspa"))   : ImplFilterDrop(Of(file, "aspa")[i], it)

VARIABLES file, item
vars == <<file, item>>
Init == file = <<>> /\ item \in Items
AddFilter == Len(file) < MaxFilters /\ \E f \in Filters : file' = Append(file, f) /\ item' = item
Next == AddFilter
Spec == Init /\ [][Next]_vars
DropLaw == ImplDrop(file, item) <=> Drop(file, item)
EmptyMatchesNothing == \A f \in Filters :
    (f.kind = "prefix" /\ f.prefix = NoneP /\ f.asn = NoneA) \/ (f.kind = "bgpsec" /\ f.ski = NoneK /\ f.asn = NoneA)
      \/ (f.kind = "aspa" /\ f.customer = NoneA) => ~Match(f, item)
Monotone == [][Drop(file, item) => Drop(file', item')]_vars      \* adding filters never un-drops
Emit == PrintT(<<"REPLAY", ToJson([op |-> "drop", file |-> file, item |-> item, drop |-> Drop(file, item)])>>)
=============================================================================
