------------------------------- MODULE CaXmlMsg -------------------------------
(***************************************************************************)
(* The case machine of CaXml (part 3).  A user of the public API picks a    *)
(* message variant, a list shape, whether the optional fields are present,  *)
(* and puts an arbitrary admitted string into one field (the focus).  The   *)
(* message must be written as well-formed XML in which the focus attribute  *)
(* appears as Esc("attr", value), and must parse back to an equal message.  *)
(* A second family of states are the parser's fault plans: one mutation of  *)
(* a written document; the parser must return, and whatever it accepts must *)
(* itself survive write -> parse unchanged.                                 *)
(***************************************************************************)
EXTENDS CaXml
CONSTANT MaxStr
\* characters the focus string is drawn from, per domain (space: attribute-value normalisation must not bite)
\* "x254" stands for 254 letters: with one or two more characters a handle reaches 255 (the longest admitted) and 256 (refused)
FocusChars(d) == CASE d = "free" -> {"a", "<", ">", "&", "\"", "'", ";", " "}
                   [] d = "handle" -> {"a", "-", "/", "_", "x254"}
                   [] OTHER -> {"a", "&", "'", ";"}
DomainOf(v, name) == (CHOOSE f \in Fields(v) : f.name = name).domain
\* "x1023" stands for 1023 letters: tags (RFC 8181) and class names (RFC 6492) are tokens of at most 1024 characters, so with
\* one more character the longest protocol-valid value is reached (beyond it the harness asks for nothing)
FocusCharsOf(v, name) == FocusChars(DomainOf(v, name)) \cup (IF name \in {"tag", "class_name"} THEN {"x1023"} ELSE {})
\* the forms a URI's scheme and authority may take: as usually written, in capitals (schemes and host names are
\* case-insensitive, so the API admits them; whether the value keeps its spelling is for the round trip to show), and for the
\* service URI the two schemes RFC 8183 allows
PForms(name) == CASE name = "service_uri" -> {"plain", "caps", "https"}
                  \* (a publication base is a directory; the API also takes one written without its final slash)
                  [] name = "sia_base" -> {"plain", "caps", "noslash"}
                  [] name \in {"rrdp_notification_uri", "cert_url", "issued_cert_url", "uri"} -> {"plain", "caps"}
                  [] OTHER -> {"plain"}
\* what the field holds for a focus string: free text is the string itself, URIs get it as their last path segment
Prefix(v, name, pf) ==
    CASE name = "service_uri" -> (CASE pf = "caps" -> <<"HTTP://Host.Example/up/">> [] pf = "https" -> <<"https://host.example/up/">>
                                    [] OTHER -> <<"http://host.example/up/">>)
      [] name = "sia_base" -> IF pf = "caps" THEN <<"RSYNC://Host.Example/module/">> ELSE <<"rsync://host.example/module/">>
      [] name = "rrdp_notification_uri" -> IF pf = "caps" THEN <<"HTTPS://Host.Example/rrdp/">> ELSE <<"https://host.example/rrdp/">>
      [] name \in {"cert_url", "issued_cert_url", "uri"} ->
            IF pf = "caps" THEN <<"RSYNC://Host.Example/module/dir/">> ELSE <<"rsync://host.example/module/dir/">>
      [] OTHER -> <<>>
Suffix(v, name, pf) ==
    CASE name = "sia_base" -> IF pf = "noslash" THEN <<>> ELSE <<"/">>
      [] name \in {"cert_url", "issued_cert_url"} -> <<".cer">>
      [] OTHER -> <<>>
FieldValue(v, name, str, pf) == Prefix(v, name, pf) \o str \o Suffix(v, name, pf)
ListLike == {"prov_list_response", "pub_list_reply", "pub_delta", "pub_error_reply"}
\* the shape of an issuance request picks the form of its resource limit: one family, two, all three, one family limited to
\* the EMPTY set (RFC 6492: "no resources of that kind", distinct from an absent limit), all three limited to the empty set
LimitLike == {"prov_issue"}
MutKinds == {"truncate", "del-byte", "flip-lt", "flip-gt", "flip-quote", "flip-amp", "nul-byte", "high-byte",
             "attr-empty", "attr-short", "attr-nonascii", "attr-dup", "attr-unknown", "attr-drop",
             "entity-unknown", "entity-numeric", "entity-unterminated", "text-amp", "text-lt", "text-junk", "text-empty",
             "swap-close", "drop-close", "dup-elem", "drop-elem", "rename-elem",
             "insert-comment", "insert-cdata", "insert-pi", "insert-doctype", "deep-nest", "ns-prefix", "ns-other", "bom", "trailing-junk"}
VARIABLES op, variant, focus, str, shape, opt, mut, pos, pform
vars == <<op, variant, focus, str, shape, opt, mut, pos, pform>>
Init ==
    \/ /\ op = "msg" /\ variant \in Variants /\ opt \in BOOLEAN
       /\ shape \in (IF variant \in ListLike THEN 0..3 ELSE IF variant \in LimitLike THEN 0..4 ELSE {1})
       /\ focus \in Focusable(variant) \cup {"none"} /\ pform \in PForms(focus)
       /\ str = <<>> /\ mut = "none" /\ pos = 0
    \/ /\ op = "mutate" /\ variant \in Variants /\ opt = TRUE /\ shape = 2
       /\ focus = "none" /\ str = <<>> /\ mut \in MutKinds /\ pos \in 0..4 /\ pform = "plain"
Grow == /\ op = "msg" /\ focus # "none" /\ Len(str) < MaxStr
        /\ \E c \in FocusCharsOf(variant, focus) : str' = Append(str, c)
        /\ UNCHANGED <<op, variant, focus, shape, opt, mut, pos, pform>>
Next == Grow
Spec == Init /\ [][Next]_vars
Value == IF focus = "none" THEN <<>> ELSE FieldValue(variant, focus, str, pform)
\* the focus attribute as it must appear between the quotes
RawExpected == Esc("attr", Value)
\* ... and a conforming reader gets the value back
FocusReadsBack == Read("attr", RawExpected) = Value
=============================================================================
