------------------------------ MODULE RtrFanout ------------------------------
(***************************************************************************)
(* One RTR server, several connections (src/rtr/server.rs: Server::run,     *)
(* Connection::run, NotifySender / NotifyReceiver).                         *)
(*                                                                         *)
(* Server::run takes sockets from a listener and spawns one task per       *)
(* socket; every task owns a receiver of ONE broadcast channel of capacity *)
(* one, subscribed when the socket is accepted.  The environment accepts    *)
(* sockets, writes whole queries, closes sockets and calls notify(); the    *)
(* scheduler runs any task that can make a step.  One action per turn of a  *)
(* connection's loop (recv = select(notify, header), notify polled first).  *)
(*                                                                         *)
(* What a user relies on: connections do not influence each other           *)
(* (Isolated, Confluent: the outputs at quiescence are a function of each   *)
(* connection's own events and of the notifications issued while it was     *)
(* subscribed), a notification reaches every subscribed connection exactly  *)
(* once per burst (NotifyFansOut, NoSpuriousNotify), responses go to the    *)
(* connection that asked and in order (AnswersOwn), a notification sent     *)
(* before the listener loop took a socket is not delivered to it            *)
(* (SubscribedAtTake).                                                     *)
(***************************************************************************)
EXTENDS Naturals, Sequences, FiniteSets, TLC
CONSTANTS Conns,        \* connection identifiers
          MaxEvents,    \* environment events per behaviour
          Spawned       \* TRUE: one task per socket (the code); FALSE: the listener loop serves a socket itself (a design error, for MC_RtrFanoutSerial)
VARIABLES st,       \* per connection: "absent" | "offered" (in the listener, not yet taken) | "open" | "eof" (client closed, server has
                    \*                 not noticed) | "closed"
          pend,     \* per connection: a notification is waiting in its receiver (capacity one: a burst collapses)
          inq,      \* per connection: whole queries written by the client and not yet read
          out,      \* per connection: what the server wrote: <<"resp", n>> (answer to the connection's n-th query) or <<"notify">>
          asked,    \* per connection: queries written so far
          seen,     \* ghost, per connection: notifications issued while its receiver existed
          queue,    \* the listener: sockets offered and not yet taken, in order
          env       \* ghost: the environment events so far
vars == <<st, pend, inq, out, asked, seen, queue, env>>

Init == /\ st = [c \in Conns |-> "absent"] /\ pend = [c \in Conns |-> FALSE] /\ inq = [c \in Conns |-> <<>>]
        /\ out = [c \in Conns |-> <<>>] /\ asked = [c \in Conns |-> 0] /\ seen = [c \in Conns |-> 0] /\ queue = <<>> /\ env = <<>>

More == Len(env) < MaxEvents
Subscribed(c) == st[c] \in {"open", "eof"}
\* ---- environment
Offer(c) == /\ More /\ st[c] = "absent"
            /\ st' = [st EXCEPT ![c] = "offered"] /\ queue' = Append(queue, c)
            /\ env' = Append(env, <<"offer", c>>) /\ UNCHANGED <<pend, inq, out, asked, seen>>
\* the client may write before the server has taken the socket: the bytes wait in the socket
Ask(c) == /\ More /\ st[c] \in {"offered", "open"}
          /\ asked' = [asked EXCEPT ![c] = @ + 1]
          /\ inq' = [inq EXCEPT ![c] = Append(@, asked[c] + 1)]
          /\ env' = Append(env, <<"ask", c>>) /\ UNCHANGED <<st, pend, out, seen, queue>>
Hangup(c) == /\ More /\ st[c] = "open"
             /\ st' = [st EXCEPT ![c] = "eof"]
             /\ env' = Append(env, <<"close", c>>) /\ UNCHANGED <<pend, inq, out, asked, seen, queue>>
\* notify(): every receiver that exists gets (or keeps) one waiting notification
Notify == /\ More
          /\ pend' = [c \in Conns |-> pend[c] \/ Subscribed(c)]
          /\ seen' = [c \in Conns |-> IF Subscribed(c) THEN seen[c] + 1 ELSE seen[c]]
          /\ env' = Append(env, <<"notify", 0>>) /\ UNCHANGED <<st, inq, out, asked, queue>>
\* ---- the listener loop: take the next socket, subscribe, spawn
\* (Spawned = FALSE: the loop serves the socket itself and takes the next one only when that connection has ended)
Take == /\ queue # <<>>
        /\ Spawned \/ \A d \in Conns : st[d] \notin {"open", "eof"}
        /\ st' = [st EXCEPT ![Head(queue)] = "open"] /\ queue' = Tail(queue)
        /\ UNCHANGED <<pend, inq, out, asked, seen, env>>
\* ---- one turn of a connection's loop
Turn(c) == /\ Subscribed(c)
           /\ IF pend[c]
              THEN \* select polls the receiver first: a Serial Notify goes out
                   /\ pend' = [pend EXCEPT ![c] = FALSE]
                   /\ out' = [out EXCEPT ![c] = Append(@, <<"notify">>)]
                   /\ UNCHANGED <<st, inq>>
              ELSE IF inq[c] # <<>>
              THEN /\ out' = [out EXCEPT ![c] = Append(@, <<"resp", Head(inq[c])>>)]
                   /\ inq' = [inq EXCEPT ![c] = Tail(@)]
                   /\ UNCHANGED <<st, pend>>
              ELSE /\ st[c] = "eof"          \* read returns 0: the task ends, its receiver is dropped
                   /\ st' = [st EXCEPT ![c] = "closed"]
                   /\ UNCHANGED <<pend, inq, out>>
           /\ UNCHANGED <<asked, seen, queue, env>>
Internal == Take \/ \E c \in Conns : Turn(c)
Environment == Notify \/ \E c \in Conns : Offer(c) \/ Ask(c) \/ Hangup(c)
Next == Internal \/ Environment
Spec == Init /\ [][Next]_vars /\ WF_vars(Take) /\ \A c \in Conns : WF_vars(Turn(c))

-----------------------------------------------------------------------------
Quiescent == ~ENABLED Internal
Responses(c) == SelectSeq(out[c], LAMBDA x : x[1] = "resp")
Notifies(c) == Len(SelectSeq(out[c], LAMBDA x : x[1] = "notify"))
\* responses go to the connection that asked, once each, in order; at quiescence none is outstanding
AnswersOwn == \A c \in Conns :
    /\ \A i \in 1..Len(Responses(c)) : Responses(c)[i] = <<"resp", i>>
    /\ Len(Responses(c)) <= asked[c]
    /\ (Quiescent /\ Spawned) => Len(Responses(c)) = asked[c]
\* no Serial Notify without a notification issued while the connection was subscribed, never more than were issued
NoSpuriousNotify == \A c \in Conns : Notifies(c) <= seen[c]
\* a notification issued before the listener loop took the socket is not for that connection
SubscribedAtTake == \A c \in Conns : st[c] \in {"absent", "offered"} => ~pend[c] /\ out[c] = <<>> /\ seen[c] = 0
\* at quiescence every subscribed connection has told its client about the notifications it saw (a burst may collapse, not vanish)
NotifyFansOut == (Quiescent /\ Spawned) => \A c \in Conns : (seen[c] > 0) => Notifies(c) > 0
\* isolation: an event or a step of one connection changes nothing about the others
Isolated == [][\A c \in Conns : (Ask(c) \/ Hangup(c) \/ Turn(c)) =>
                  \A d \in Conns \ {c} : st'[d] = st[d] /\ pend'[d] = pend[d] /\ inq'[d] = inq[d] /\ out'[d] = out[d]]_vars
\* every query is answered and every notification announced, whatever the other connections do
Served == \A c \in Conns : [](st[c] # "absent" => <>(inq[c] = <<>> /\ ~pend[c]))
=============================================================================
