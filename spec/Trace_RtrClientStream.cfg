CONSTANTS MaxDev = 1000000 MaxSteps = 1000000 CheckAll = TRUE Splits = {} CancelSafe = FALSE
SPECIFICATION TraceSpec
INVARIANTS OkMeansClean ErrMeansDirty StopsAtWrong
PROPERTY TVersionStable
POSTCONDITION TraceAccepted
CHECK_DEADLOCK FALSE
