------------------------------ MODULE MC_RrdpDoc ------------------------------
EXTENDS RrdpDoc, Json
Emit == PrintT(<<"REPLAY", ToJson([op |-> "doc", kind |-> kind, serial |-> serial, sermax |-> SerMax, elems |-> elems,
          snapAuth |-> snapAuth, base |-> base, limit |-> limit,
          chain_ok |-> IF kind = "notification" THEN Consecutive(Retained(DSerials, limit)) ELSE TRUE,
          retained |-> IF kind = "notification" THEN Retained(DSerials, limit) ELSE <<>>,
          origins_ok |-> IF kind = "notification" THEN OriginsMatch(base, snapAuth, DAuths) ELSE TRUE])>>)
\* a notification with so many delta entries that the file is larger than the budget of any single element (each element
\* has its own budget: a library-written file must parse back however many small elements it has)
EmitBulk == (kind = "notification" /\ elems = <<>> /\ serial = 0 /\ snapAuth = "a" /\ base = "a" /\ limit = NoneL) =>
               PrintT(<<"REPLAY", ToJson([op |-> "bulk", kind |-> "notification", n |-> 9000])>>)
\* keep the notification part small: only a few (snapAuth, base, limit) combinations for the other kinds
Slim == /\ (kind # "notification" => (snapAuth = "a" /\ base = "a" /\ limit = NoneL))
        \* the look-alike authorities "ax" / "ap" are only compared against the base "a", without a limit
        /\ base \notin {"ax", "ap"}
        /\ ((snapAuth \in {"ax", "ap"} \/ \E i \in 1..Len(elems) : elems[i].t = "delta" /\ elems[i].auth \in {"ax", "ap"})
              => (base = "a" /\ limit = NoneL /\ serial = 0))
=============================================================================
