------------------------------ MODULE MC_RrdpDoc ------------------------------
EXTENDS RrdpDoc, Json
Emit == PrintT(<<"REPLAY", ToJson([op |-> "doc", kind |-> kind, serial |-> serial, sermax |-> SerMax, elems |-> elems,
          snapAuth |-> snapAuth, base |-> base, limit |-> limit,
          chain_ok |-> IF kind = "notification" THEN Consecutive(Retained(DSerials, limit)) ELSE TRUE,
          retained |-> IF kind = "notification" THEN Retained(DSerials, limit) ELSE <<>>,
          origins_ok |-> IF kind = "notification" THEN OriginsMatch(base, snapAuth, DAuths) ELSE TRUE])>>)
\* keep the notification part small: only a few (snapAuth, base, limit) combinations for the other kinds
Slim == kind # "notification" => (snapAuth = "a" /\ base = "a" /\ limit = NoneL)
=============================================================================
