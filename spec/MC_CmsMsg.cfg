CONSTANT MaxDev = 1
SPECIFICATION Spec
CONSTRAINT Slim
INVARIANTS SinglePoint Emit
PROPERTY Monotone
CHECK_DEADLOCK FALSE
