CONSTANT MaxDev = 1
SPECIFICATION Spec
CONSTRAINT Slim
INVARIANTS SinglePoint OnlyWholeIdentity Emit
CHECK_DEADLOCK FALSE
