----------------------------- MODULE MC_TbsBuilder -----------------------------
EXTENDS TbsBuilder, Json
StepJson(s) == [field |-> s[1], value |-> s[2]]
Emit == Buildable => PrintT(<<"REPLAY", ToJson([op |-> "steps", init |-> init,
                                 script |-> [i \in 1..Len(script) |-> StepJson(script[i])],
                                 expect |-> Twin])>>)
view == <<f, init>>
=============================================================================
