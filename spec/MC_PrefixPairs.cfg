CONSTANTS W4 = 2 W6 = 3
SPECIFICATION Spec
INVARIANTS CoversLaw CmpEqLaw CmpAntisym SpecificFirst MLEqLaw MLAntisym OrigEqLaw OrigAntisym Emit
CHECK_DEADLOCK FALSE
