------------------------- MODULE Trace_RtrServerConn -------------------------
(* Validation of what the real server connection did on a controlled socket:   *)
(* the harness' socket logs every poll_read result and every write, the driver *)
(* logs its own Deliver / Notify / Close; "out" events are the PDUs written    *)
(* between two reads, parsed into response entries.  Many scripted runs are    *)
(* concatenated, separated by "reset".                                         *)
EXTENDS RtrServerConn, RtrStreams, Json, IOUtils, TLCExt
CONSTANT StreamId
QueriesDef == StreamsDef[StreamId]
Rec == ndJsonDeserialize(IOEnv.TRACE)
VARIABLE l
tvars == <<vars, l>>
TInit == Init /\ l = 1
Ev == Rec[l]
Entry(e) == IF e.kind = "notify" THEN <<"notify", e.ver>>
            ELSE IF e.kind = "err" THEN <<"err", e.q, e.code, e.ver>> ELSE <<e.kind, e.q, e.ver>>
TNext ==
    /\ l <= Len(Rec)
    /\ l' = l + 1
    /\ CASE Ev.ev = "reset"   -> /\ wire' = 1 /\ sock' = <<>> /\ hdr' = <<>> /\ need' = 0 /\ cur' = 0 /\ due' = FALSE
                                 /\ notifyP' = 0 /\ notifies' = 0 /\ connVer' = NoneV /\ closed' = FALSE /\ eof' = FALSE
                                 /\ out' = <<>> /\ lost' = 0 /\ script' = <<>>
         [] Ev.ev = "deliver" -> Deliver /\ wire' = wire + Ev.n
         [] Ev.ev = "notify"  -> Notify
         [] Ev.ev = "close"   -> ClientClose
         [] Ev.ev = "read"    -> IF Ev.n = 0 THEN ReadEof
                                 ELSE (ReadHeader \/ ReadBody) /\ Len(sock') = Len(sock) - Ev.n
         \* an Error PDU answers the query the specification says it answers; which code / version it carries is RFC 8210
         \* detail beyond the statement and is not compared here (the replay reports a difference as a beyond-property note)
         [] Ev.ev = "out"     -> /\ (Respond \/ SelectNotify) /\ Len(out') = Len(out) + 1
                                 /\ LET w == out'[Len(out')]  g == Entry(Ev) IN
                                      IF w[1] = "err" /\ g[1] = "err" THEN w[2] = g[2]
                                      \* before a version is negotiated the octet of a Serial Notify is the implementation's choice
                                      \* (that it is the same in every run is checked over all runs by the harness)
                                      ELSE IF w[1] = "notify" /\ connVer = NoneV THEN g[1] = "notify"
                                      ELSE w = g
         [] Ev.ev = "end"     -> (Respond /\ closed' /\ out' = out) \/ (closed /\ UNCHANGED vars)
         [] OTHER -> FALSE
TraceSpec == TInit /\ [][TNext]_tvars
TraceAccepted ==
    LET d == TLCGet("stats").diameter IN
    IF d - 1 = Len(Rec) THEN TRUE ELSE Print(<<"TRACE-REJECTED", d>>, FALSE)
=============================================================================
