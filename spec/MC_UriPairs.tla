---------------------------- MODULE MC_UriPairs ----------------------------
(* Two registers holding accepted URIs (built by the same push machine,     *)
(* kept only when well-formed) and a join argument; all pairs are states.   *)
EXTENDS UriAlgebra, Json
CONSTANT MaxLen
JoinArgs == {<<>>, <<"a">>, <<"A", "/">>, <<"a", "/", "b">>, <<".">>, <<".", ".">>, <<"/", "a">>,
             <<"a", "/", "/", "b">>, <<"a", " ">>, <<".", "a">>, <<"b", "/", ".", ".">>}
AllStr(n) == UNION {[1..k -> Chars] : k \in 0..n}
RsyncSet == {t \in AllStr(MaxLen) : RsyncWF(t)}
HttpsSet == {t \in AllStr(MaxLen - 2) : HttpsWF(t)}
VARIABLES x, y, kind
vars == <<x, y, kind>>
Init == \/ kind = "rsync" /\ x \in RsyncSet /\ y \in RsyncSet
        \/ kind = "https" /\ x \in HttpsSet /\ y \in HttpsSet
Next == UNCHANGED vars
Spec == Init /\ [][Next]_vars
R == kind = "rsync"
EqSym == IF R THEN REq(x, y) = REq(y, x) ELSE HEq(x, y) = HEq(y, x)
RelEmptyIff == R => ((RRelativeTo(x, y) = <<>>) <=> REqUpToSlash(x, y))
RelJoin == R => LET p == RRelativeTo(x, y) IN
             (p # NoneU /\ p # <<>>) => (RJoin(y, p) # NoneU /\ REq(RJoin(y, p), x))
ParentAsym == R => ~(RIsParentOf(x, y) /\ RIsParentOf(y, x))
JoinLaws == \A p \in JoinArgs :
    IF R THEN LET j == RJoin(x, p) IN
              j # NoneU => /\ RsyncWF(j) /\ RAuth(j) = RAuth(x) /\ RModule(j) = RModule(x)
                           /\ (p # <<>> => RIsParentOf(x, j) /\ RRelativeTo(j, x) = p)
         ELSE LET j == HJoin(x, p) IN
              j # NoneU => HttpsWF(j) /\ HAuth(j) = HAuth(x) /\ (p # <<>> => HBeneath(x, j))
EqCongr == R => (REq(x, y) => \A p \in JoinArgs : RJoin(x, p) = NoneU \/ REq(RJoin(x, p), RJoin(y, p)))
Emit == PrintT(<<"REPLAY", ToJson([op |-> "pair", kind |-> kind, x |-> x, y |-> y,
          eq |-> IF R THEN REq(x, y) ELSE HEq(x, y),
          rel |-> IF R THEN RRelativeTo(x, y) ELSE NoneU,
          parent_of |-> IF R THEN RIsParentOf(x, y) ELSE FALSE,
          joins |-> {<<p, IF R THEN RJoin(x, p) ELSE HJoin(x, p)>> : p \in JoinArgs}])>>)
=============================================================================
