CONSTANT W = 6
SPECIFICATION Spec
INVARIANTS TypeOK ImplMatches DiffOnly Antisymmetric EqIffSame NoneIffHalf AddLaw Wire WideMatches Emit
PROPERTY AddGreater
CHECK_DEADLOCK FALSE
