---------------------------- MODULE Trace_XmlLimit ----------------------------
(* Budget events recorded by the cfg(rpki_rs_verif) hook in BufReadCounter     *)
(* while the real RRDP parsers read real, random and hostile (endless) inputs. *)
(* Each event must be a step of the budget automaton, and the budget           *)
(* invariants must hold after every step: in particular no byte is consumed    *)
(* while no limit is set, and the trip never exceeds limit + one buffer.       *)
EXTENDS Naturals, Sequences, TLC, Json, IOUtils, TLCExt
Rec == ndJsonDeserialize(IOEnv.TRACE)
BufCap == 8192                           \* capacity of the harness' inner BufReader
VARIABLES l, trip, limit, exposed, parsing, maxUsed
tvars == <<l, trip, limit, exposed, parsing, maxUsed>>
TInit == l = 1 /\ trip = 0 /\ limit = 0 /\ exposed = 0 /\ parsing = FALSE /\ maxUsed = 0
Over == limit > 0 /\ trip > limit
TNext ==
    /\ l <= Len(Rec)
    /\ l' = l + 1
    /\ LET e == Rec[l] IN
       CASE e.ev = "new"     -> trip' = 0 /\ limit' = 0 /\ exposed' = 0 /\ parsing' = TRUE /\ maxUsed' = 0   \* Reader::new
         [] e.ev = "reset"   -> trip' = 0 /\ UNCHANGED <<limit, exposed, parsing, maxUsed>>
         [] e.ev = "limit"   -> limit' = e.n /\ UNCHANGED <<trip, exposed, parsing, maxUsed>>
         [] e.ev = "fill"    -> ~Over /\ exposed' = e.n /\ UNCHANGED <<trip, limit, parsing, maxUsed>>
         [] e.ev = "refuse"  -> Over /\ e.trip = trip /\ e.limit = limit /\ UNCHANGED <<trip, limit, exposed, parsing, maxUsed>>
         [] e.ev = "consume" -> /\ e.n <= exposed /\ trip' = trip + e.n /\ exposed' = exposed - e.n
                                /\ maxUsed' = (IF trip + e.n > maxUsed THEN trip + e.n ELSE maxUsed)
                                /\ UNCHANGED <<limit, parsing>>
         [] e.ev = "done"    -> /\ parsing' = FALSE /\ UNCHANGED <<trip, limit, exposed, maxUsed>>
                                /\ (e.endless => ~e.ok)                          \* an endless input is never accepted ...
                                /\ e.pulled <= e.offset + maxUsed + BufCap        \* ... and given up within budget + one buffer
         [] OTHER -> FALSE
TraceSpec == TInit /\ [][TNext]_tvars
\* no byte is exposed or consumed while no limit is in force
Budgeted == (parsing /\ exposed > 0) => limit > 0
TripBound == limit > 0 => trip <= limit + BufCap
TraceAccepted ==
    LET d == TLCGet("stats").diameter IN
    IF d - 1 = Len(Rec) THEN TRUE ELSE Print(<<"TRACE-REJECTED", d>>, FALSE)
=============================================================================
