CONSTANT Top = 400
SPECIFICATION TraceSpec
POSTCONDITION TraceAccepted
CHECK_DEADLOCK FALSE
