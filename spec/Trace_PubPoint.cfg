SPECIFICATION TraceSpec
INVARIANTS Exact Safe AllOrNothing
POSTCONDITION TraceAccepted
CHECK_DEADLOCK FALSE
