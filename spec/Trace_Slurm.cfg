CONSTANTS MaxFilters = 2 Wb = 10
SPECIFICATION TraceSpec
POSTCONDITION TraceAccepted
CHECK_DEADLOCK FALSE
