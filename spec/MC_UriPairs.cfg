CONSTANTS Chars = {"a", "A", "b", "/", "."} MaxLen = 5
SPECIFICATION Spec
INVARIANTS EqSym RelEmptyIff RelJoin ParentAsym JoinLaws EqCongr Emit
CHECK_DEADLOCK FALSE
