----------------------------- MODULE MC_PubPoint -----------------------------
EXTENDS PubPoint, Json
\* one line per finished walk: the world, the steps in the order taken with their outcomes, the accepted set
Emit == (phase \in {"done", "failed"}) =>
          PrintT(<<"REPLAY", ToJson([op |-> "pubpoint", pp |-> pp, obj |-> obj, devs |-> devs, phase |-> phase,
                                     log |-> [i \in 1..Len(log) |-> [step |-> log[i].step[1], o |-> log[i].step[2], ok |-> log[i].ok]],
                                     accepted |-> accepted])>>)
=============================================================================
