-------------------------- MODULE MC_PrefixTriples --------------------------
(* Transitivity of the three orders over all triples; constructor guards.    *)
EXTENDS PrefixLaws, Json
VARIABLES x, y, z
vars == <<x, y, z>>
Init == x \in MLs /\ y \in MLs /\ z \in MLs
Next == UNCHANGED vars
Spec == Init /\ [][Next]_vars
Le(c) == c \in {"lt", "eq"}
TransP  == (Le(ImplCmp(x[1], y[1])) /\ Le(ImplCmp(y[1], z[1]))) => Le(ImplCmp(x[1], z[1]))
TransML == (Le(ImplCmpML(x, y)) /\ Le(ImplCmpML(y, z))) => Le(ImplCmpML(x, z))
TransO  == \A a, b, c \in {0, 1} :
             (Le(ImplCmpOrigin(<<x, a>>, <<y, b>>)) /\ Le(ImplCmpOrigin(<<y, b>>, <<z, c>>)))
                => Le(ImplCmpOrigin(<<x, a>>, <<z, c>>))
TransCovers == (Covers(x[1], y[1]) /\ Covers(y[1], z[1])) => Covers(x[1], z[1])
=============================================================================
