CONSTANTS Chars = {"a"}
SPECIFICATION Spec
INVARIANTS SafeLaw Emit
CHECK_DEADLOCK FALSE
