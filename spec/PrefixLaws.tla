----------------------------- MODULE PrefixLaws -----------------------------
(***************************************************************************)
(* Address prefixes, max-length prefixes and route origins                  *)
(* (src/resources/addr.rs, src/rtr/payload.rs) over two families with       *)
(* parametric widths W4 < W6.  A prefix is <<fam, addr, len>> with addr a   *)
(* W-bit integer.  ImplCmp/ImplCovers transcribe Ord for Prefix and         *)
(* Prefix::covers; the laws are the property as stated.                     *)
(***************************************************************************)
EXTENDS Naturals, Sequences, FiniteSets, TLC
CONSTANTS W4, W6
Wd(f) == IF f = 4 THEN W4 ELSE W6
Fams == {4, 6}
Host(f, len) == 2^(Wd(f) - len)                       \* size of the host part
\* ---- constructors
NewOk(f, a, len)     == len <= Wd(f) /\ a % Host(f, len) = 0
Relaxed(f, a, len)   == IF len <= Wd(f) THEN <<f, (a \div Host(f, len)) * Host(f, len), len>> ELSE <<>>
Prefixes == {<<f, a, len>> \in Fams \X (0..(2^W6 - 1)) \X (0..W6) :
                 a < 2^Wd(f) /\ len <= Wd(f) /\ a % Host(f, len) = 0}
MinAddr(p) == p[2]
MaxAddr(p) == p[2] + Host(p[1], p[3]) - 1
Range(p)   == MinAddr(p)..MaxAddr(p)
\* ---- the property's covers: address range included (same family)
Covers(p, q) == p[1] = q[1] /\ Range(q) \subseteq Range(p)
\* ---- transcription of Prefix::covers
ImplCovers(p, q) ==
    IF p[1] # q[1] THEN FALSE
    ELSE IF p[3] > q[3] THEN FALSE
    ELSE IF p[3] = Wd(p[1]) /\ q[3] = Wd(p[1]) THEN p = q
    ELSE p[2] = (q[2] \div Host(p[1], p[3])) * Host(p[1], p[3])      \* other & !(MAX >> len)
\* ---- transcription of Ord for Prefix
CmpInt(a, b) == IF a < b THEN "lt" ELSE IF a > b THEN "gt" ELSE "eq"
ImplCmp(p, q) ==
    IF p[1] = 4 /\ q[1] = 6 THEN "lt"
    ELSE IF p[1] = 6 /\ q[1] = 4 THEN "gt"
    ELSE IF p[3] = q[3] THEN CmpInt(p[2], q[2])
    ELSE LET ml == IF p[3] < q[3] THEN p[3] ELSE q[3]
             h  == Host(p[1], ml)
         IN IF p[2] \div h = q[2] \div h THEN CmpInt(q[3], p[3])      \* more specific first
            ELSE CmpInt(p[2], q[2])
Flip(r) == CASE r = "lt" -> "gt" [] r = "gt" -> "lt" [] OTHER -> r

\* ---- max-length prefixes: <<prefix, ml>> with ml = 255 standing for None
NoneML == 255
MLOk(p, ml)   == ml = NoneML \/ (p[3] <= ml /\ ml <= Wd(p[1]))
Resolved(m)   == IF m[2] = NoneML THEN m[1][3] ELSE m[2]
MLs == {<<p, ml>> \in Prefixes \X ((0..W6) \cup {NoneML}) : MLOk(p, ml)}
ImplCmpML(m, n) ==
    LET c == ImplCmp(m[1], n[1]) IN
    IF c # "eq" THEN c
    ELSE IF m[2] = NoneML /\ n[2] = NoneML THEN "eq"
    ELSE IF n[2] = NoneML THEN "lt"
    ELSE IF m[2] = NoneML THEN "gt"
    ELSE CmpInt(n[2], m[2])
\* ---- route origins: <<maxlenprefix, asn>>; identity is (prefix, resolved max-len, asn)
OKey(o) == <<o[1][1], Resolved(o[1]), o[2]>>
OriginEq(o, r)  == OKey(o) = OKey(r)
ImplCmpOrigin(o, r) ==
    LET c == ImplCmp(o[1][1], r[1][1]) IN
    IF c # "eq" THEN c
    ELSE LET d == CmpInt(Resolved(o[1]), Resolved(r[1])) IN
         IF d # "eq" THEN d ELSE CmpInt(o[2], r[2])
=============================================================================
