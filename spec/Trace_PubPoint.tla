---------------------------- MODULE Trace_PubPoint ----------------------------
(* Recorded walks over publication points (harness: vh drive pubpoint) against PubPoint's actions.  A "world" line gives the  *)
(* facets of the publication point and of its objects (any number of them); every "step" line must be the specification's  *)
(* next step with the outcome the library produced; the "end" line must name exactly the set the specification accepted.     *)
EXTENDS Naturals, Sequences, FiniteSets, TLC, Json, IOUtils
Rec == ndJsonDeserialize(IOEnv.TRACE)
\* all object names that occur in the recording (a constant of PubPoint; every world uses a subset)
AllObjects == UNION {DOMAIN Rec[i].obj : i \in {j \in 1..Len(Rec) : Rec[j].ev = "world"}}
VARIABLES pp, obj, devs, phase, todo, accepted, log, l, cur
P == INSTANCE PubPoint WITH MaxDev <- 0, Objects <- AllObjects
vars == <<pp, obj, devs, phase, todo, accepted, log, l, cur>>
\* objects that are not part of the current world are "unlisted and absent": the walk never touches them
Absent == [listed |-> "unlisted", present |-> "no", sig |-> "ca", res |-> "inside"]
World(i) == /\ pp' = Rec[i].pp
            /\ obj' = [o \in AllObjects |-> IF o \in DOMAIN Rec[i].obj THEN Rec[i].obj[o] ELSE Absent]
            /\ devs' = 0 /\ phase' = "world" /\ todo' = {} /\ accepted' = {} /\ log' = <<>>
            /\ cur' = DOMAIN Rec[i].obj
Init == /\ l = 1 /\ pp = P!GoodPp /\ obj = [o \in AllObjects |-> Absent] /\ devs = 0
        /\ phase = "done" /\ todo = {} /\ accepted = {} /\ log = <<>> /\ cur = {}
IsEv(e) == l <= Len(Rec) /\ Rec[l].ev = e /\ l' = l + 1
\* a new world may begin only when the previous walk has ended
TWorld == IsEv("world") /\ phase \in {"done", "failed"} /\ World(l)
\* the library's outcome of a step must be the specification's: the specification's action is taken and the outcome it logged compared
Outcome == log'[Len(log')].ok = Rec[l].ok
TStep == /\ IsEv("step")
         /\ LET st == Rec[l].step  o == Rec[l].o IN
            \/ st = "manifest" /\ P!LoadManifest
            \/ st = "crl" /\ P!LoadCrl
            \/ st = "mft-revoked" /\ P!CheckManifestEE
            \/ st \in {"file", "object"} /\ o \in AllObjects /\ P!ProcessObject(o) /\ log'[Len(log')].step[1] = st
         /\ Outcome
         /\ UNCHANGED cur
TEnd == /\ IsEv("end")
        /\ \/ phase = "failed" /\ UNCHANGED <<pp, obj, devs, phase, todo, accepted, log>>
           \/ phase = "objects" /\ P!Finish
        /\ accepted' = {o \in AllObjects : \E k \in 1..Len(Rec[l].accepted) : Rec[l].accepted[k] = o}
        /\ UNCHANGED cur
Next == TWorld \/ TStep \/ TEnd
TraceSpec == Init /\ [][Next]_vars
\* PubPoint's laws, evaluated after every consumed line
Exact == P!Exact
Safe == P!Safe
AllOrNothing == P!AllOrNothing
TraceAccepted ==
    LET d == TLCGet("stats").diameter - 1 IN
    IF d = Len(Rec) THEN TRUE ELSE PrintT(<<"TRACE-REJECTED", d + 1>>) /\ FALSE
=============================================================================
