----------------------------- MODULE ResBuilder -----------------------------
(***************************************************************************)
(* The resource builders of a certificate (src/repository/resources:        *)
(* AsResourcesBuilder, IpResourcesBuilder - the objects behind              *)
(* TbsCert::build_as_resource_blocks / build_v4_resource_blocks / ...).     *)
(* A builder is a little state machine: new, then any sequence of           *)
(* inherit() and blocks(|b| push ...) calls, then finalize().  The          *)
(* transcription keeps what the code keeps (None = inherit, Some(blocks     *)
(* pushed so far)); the law is stated on the history of calls: the          *)
(* finished resources are "inherit" exactly when the last call that said    *)
(* anything was inherit(), and otherwise the canonical chain of all blocks  *)
(* pushed since the last inherit() - however many blocks() calls they came  *)
(* in.  The certificate under construction (TbsCert) wraps a FRESH builder  *)
(* around every build_*_resource_blocks call and stores what it finishes    *)
(* as: there the last call alone decides (tbs, TbsLaw).                     *)
(***************************************************************************)
EXTENDS ResChain
CONSTANTS MaxCalls, MaxPush
\* what one call may be: inherit, or blocks with up to MaxPush pushes
Pushes == UNION {[1..n -> Blk] : n \in 0..MaxPush}
VARIABLES res,     \* the builder's field (transcription): [inh |-> TRUE] is None, otherwise the blocks pushed so far
          tbs,     \* the resources field of a TbsCert driven by the same calls (set_*_inherit / build_*_resource_blocks)
          calls    \* history: <<"inherit">> / <<"blocks", pushes>>
vars == <<res, tbs, calls>>
Init == res = [inh |-> FALSE, b |-> <<>>] /\ tbs = [inh |-> FALSE, b |-> <<>>] /\ calls = <<>>
CallInherit == /\ Len(calls) < MaxCalls /\ res' = [inh |-> TRUE, b |-> <<>>] /\ tbs' = res' /\ calls' = Append(calls, <<"inherit">>)
CallBlocks  == /\ Len(calls) < MaxCalls
               /\ \E p \in Pushes :
                    /\ res' = [inh |-> FALSE, b |-> (IF res.inh THEN p ELSE res.b \o p)]
                    /\ tbs' = [inh |-> FALSE, b |-> p]
                    /\ calls' = Append(calls, <<"blocks", p>>)
Next == CallInherit \/ CallBlocks
Spec == Init /\ [][Next]_vars
\* finalize(): the transcription
Final == IF res.inh THEN [c |-> "inherit", blocks |-> <<>>] ELSE [c |-> "blocks", blocks |-> FromIter(res.b)]
FinalTbs == IF tbs.inh THEN [c |-> "inherit", blocks |-> <<>>] ELSE [c |-> "blocks", blocks |-> FromIter(tbs.b)]
TbsLaw == calls # <<>> =>
            LET last == calls[Len(calls)] IN
            IF last[1] = "inherit" THEN FinalTbs.c = "inherit"
            ELSE FinalTbs.c = "blocks" /\ Den(FinalTbs.blocks) = UNION {DenB(last[2][k]) : k \in 1..Len(last[2])} /\ IsCanon(FinalTbs.blocks)
\* ... and the law, on the history
LastInherit == IF \E i \in 1..Len(calls) : calls[i][1] = "inherit"
               THEN CHOOSE i \in 1..Len(calls) : calls[i][1] = "inherit" /\ \A j \in (i + 1)..Len(calls) : calls[j][1] # "inherit"
               ELSE 0
PushedSince == UNION { {calls[i][2][k] : k \in 1..Len(calls[i][2])} : i \in {j \in (LastInherit + 1)..Len(calls) : calls[j][1] = "blocks"} }
Want == UNION {DenB(b) : b \in PushedSince}
BuilderLaw == IF LastInherit = Len(calls) /\ Len(calls) > 0
              THEN Final.c = "inherit"
              ELSE Final.c = "blocks" /\ Final.blocks = Canon(Want) /\ Den(Final.blocks) = Want
=============================================================================
