----------------------------- MODULE MC_Decoders -----------------------------
EXTENDS Decoders, Json
MJ(m) == <<m[1], m[2], m[3]>>
\* one replay case per plan (emitted when the plan is complete, before the decoder's verdict is chosen)
Emit == (outcome = "pending" /\ Len(muts) > 0) =>
            PrintT(<<"REPLAY", ToJson([op |-> "plan", entry |-> entry, strict |-> strict, muts |-> [i \in 1..Len(muts) |-> MJ(muts[i])]])>>)
\* ... and one per cell of the capture / re-decode table
CapRedCases == {[op |-> "capred", region |-> r, capmode |-> cap, shape |-> sh, accepts |-> Accepts(cap, sh)] :
                    r \in Regions, cap \in Modes, sh \in Shapes}
EmitCapRed == (entry = "cert" /\ muts = <<>>) => \A c \in CapRedCases : (c.capmode \in CaptureModes(c.region)) => PrintT(<<"REPLAY", ToJson(c)>>)
\* ... and one per shape of a certificate's resource extensions
EmitShapes == (entry = "cert" /\ muts = <<>>) => \A sh \in CertShapes : PrintT(<<"REPLAY", ToJson([op |-> "certshape", shape |-> sh, converts |-> ConvertsTo(sh)])>>)
view == <<entry, strict, muts, outcome = "pending">>
=============================================================================
