CONSTANTS Top = 3 MaxCalls = 2 MaxPush = 2
SPECIFICATION Spec
INVARIANTS BuilderLaw TbsLaw Emit
CHECK_DEADLOCK FALSE
