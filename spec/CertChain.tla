------------------------------ MODULE CertChain ------------------------------
(***************************************************************************)
(* Resource certificate validation (src/repository/cert.rs,                 *)
(* validate_ta/ca/ee/router_at): which certificates are accepted under an   *)
(* issuer and which resources the validated result carries.                 *)
(* Cryptography is not modelled: `sigKey` is the key a certificate was      *)
(* signed with, `skiOk` whether its subject key identifier is the hash of   *)
(* its key; the harness realises these (signs with that key, patches the    *)
(* SKI) and observes only the library's verdict.                            *)
(* Resources: per family a choice "missing" | "inherit" | "blocks" with a   *)
(* set of atoms (realised as concrete, pairwise disjoint blocks).           *)
(***************************************************************************)
EXTENDS Naturals, Sequences, FiniteSets, TLC
CONSTANTS Atom, Keys
Fams == {"v4", "v6", "as"}
NoKey == "none"
Res(c, s) == [c |-> c, s |-> s]
Claimed(r) == IF r.c = "blocks" THEN r.s ELSE {}
\* ---- acceptance of an issued certificate (CA, EE, router) under a validated issuer
TimeOk(c, now) == c.nb <= now /\ now <= c.na
CoveredOk(c, iss) == \A f \in Fams : (c.policy = "refuse" /\ c.res[f].c = "blocks") => c.res[f].s \subseteq iss.eff[f]
\* profile: some resources present; a router certificate has explicit AS blocks and no IP resources
ProfileOk(c) == /\ \E f \in Fams : c.res[f].c # "missing"
                /\ c.kind = "router" => (c.res["as"].c = "blocks" /\ c.res["v4"].c = "missing" /\ c.res["v6"].c = "missing")
AcceptChild(c, iss, now) ==
    /\ ProfileOk(c)
    /\ c.sigKey = iss.key                  \* signature verifies under the issuer's key
    /\ TimeOk(c, now)
    /\ c.aki = iss.key                     \* authority key identifier = issuer's subject key identifier
    /\ c.skiOk                             \* subject key identifier = hash of the certificate's key
    /\ c.tamper = "none"                   \* no bit of the signed bytes or the signature altered
    /\ CoveredOk(c, iss)
\* effective resources of an accepted child
EffFam(c, iss, f) == CASE c.res[f].c = "missing" -> {}
                       [] c.res[f].c = "inherit" -> iss.eff[f]
                       [] OTHER -> IF c.policy = "refuse" THEN c.res[f].s ELSE c.res[f].s \cap iss.eff[f]
Eff(c, iss) == [f \in Fams |-> EffFam(c, iss, f)]
\* ---- trust anchor: self-signed, no inherited resources
AcceptTA(c, now) ==
    /\ c.sigKey = c.key /\ TimeOk(c, now) /\ c.skiOk /\ c.tamper = "none"
    /\ c.aki \in {NoKey, c.key}
    /\ \A f \in Fams : c.res[f].c # "inherit"
EffTA(c) == [f \in Fams |-> Claimed(c.res[f])]
=============================================================================
