CONSTANTS
  Refresh = 4
  Patience = 2
  MaxTime = 7
  MaxNotify = 2
  SkipsCrossing = FALSE
SPECIFICATION Spec
INVARIANTS NoFailure
CHECK_DEADLOCK FALSE
