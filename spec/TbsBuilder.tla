------------------------------ MODULE TbsBuilder ------------------------------
(***************************************************************************)
(* The certificate builder as a state machine (TbsCert::new and its         *)
(* setters, src/repository/cert.rs:1191-1530).  The state is the field      *)
(* record the builder holds; each setter is one action.  Building, encoding *)
(* and decoding must give back a value that answers every accessor with     *)
(* exactly this record (Twin), in particular the subject key identifier is  *)
(* derived: it always names the CURRENT key (SkiTracksKey).                 *)
(***************************************************************************)
EXTENDS Naturals, Sequences, FiniteSets, TLC
Keys == {"k1", "e0"}
KeyId(k) == k                       \* the identifier is a function of the key alone
NameOfKey(k) == k                   \* TbsCert::new(subject = None) derives the subject from the key
RUris == {"none", "u1", "u2"}
ResV == {"missing", "inherit", "b1", "b2"}
Setters == [
    serial |-> {"1", "2"}, issuer |-> {"n0", "n2"}, validity |-> {"w1", "w2"}, subject |-> {"n1", "n3"},
    key |-> Keys, basic_ca |-> {"none", "true"}, aki |-> {"none", "k0"}, key_usage |-> {"ca", "ee"},
    crl_uri |-> RUris, ca_issuer |-> RUris, ca_repository |-> RUris, rpki_manifest |-> RUris, signed_object |-> RUris,
    rpki_notify |-> {"none", "h1"}, overclaim |-> {"refuse", "trim"}, v4 |-> ResV, v6 |-> ResV, asr |-> ResV ]
Fields == DOMAIN Setters
CONSTANT MaxSteps
VARIABLES f, init, script
vars == <<f, init, script>>
New(subj, key, asr0) ==
    [serial |-> "1", issuer |-> "n0", validity |-> "w1", subject |-> IF subj = "derive" THEN NameOfKey(key) ELSE subj,
     key |-> key, ski |-> KeyId(key), basic_ca |-> "none", aki |-> "none", key_usage |-> "ca",
     crl_uri |-> "none", ca_issuer |-> "none", ca_repository |-> "none", rpki_manifest |-> "none", signed_object |-> "none",
     rpki_notify |-> "none", overclaim |-> "refuse", v4 |-> "missing", v6 |-> "missing", asr |-> asr0]
Init == \E subj \in {"derive", "n1"}, key \in Keys, asr0 \in {"missing", "b1"} :
           /\ init = [subject |-> subj, key |-> key, asr |-> asr0]
           /\ f = New(subj, key, asr0)
           /\ script = <<>>
\* one setter call; set_subject_public_key updates the identifier together with the key
Set(field, v) ==
    /\ Len(script) < MaxSteps
    /\ f' = IF field = "key" THEN [f EXCEPT !.key = v, !.ski = KeyId(v)] ELSE [f EXCEPT ![field] = v]
    /\ script' = Append(script, <<field, v>>)
    /\ UNCHANGED init
Next == \E field \in Fields : \E v \in Setters[field] : Set(field, v)
Spec == Init /\ [][Next]_vars
\* the decoder's profile: at least one resource extension
Buildable == f.v4 # "missing" \/ f.v6 # "missing" \/ f.asr # "missing"
SkiTracksKey == f.ski = KeyId(f.key)
\* what the decoded twin answers: the record itself (encode_ref mirrors from_constructed field by field)
Twin == f
\* a setter touches its own field only (and the identifier, for the key)
OneField == [][\A g \in Fields : (f'[g] # f[g]) => (\E v \in Setters[g] : script' = Append(script, <<g, v>>))]_vars
=============================================================================
