--------------------------- MODULE MC_PrefixPairs ---------------------------
(* All pairs of prefixes / max-length prefixes / origins: a user holds two   *)
(* values and may replace either by any other.                               *)
EXTENDS PrefixLaws, Json
VARIABLES m, n, oa, ob
vars == <<m, n, oa, ob>>
Asns == {0, 1}
Init == m \in MLs /\ n \in MLs /\ oa = 0 /\ ob = 0
SetAsn == \E x \in Asns, y \in Asns : oa' = x /\ ob' = y /\ UNCHANGED <<m, n>>
SetM == \E x \in MLs : m' = x /\ UNCHANGED <<n, oa, ob>>
Next == SetAsn \/ SetM
Spec == Init /\ [][Next]_vars
p == m[1]
q == n[1]
CoversLaw   == ImplCovers(p, q) <=> Covers(p, q)
CmpEqLaw    == (ImplCmp(p, q) = "eq") <=> (p = q)
CmpAntisym  == ImplCmp(q, p) = Flip(ImplCmp(p, q))
SpecificFirst == (Covers(p, q) /\ p # q) => ImplCmp(q, p) = "lt"
MLEqLaw     == (ImplCmpML(m, n) = "eq") <=> (m = n)
MLAntisym   == ImplCmpML(n, m) = Flip(ImplCmpML(m, n))
OrigEqLaw   == (ImplCmpOrigin(<<m, oa>>, <<n, ob>>) = "eq") <=> OriginEq(<<m, oa>>, <<n, ob>>)
OrigAntisym == ImplCmpOrigin(<<n, ob>>, <<m, oa>>) = Flip(ImplCmpOrigin(<<m, oa>>, <<n, ob>>))
Pj(x) == [f |-> x[1], a |-> x[2], l |-> x[3]]
Emit == PrintT(<<"REPLAY", ToJson([op |-> "pair", w4 |-> W4, w6 |-> W6,
           p |-> Pj(p), pml |-> m[2], q |-> Pj(q), qml |-> n[2], asn |-> <<oa, ob>>,
           covers |-> Covers(p, q), cmp |-> ImplCmp(p, q), mlcmp |-> ImplCmpML(m, n),
           ocmp |-> ImplCmpOrigin(<<m, oa>>, <<n, ob>>), oeq |-> OriginEq(<<m, oa>>, <<n, ob>>),
           pmin |-> MinAddr(p), pmax |-> MaxAddr(p)])>>)
=============================================================================
