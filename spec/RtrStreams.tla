----------------------------- MODULE RtrStreams -----------------------------
(* The client byte streams used by the exhaustive model and by trace validation. *)
StreamsDef == <<
  << [kind |-> "reset", ver |-> 1], [kind |-> "serial_ok", ver |-> 1], [kind |-> "badlen_reset", ver |-> 1] >>,
  << [kind |-> "serial_unknown", ver |-> 2], [kind |-> "reset", ver |-> 0], [kind |-> "unktype", ver |-> 2] >>,
  << [kind |-> "reset", ver |-> 3], [kind |-> "serial_ok", ver |-> 0], [kind |-> "badlen_serial", ver |-> 0], [kind |-> "errpdu", ver |-> 0], [kind |-> "reset", ver |-> 0] >>,
  << [kind |-> "serial_ok", ver |-> 2], [kind |-> "serial_ok", ver |-> 2], [kind |-> "reset", ver |-> 2], [kind |-> "reset", ver |-> 2] >>
>>
=============================================================================
