------------------------------- MODULE MC_CmsMsg -------------------------------
EXTENDS CmsMsg, Json
\* keep the base product small: the AKI / revoked variants only on the plain and the 128-byte size
Slim == (msg.size \notin {"plain", "s128"}) => (msg.f.eeaki \in {"peer", "other"} /\ msg.f.crlaki \in {"peer", "other"} /\ msg.f.revoked \in {"none", "ee", "other_ee", "ee_other", "big_ee"} /\ msg.f.eeca \in {"no", "yes"})
Emit == PrintT(<<"REPLAY", ToJson([op |-> "cmsmsg", size |-> msg.size, alg |-> msg.alg, f |-> msg.f, accept |-> Accept(msg)])>>)
=============================================================================
