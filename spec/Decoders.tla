------------------------------ MODULE Decoders ------------------------------
(***************************************************************************)
(* The decoding entry points (cert.rs, crl.rs, manifest.rs, roa.rs, aspa.rs,*)
(* rta.rs, tal.rs, keys.rs, csr.rs, idcert.rs, sigmsg.rs) as a machine that *)
(* is fed an adversary's input.                                             *)
(*                                                                          *)
(*  1. Capture / re-decode discipline.  Several values keep a region of the *)
(*     input as captured bytes and decode it again, with unwrap(), whenever *)
(*     an accessor walks it.  That is sound only if the accessor's decoder  *)
(*     accepts every encoding shape the capturing decoder accepted          *)
(*     (CapImpliesRed): an accessor that insists on DER must never meet a   *)
(*     region captured while decoding BER.                                  *)
(*  2. The adversary's plans.  Starting from a valid object of the entry    *)
(*     point's type, the adversary applies up to MaxMuts structure-         *)
(*     preserving mutations (tag, length form, value, delete, duplicate,    *)
(*     splice, segmentation, ...) at chosen nodes of the TLV tree and picks *)
(*     strict or relaxed decoding.  Every plan must end in the outcome      *)
(*     "value" (then every accessor must return) or "error"; the outcomes   *)
(*     "panic" and "blowup" (time or memory beyond the budget, a fixed      *)
(*     multiple of the input size) are the bad states.                      *)
(***************************************************************************)
EXTENDS Naturals, Sequences, FiniteSets, TLC

\* ---------------------------------------------------------------- 1. capture / re-decode
Modes == {"der", "ber"}
\* encoding shapes of one TLV: definite minimal length, non-minimal long form, indefinite length, string in segmented (constructed) form
Shapes == {"short", "long-nonmin", "indef", "cons-string"}
Accepts(mode, shape) == mode = "ber" \/ shape = "short"
\* regions kept as captured bytes, the modes they can be captured in, and how each accessor decodes them again
\* ("captured" = in the mode recorded with the bytes; "der" = always DER)
Regions == {"CrlRevoked", "MsgCrlRevoked", "ManifestFiles", "RoaAddrs", "AspaProviders"}
CaptureModes(r) == IF r = "MsgCrlRevoked" THEN {"der", "ber"}      \* SignedMessage::decode(_, strict) / relaxed
                   ELSE {"der"}                                     \* Crl::decode; signed-object content is always decoded as DER
Accessors(r) == IF r \in {"CrlRevoked", "MsgCrlRevoked"} THEN {"iter", "contains"} ELSE {"iter"}
RedecodeRule(r, a) == IF r \in {"CrlRevoked", "MsgCrlRevoked", "ManifestFiles"} THEN "captured" ELSE "der"
RedMode(r, a, cap) == IF RedecodeRule(r, a) = "captured" THEN cap ELSE "der"
CapImpliesRed == \A r \in Regions : \A a \in Accessors(r) : \A cap \in CaptureModes(r) : \A sh \in Shapes :
                    Accepts(cap, sh) => Accepts(RedMode(r, a, cap), sh)

\* ------------------------------------------- 1b. whole-value conversions of a decoded certificate
\* A certificate says, per resource family, nothing / "inherit" / blocks.  The conversions that turn a decoded certificate into
\* one value (ResourceSet::try_from) are partial by design: they refuse when anything is inherited.  "Partial" must mean an
\* error, for EVERY combination of the three families - the contract automaton's "no panic" on a domain small enough to list.
Choices == {"missing", "inherit", "blocks"}
CertShapes == [v4 : Choices, v6 : Choices, asn : Choices]
ConvertsTo(sh) == IF "inherit" \in {sh.v4, sh.v6, sh.asn} THEN "err" ELSE "ok"
ConversionTotal == \A sh \in CertShapes : ConvertsTo(sh) \in {"ok", "err"}

\* ---------------------------------------------------------------- 2. plans
Entries == {"cert", "crl", "manifest", "roa", "aspa", "rta", "tal", "pubkey", "csr", "idcert", "sigmsg"}
HasRelaxed == {"manifest", "roa", "aspa", "rta", "sigmsg"}          \* entry points with a strict flag
Kinds == {"delete", "duplicate", "swap-next", "move-first", "splice-other", "tag-class", "tag-number", "tag-constructed", "tag-high",
          "len-nonminimal", "len-indefinite", "len-plus", "len-minus", "len-huge", "len-zero", "empty", "value-zero", "value-ff",
          "value-flip", "value-trunc", "value-extend", "value-highbit", "value-leadzero", "int-huge", "int-max", "segment-string", "bits-unused", "bits-long",
          "bool-odd", "oid-cont", "time-chars", "string-bytes", "nest-deep"}
CONSTANTS Sites, Variants, MaxMuts
VARIABLES entry, strict, muts, outcome
vars == <<entry, strict, muts, outcome>>
Outcomes == {"pending", "value", "error"}          \* the specification has no panic or blowup outcome
Init == /\ entry \in Entries
        /\ strict \in (IF entry \in HasRelaxed THEN BOOLEAN ELSE {TRUE})
        /\ muts = <<>> /\ outcome = "pending"
Mutate(k, s, v) == /\ outcome = "pending" /\ Len(muts) < MaxMuts
                   /\ muts' = Append(muts, <<k, s, v>>)
                   /\ UNCHANGED <<entry, strict, outcome>>
\* the decoder returns: a value (every accessor then returns as well) or an error
Decode == /\ outcome = "pending" /\ Len(muts) > 0
          /\ outcome' \in {"value", "error"}
          /\ UNCHANGED <<entry, strict, muts>>
Next == (\E k \in Kinds, s \in 0..(Sites - 1), v \in 0..(Variants - 1) : Mutate(k, s, v)) \/ Decode
Spec == Init /\ [][Next]_vars /\ WF_vars(Decode)
TypeOk == outcome \in Outcomes
\* every plan that is run comes to an end
Terminates == <>(outcome # "pending" \/ muts = <<>>)
=============================================================================
