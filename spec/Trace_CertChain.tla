---------------------------- MODULE Trace_CertChain ----------------------------
(* Issuer -> child links recorded from real certificates with large random       *)
(* resource sets (full-width numbers, coordinate-compressed as for C03): the     *)
(* verdict and the validated child's resources must be what ResChain's           *)
(* VerifyIssued (Refuse: covered or rejected; Trim: intersection; inherit;       *)
(* missing) says, and never more than the issuer holds.                          *)
EXTENDS ResChain, Json, IOUtils, TLCExt
Rec == ndJsonDeserialize(IOEnv.TRACE)
VARIABLE l
Ch(x) == [i \in 1..Len(x) |-> <<x[i][1], x[i][2]>>]
EvLink(e) == LET r == VerifyIssued(Ch(e.issuer), e.kind, Ch(e.claimed), e.policy) IN
             /\ IsCanon(Ch(e.issuer))
             /\ e.ok = r[1]
             /\ (e.ok => Ch(e.eff) = r[2] /\ Den(r[2]) \subseteq Den(Ch(e.issuer)))
\* a whole certificate: accepted iff every family's link is accepted and identity holds
EvCert(e) == e.ok = (e.v4ok /\ e.v6ok /\ e.asok /\ e.identity_ok)
TInit == l = 1
TNext == /\ l <= Len(Rec)
         /\ LET e == Rec[l] IN CASE e.ev = "link" -> EvLink(e) [] e.ev = "cert" -> EvCert(e) [] OTHER -> FALSE
         /\ l' = l + 1
TraceSpec == TInit /\ [][TNext]_l
TraceAccepted ==
    LET d == TLCGet("stats").diameter IN
    IF d - 1 = Len(Rec) THEN TRUE ELSE Print(<<"TRACE-REJECTED", d>>, FALSE)
=============================================================================
