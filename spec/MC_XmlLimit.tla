----------------------------- MODULE MC_XmlLimit -----------------------------
EXTENDS XmlLimit
CONSTANT DocId
H == 3
F == 6
Docs == <<
  << [size |-> 2, lim |-> H], [size |-> 5, lim |-> F], [size |-> 1, lim |-> F] >>,
  << [size |-> 2, lim |-> H], [size |-> 999, lim |-> F] >>,
  << [size |-> 999, lim |-> H] >>,
  << [size |-> 3, lim |-> H], [size |-> 6, lim |-> F], [size |-> 9, lim |-> F], [size |-> 2, lim |-> F] >>,
  << [size |-> 6, lim |-> H], [size |-> 1, lim |-> F] >>
>>
DocDef == Docs[DocId]
=============================================================================
