------------------------------ MODULE BuildDecode ------------------------------
(***************************************************************************)
(* Builders versus decoders (cert.rs, crl.rs, manifest.rs, roa.rs, aspa.rs, *)
(* csr.rs, idcert.rs, sigmsg.rs).                                           *)
(*  1. Captured-layout discipline.  Several values keep a sub-structure as  *)
(*     captured DER: the ROA address lists, the ASPA provider set, the      *)
(*     manifest file list, the CRL's revoked certificates.  Each such       *)
(*     region has ONE layout (content only, without the enclosing SEQUENCE  *)
(*     header) on which the builder, the decoder, the iterator and the      *)
(*     encoder must agree; the encoder adds the header exactly once.        *)
(*  2. A builder-input machine: a user picks an object kind and sets the    *)
(*     fields in classes (serial number form, validity form, list contents  *)
(*     in any insertion order, resource shape, URI form).  Every state is   *)
(*     a replay case: build, encode, decode, validate, re-encode, compare   *)
(*     every accessor of the built object and its decoded twin.             *)
(***************************************************************************)
EXTENDS X509Time
\* ---- 1. layout discipline (transcribed from the code after the repair of roa.rs / aspa.rs)
Regions == {"RoaIpAddresses", "ProviderAsSet", "FileList", "RevokedCertificates"}
Layout == [r \in Regions |-> [build |-> "content", decode |-> "content", iter |-> "content", encodeAddsHeader |-> TRUE]]
LayoutOk(r) == /\ Layout[r].build = Layout[r].decode            \* built and decoded twins hold the same bytes
               /\ Layout[r].iter = Layout[r].decode             \* the iterator reads what is stored
               /\ (Layout[r].decode = "content" <=> Layout[r].encodeAddsHeader)   \* re-encoding restores the header once
LayoutDiscipline == \A r \in Regions : LayoutOk(r)

\* ---- 2. builder inputs
Kinds == {"cert_ca", "cert_ee", "crl", "mft", "roa", "aspa", "csr", "idcert", "sigmsg"}
SerialClasses == {"zero", "one", "highbit", "twenty"}     \* the number 0; 1 octet; 2 octets with the top bit set; full 20 octets
TimeClasses == {"utc", "gen", "cross1950", "cross2050", "far"}    \* window inside 1950-2049, after 2050, across either boundary, years 1 - 9999
\* "woven": five touching blocks given in the order 1st, 3rd, 5th, 2nd, 4th (and seven in the order 7th .. 1st with the even ones
\* last) - the resource collectors have to fold a run of several neighbours after sorting; the object must say one block
ResShapes == {"one", "many", "ends", "woven", "inherit"}
UriForms == {"dir", "nodir"}                              \* repository URI with / without trailing slash
Items == 1..4
\* (a ROA has a fifth kind of prefix: one that starts where the first starts and is more specific - two list entries, one first address)
ItemsOf(k) == IF k = "roa" THEN 1..5 ELSE Items
Feeds == {"exact", "lazy"}                                \* the list handed to the builder: a slice / an iterator that does not know its length
\* concrete values of the classes: the replayer builds with exactly these, and the expected DER forms
\* (time tags, minimal INTEGER) are computed here from X509Time's encoder model
Window(c) == CASE c = "utc" -> << <<2024, 1, 1, 0, 0, 0>>, <<2025, 12, 31, 23, 59, 59>> >>
               [] c = "gen" -> << <<2050, 1, 1, 0, 0, 0>>, <<2051, 6, 30, 12, 30, 30>> >>
               [] c = "cross1950" -> << <<1949, 12, 31, 23, 59, 59>>, <<1950, 1, 1, 0, 0, 0>> >>
               [] c = "cross2050" -> << <<2049, 12, 31, 23, 59, 59>>, <<2050, 1, 1, 0, 0, 0>> >>
               [] OTHER -> << <<1, 1, 1, 0, 0, 0>>, <<9999, 12, 31, 23, 59, 59>> >>
SerialBytes(c) == CASE c = "zero" -> <<0>>
                    [] c = "one" -> <<7>>
                    [] c = "highbit" -> <<128, 255>>
                    [] OTHER -> <<127>> \o [i \in 1..18 |-> 165] \o <<3>>
TimesRoundTrip == \A c \in TimeClasses : \A i \in 1..2 : Dec(Tag(Window(c)[i]), Enc(Window(c)[i])) = Window(c)[i]
SerialsMinimal == \A c \in SerialClasses : LET d == MinimalDer(SerialBytes(c)) IN
                     /\ d[1] < 128 /\ StripZ(d) = StripZ(SerialBytes(c)) /\ (Len(d) > 1 /\ d[1] = 0 => d[2] >= 128)
VARIABLES kind, serial, times, res, uriform, items, feed
vars == <<kind, serial, times, res, uriform, items, feed>>
\* fields that do not exist for a kind are pinned, so each distinct input appears once
Relevant ==
    /\ (kind \in {"csr", "idcert", "sigmsg"} => (serial = "one" /\ res = "one" /\ items = <<>>))
    /\ (kind # "csr" /\ kind # "cert_ca" => uriform = "dir")
    /\ (kind \in {"csr"} => times = "utc")
    /\ (kind \in {"crl", "mft", "roa", "aspa"} => res = "one")
    /\ (kind \in {"cert_ca", "cert_ee"} => items = <<>>)
    /\ (kind # "mft" => feed = "exact")                    \* only ManifestContent::new takes an iterator
Init == /\ kind \in Kinds /\ serial \in SerialClasses /\ times \in TimeClasses /\ res \in ResShapes /\ uriform \in UriForms
        /\ items = <<>> /\ feed \in Feeds
        /\ Relevant
AddItem == /\ Len(items) < 3
           /\ kind \in {"crl", "mft", "roa", "aspa"}
           \* any insertion order, duplicates included (an ASPA provider set refuses duplicates at construction: distinct there)
           /\ \E x \in ItemsOf(kind) : (kind = "aspa" => \A i \in 1..Len(items) : items[i] # x) /\ items' = Append(items, x)
           /\ UNCHANGED <<kind, serial, times, res, uriform, feed>>
Next == AddItem
Spec == Init /\ [][Next]_vars
=============================================================================
