------------------------------- MODULE RtrPacing -------------------------------
(***************************************************************************)
(* When an RTR client asks (src/rtr/client.rs: Client::update) and what     *)
(* happens when the server's Serial Notify crosses the client's query on    *)
(* the wire (src/rtr/server.rs: Connection::recv / notify).                 *)
(*                                                                         *)
(* After a completed response the client waits until `refresh` has passed   *)
(* or a Serial Notify arrives, whichever is first, then sends a serial      *)
(* query and reads the response.  The server writes a Serial Notify         *)
(* whenever it is between responses - which includes the moment the         *)
(* client's next query is already in flight.  The two directions of the     *)
(* connection are FIFO channels with arbitrary delay; one action per        *)
(* delivery, per timer expiry and per server turn.                          *)
(*                                                                         *)
(* As implemented (SkipsCrossing = FALSE) the client treats a Serial Notify *)
(* that arrives where the first PDU of a response is expected as a protocol *)
(* error ("unexpected PDU 0") and gives the connection up: NoFailure does   *)
(* not hold (MC_RtrPacing.cfg reports the crossing; the replay reproduces   *)
(* it with the real Client and Server).  With SkipsCrossing = TRUE - RFC    *)
(* 8210 5.2: a router may ignore a Serial Notify while it is in the middle  *)
(* of a query - all laws hold (MC_RtrPacingRobust.cfg).                     *)
(***************************************************************************)
EXTENDS Naturals, Sequences, TLC
CONSTANTS Refresh,          \* the refresh interval in ticks (>= 1)
          Patience,         \* how long the client waits for the reply to a query, in ticks (IO_TIMEOUT)
          MaxTime,          \* ticks explored
          MaxNotify,        \* notifications the server issues
          SkipsCrossing     \* FALSE: the code; TRUE: the tolerant reading of RFC 8210
VARIABLES now,      \* the clock
          mode,     \* client: "start" | "wait" | "await" | "failed" (protocol error) | "timedout" (no reply in time)
          deadline, \* client: when the wait ends at the latest (mode "wait"); when its patience ends (mode "await")
          c2s, s2c, \* the two directions: sequences of "query" / "resp" / "notify"
          asked,    \* queries the client has sent
          answered, \* responses the client has completed
          notified, \* notifications issued
          log       \* ghost: the actions so far (what the replay executes)
vars == <<now, mode, deadline, c2s, s2c, asked, answered, notified, log>>

Init == /\ now = 0 /\ mode = "start" /\ deadline = 0 /\ c2s = <<>> /\ s2c = <<>>
        /\ asked = 0 /\ answered = 0 /\ notified = 0 /\ log = <<>>

Send == /\ c2s' = Append(c2s, "query") /\ asked' = asked + 1 /\ mode' = "await" /\ deadline' = now + Patience
\* the first query goes out at once
CliStart == /\ mode = "start" /\ Send
            /\ log' = Append(log, <<"start", now>>) /\ UNCHANGED <<now, s2c, answered, notified>>
\* the refresh timer
CliTimeout == /\ mode = "wait" /\ now >= deadline /\ Send
              /\ log' = Append(log, <<"timeout", now>>) /\ UNCHANGED <<now, s2c, answered, notified>>
\* the reply did not come in time: the client gives the connection up (that is its right)
CliGiveUp == /\ mode = "await" /\ now >= deadline /\ mode' = "timedout"
             /\ log' = Append(log, <<"giveup", now>>) /\ UNCHANGED <<now, deadline, c2s, s2c, asked, answered, notified>>
\* the next message from the server reaches the client
CliRecv == /\ s2c # <<>> /\ mode \in {"wait", "await"}
           /\ s2c' = Tail(s2c)
           /\ log' = Append(log, <<"deliver-s2c", now>>)
           /\ IF mode = "wait"
              THEN \* only a Serial Notify can arrive here: ask at once  (a timer that is due goes first)
                   /\ now < deadline /\ Head(s2c) = "notify" /\ Send /\ UNCHANGED <<answered>>
              ELSE IF now >= deadline THEN FALSE          \* patience that is over goes first
              ELSE IF Head(s2c) = "resp"
              THEN /\ mode' = "wait" /\ deadline' = now + Refresh /\ answered' = answered + 1 /\ UNCHANGED <<c2s, asked>>
              ELSE \* a Serial Notify where the response should start
                   /\ mode' = IF SkipsCrossing THEN "await" ELSE "failed"
                   /\ UNCHANGED <<c2s, asked, deadline, answered>>
           /\ UNCHANGED <<now, notified>>
\* the server reads the next query and writes the whole response
SrvServe == /\ c2s # <<>> /\ c2s' = Tail(c2s) /\ s2c' = Append(s2c, "resp")
            /\ log' = Append(log, <<"serve", now>>) /\ UNCHANGED <<now, mode, deadline, asked, answered, notified>>
\* the source has new data: the server is between responses by construction (a response is written in one piece)
SrvNotify == /\ notified < MaxNotify /\ answered >= 1        \* (the version is known once the first response is out)
             /\ s2c' = Append(s2c, "notify") /\ notified' = notified + 1
             /\ log' = Append(log, <<"notify", now>>) /\ UNCHANGED <<now, mode, deadline, c2s, asked, answered>>
\* time passes, but not past a timer that is due
Tick == /\ now < MaxTime /\ ~(mode \in {"wait", "await"} /\ now >= deadline) /\ mode # "start"
        /\ now' = now + 1 /\ log' = Append(log, <<"tick", now>>)
        /\ UNCHANGED <<mode, deadline, c2s, s2c, asked, answered, notified>>
Next == CliStart \/ CliTimeout \/ CliGiveUp \/ CliRecv \/ SrvServe \/ SrvNotify \/ Tick
Spec == Init /\ [][Next]_vars /\ WF_vars(CliStart) /\ WF_vars(CliTimeout) /\ WF_vars(CliGiveUp) /\ WF_vars(CliRecv) /\ WF_vars(SrvServe) /\ WF_vars(Tick)

-----------------------------------------------------------------------------
\* at most one query is outstanding, the channels never hold more than the protocol allows
OneOutstanding == mode \in {"failed", "timedout"} \/ (asked - answered \in {0, 1} /\ (mode = "await" <=> asked = answered + 1))
\* a query is only sent at the start, when the refresh interval is over, or on a Serial Notify: never early for no reason
Paced == [][asked' > asked => (mode = "start" \/ (mode = "wait" /\ (now >= deadline \/ (s2c # <<>> /\ Head(s2c) = "notify"))))]_vars
\* the client never lets the refresh interval pass without asking
NeverLate == mode \in {"wait", "await"} => now <= deadline
\* a server that keeps to the protocol never makes the client give up   (fails as implemented: the crossing)
NoFailure == mode # "failed"
\* the first response arrives
Progress == <>(answered >= 1 \/ mode = "timedout" \/ now = MaxTime)
=============================================================================
