CONSTANTS
  Conns = {1, 2}
  MaxEvents = 4
  Spawned = FALSE
SPECIFICATION Spec
PROPERTIES Served
CHECK_DEADLOCK FALSE
